"""C01 - PCA is an exact orthogonal decomposition that accounts for all the variance.

Mode 3 (ledger).  The floating-point NIPALS results are not recomputed in TLA+:
(M)  Pca.tla, section Model: a nondeterministic ideal PCA over small integer budgets emits ledger events; TLC shows
     the ledger accepts every ideal run (not contradictory), the budget never goes negative, Finish comes only
     after npc extractions, full rank closes the budget; five model-level faults must each be rejected.
(C)  c01_drv fits the real PCA() on random in-quantifier matrices (shapes 2..60 x 1..25, scalings -1..5, npc 1..rank,
     processor counts 1,2,3,16,24), each fit in a child process under the H4 iteration budget, computes the residual
     of every identity itself (rank from LAPACK dgesdd on the preprocessed matrix) and logs them as integers;
     TLC validates every recorded fit against TracePca.tla (Prop layer = the property; Impl layer = dmodx and
     bit-level re-projection).
"""
import math, os, shutil
from concurrent.futures import ThreadPoolExecutor
from vf import build, tlc, trace
from vf import run as hrun
from vf.core import InfraError

LEVEL = "exploration"
READY = True
TECHNIQUE = ("TLC model checking of the PCA variance ledger (Pca.tla: ideal runs accepted, five injected faults rejected) + TLC trace validation of "
             "residual ledgers recorded from the real PCA/PCAScorePredictor/PCAIndVarPredictor on sampled in-quantifier matrices (hooks H2, H4; "
             "rank oracle LAPACK dgesdd)")
LEVEL_TEXT = ("Sampled inputs: random matrices inside the property's quantifier (all shapes classes, all 7 scalings, every admissible npc, processor counts "
              "1/2/3/16/24) are fitted with the real library; the harness measures the residual of every stated identity in extended precision and TLC validates "
              "each recorded fit against the ledger specification, evaluating orthonormality, projection, residual orthogonality, eigenvalue sign/order, the "
              "variance budget (Pythagoras), explained-variance consistency, closure at full rank, re-projection and back-transformation at every step.")
LEVEL_NOTE = ("Exploration, not exhaustive. Trusts TLC, the harness's residual evaluation and quantisation (binding self-test: a residual multiplied by 1e6 must be "
              "rejected), LAPACK dgesdd as rank oracle, MatrixPreprocess as the definition of the preprocessed matrix (C10 checks it). Components are requested only "
              "among singular values >= 1e-6 of the largest; TolAlg 1e-8, TolEig 4*sqrt(n*1e-10) relative + 1e-9*ss0.")

SEED_STRIDE = 7919



def ceil_sqrt(x):
    r = math.isqrt(x)
    return r if r * r == x else r + 1


def tol_eig(n, ev):
    return abs(ev) * (40 * ceil_sqrt(n * 1000000)) // 1000000000 + 3


def _name_failure(fit, st, ev):
    """name the conjunct of the Prop layer that the rejected event violates (naming only: the verdict is TLC's)"""
    n = fit["n"]
    e = ev.get("e")
    if e == "Diverge":
        return "no-convergence", "NIPALS loop of %s did not converge within %s iterations (component %s)" % (ev.get("site"), ev.get("it"), ev.get("comp"))
    if e == "Abort":
        return ("no-convergence" if ev.get("why") == "iteration-budget" else "crash:%s" % ev.get("why")), \
               "fit did not finish (%s, rc=%s)" % (ev.get("why"), ev.get("rc"))
    if e == "Extract":
        for f, nm in (("ortho", "orthonormal-loadings"), ("proj", "score-projection"), ("recon", "reconstruction"), ("rorth", "residual-orthogonality")):
            if ev[f] > 10000:
                return nm, "component %d: %s residual %.3g > 1e-8" % (ev["k"], f, ev[f] * 1e-12)
        if ev["eval"] < 0:
            return "eigenvalue-sign", "component %d: eigenvalue negative" % ev["k"]
        if ev["eval"] > st["last"] + tol_eig(n, st["last"]):
            return "eigenvalue-order", "component %d: eigenvalue %.6g of ss0 exceeds the previous one %.6g (tolerance %.3g)" % (
                ev["k"], ev["eval"] * 1e-9, st["last"] * 1e-9, tol_eig(n, st["last"]) * 1e-9)
        if abs((st["ssLeft"] - ev["eval"]) - ev["resid"]) > tol_eig(n, ev["eval"]) or ev["resid"] < -3:
            return "variance-budget", "component %d: |E_k|^2/ss0 = %.9g but budget %.9g - eigenvalue %.9g (tolerance %.3g)" % (
                ev["k"], ev["resid"] * 1e-9, st["ssLeft"] * 1e-9, ev["eval"] * 1e-9, tol_eig(n, ev["eval"]) * 1e-9)
        if ev.get("k") != st["k"] + 1 or st["k"] >= fit["npc"]:
            return "component-count", "component index %s after %d extractions (npc=%d)" % (ev.get("k"), st["k"], fit["npc"])
    if e == "Finish":
        ve, evs = ev["varexp"], st["evals"]
        if len(ve) != len(evs) or st["k"] != fit["npc"]:
            return "component-count", "%d explained variances for %d extracted components (npc=%d)" % (len(ve), len(evs), fit["npc"])
        for i, v in enumerate(ve):
            if v < 0 or abs(v - evs[i]) > tol_eig(n, evs[i]):
                return "varexp-eigenvalue", "component %d: explained variance %.9g vs t't/ss0 %.9g (tolerance %.3g)" % (i + 1, v * 1e-9, evs[i] * 1e-9, tol_eig(n, evs[i]) * 1e-9)
        for i in range(1, len(ve)):
            if ve[i] > ve[i - 1] + tol_eig(n, ve[i - 1]):
                return "varexp-order", "explained variance %d (%.6g %%) exceeds the previous one (%.6g %%)" % (i + 1, ve[i] * 1e-7, ve[i - 1] * 1e-7)
        st_tol = sum(tol_eig(n, x) for x in evs)
        if sum(ve) > 10 ** 9 + st_tol:
            return "varexp-sum", "explained variances sum to %.7f %% > 100" % (sum(ve) * 1e-7)
        if fit["npc"] == fit["rank"] and fit["tail"] == 0:
            if st["ssLeft"] > 3 or abs(sum(ve) - 10 ** 9) > st_tol:
                return "full-rank-closure", "all components taken: residual %.3g of ss0, explained variances sum to %.7f %%" % (st["ssLeft"] * 1e-9, sum(ve) * 1e-7)
    if e == "Project" and ev["err"] <= 10000 and ev.get("gr", 0) > 10000:
        return "residual-matrix", "GetResidualMatrix differs from preprocessed data - scores x loadings^T by %.3g of |E0| > 1e-8" % (ev["gr"] * 1e-12)
    if e == "Project" and ev["err"] > 10000:
        return "reprojection", "projecting the training matrix: relative score error %.3g > 1e-8" % (ev["err"] * 1e-12)
    if e == "Back" and ev["err"] > 10000 + 4 * min(ev.get("repr", 0), 100000):
        return "back-transform", "back-transformation error %.3g of |E0| > 1e-8" % (ev["err"] * 1e-12)
    return "ledger", "event %s rejected by the ledger" % ev


def _replay_state(block, idx_ev):
    """ledger state just before block[idx_ev] (python mirror for naming/messages only)"""
    fit, st = None, dict(k=0, ssLeft=10 ** 9, last=10 ** 9, evals=[])
    for e in block[:idx_ev]:
        if e["e"] == "Fit":
            fit, st = e, dict(k=0, ssLeft=10 ** 9, last=10 ** 9, evals=[])
        elif e["e"] == "Extract":
            st["k"] += 1
            st["ssLeft"] = e["resid"]
            st["last"] = e["eval"]
            st["evals"].append(e["eval"])
    return fit, st


def _model_checks(ctx):
    cfg = "MC_Pca_quick.cfg" if ctx.quick else "MC_Pca_thorough.cfg"
    r = tlc.run("Pca", cfg, timeout=1500)
    ctx.add_tlc(r, "mc_pca_ledger")
    if not r.ok:
        raise InfraError("Pca.tla: the ledger rejects an ideal PCA run (%s) - the specification is inconsistent:\n%s" % (r.violation, r.trace_text[:1500]))
    z = r.zero_actions(ignore=("LInit", "SInit", "Action"))
    if z:
        raise InfraError("Pca.tla model: actions never taken (vacuous): %s" % z)
    ctx.note("ledger model: %d states, ideal runs accepted, budget/finish/closure invariants hold" % r.distinct)
    # non-vacuity: every injected model-level fault must be rejected by the ledger
    rd = tlc.rundir()
    try:
        base = open(os.path.join(tlc.SPEC, "MC_Pca_quick.cfg")).read()
        faults = ["no_deflation", "eval_scaled", "order_swapped", "ss_times_n", "early_finish"]

        def one(f):
            p = os.path.join(rd, "fault_%s.cfg" % f)
            open(p, "w").write(base.replace('Fault = "none"', 'Fault = "%s"' % f))
            return f, tlc.run("Pca", p, timeout=600, workers=2, coverage=False)
        with ThreadPoolExecutor(5) as ex:
            for f, rf in ex.map(one, faults):
                ctx.add_tlc(rf, "mc_pca_fault_%s" % f)
                if rf.ok or rf.violation != "LedgerAccepts":
                    raise InfraError("Pca.tla: injected fault %s is not rejected by the ledger (vacuous ledger)" % f)
        ctx.note("ledger model: faults %s each rejected (LedgerAccepts violated as required)" % ", ".join(faults))
    finally:
        shutil.rmtree(rd, ignore_errors=True)


def _jobs(ctx, rd):
    s = ctx.seed
    if ctx.quick:
        plan = [(s + i * SEED_STRIDE, 60, 1, "all") for i in range(5)]
        plan += [(s + 101, 12, 2, "all"), (s + 102, 12, 3, "all"), (s + 103, 14, 16, "small"), (s + 104, 14, 24, "small"),
                 (s + 105, 2, 16, "all"), (s + 106, 2, 24, "all")]
    else:
        plan = [(s + i * SEED_STRIDE, 1000, 1, "all") for i in range(20)]
        plan += [(s + 101 + i, 60, 2, "all") for i in range(2)] + [(s + 111 + i, 60, 3, "all") for i in range(2)]
        plan += [(s + 121 + i, 16, 16, "all") for i in range(3)] + [(s + 131 + i, 16, 24, "all") for i in range(3)]
        plan += [(s + 141, 120, 16, "small"), (s + 142, 120, 24, "small")]
    return [[os.path.join(rd, "c01_%d.ndjson" % i), "sweep", sd & 0x3FFFFFFF, cnt, nproc, cls] for i, (sd, cnt, nproc, cls) in enumerate(plan)]


def _record(ctx, exe, jobs, timeout):
    res = hrun.run_many(exe, jobs, timeout=timeout, workers=6)
    chunks = []
    for j, h in zip(jobs, res):
        ev = [e for e in hrun.read_ndjson(j[0])]
        if h.san:
            last = next((e for e in reversed(ev) if e.get("e") == "Fit"), {})
            ctx.violation("PCA:%s" % h.san, "sanitizer report while fitting %s:\n%s" % (last, h.err[:1500]),
                          dict(kind="model", **{k: last.get(k) for k in ("seed", "n", "c", "scaling", "npc", "nproc")}))
        if h.timed_out:
            raise InfraError("c01 harness timed out: %s" % j[1:])
        if h.rc != 0 and not h.san:
            raise InfraError("c01 harness failed rc=%d: %s\n%s" % (h.rc, j[1:], h.err[-800:]))
        summ = [e for e in ev if e.get("e") == "Summary"]
        if not summ:
            raise InfraError("c01 harness wrote no Summary (%s)" % j[1:])
        wd = [e for e in ev if e.get("e") == "Abort" and e.get("why") == "watchdog"]
        if wd:
            # the iteration budget (deterministic) did not trip but the wall clock did: machine load, not a verdict
            raise InfraError("c01 harness: a fit exceeded the wall-clock watchdog without exhausting its iteration budget (%s)" % j[1:])
        chunks.append([e for e in ev if e.get("e") != "Summary"])
    return chunks


def _account(ctx, chunks):
    nfit = ndrop = 0
    worst = {}
    for ev in chunks:
        fit = None
        for e in ev:
            if e["e"] == "Fit":
                fit = e
                nfit += 1
                ctx.case((e["n"], e["c"], e["scaling"], e["npc"], e["nproc"]), e["npc"] >= 2 or e["c"] > e["n"])
            elif e["e"] == "Dropped":
                ndrop += 1
            elif e["e"] == "Extract":
                for f in ("ortho", "proj", "recon", "rorth", "dmodx"):
                    worst[f] = max(worst.get(f, 0), e[f])
            elif e["e"] in ("Project", "Back"):
                worst[e["e"].lower()] = max(worst.get(e["e"].lower(), 0), e["err"])
    if nfit == 0:
        raise InfraError("c01 harness produced no Fit events")
    # vacuity: every antecedent of the ledger must occur in the recording
    fits = [e for ev in chunks for e in ev if e["e"] == "Fit"]
    classes = dict(full_rank=sum(1 for e in fits if e["npc"] == e["rank"] and e["tail"] == 0), multi_component=sum(1 for e in fits if e["npc"] >= 2),
                   wide=sum(1 for e in fits if e["shape"] == "wide"), tall=sum(1 for e in fits if e["shape"] == "tall"), square=sum(1 for e in fits if e["shape"] == "square"))
    for sc in range(-1, 6):
        classes["scaling_%d" % sc] = sum(1 for e in fits if e["scaling"] == sc)
    for npr in (1, 2, 3, 16, 24):
        classes["nproc_%d" % npr] = sum(1 for e in fits if e["nproc"] == npr)
    ctx.steps["classes"] = classes
    missing = [k for k, v in classes.items() if v == 0]
    if missing:
        raise InfraError("c01 recording does not exercise: %s (vacuous antecedents)" % missing)
    ctx.steps["worst_residuals_1e-12"] = worst
    ctx.steps["models"] = dict(fitted=nfit, dropped_outside_quantifier=ndrop)
    return nfit, ndrop


def _validate(ctx, chunks, label, max_rounds):
    def on_reject(ev, idx, block):
        i = next((q for q, e in enumerate(block) if e is ev), len(block) - 1)
        fit, st = _replay_state(block, i)
        fit = fit or {}
        nm, what = _name_failure(fit, st, ev) if fit else ("ledger", "event %s outside a fit" % ev)
        shape = fit.get("shape", "?")
        sig = "PCA:%s:%s:%s" % (nm, fit.get("scaling", "?"), shape)
        ctx.violation(sig, "n=%s c=%s scaling=%s npc=%s rank=%s nproc=%s seed=%s: %s" % (
            fit.get("n"), fit.get("c"), fit.get("scaling"), fit.get("npc"), fit.get("rank"), fit.get("nproc"), fit.get("seed"), what),
            dict(kind="model", seed=fit.get("seed"), n=fit.get("n"), c=fit.get("c"), scaling=fit.get("scaling"), npc=fit.get("npc"), nproc=fit.get("nproc"),
                 event=ev))

    def one(args):
        i, ev = args
        return trace.check_trace(ctx, "TracePca", "Trace_Pca.cfg", "Trace_Pca_prop.cfg", ev, on_reject, drop="block", max_rounds=max_rounds,
                                 label="%s_%d" % (label, i), timeout=1500)
    with ThreadPoolExecutor(6) as ex:
        rej = list(ex.map(one, list(enumerate(chunks))))
    return sum(rej)


def _binding(ctx, chunks):
    blocks = [b for ch in chunks[:3] for b in tlc.split_blocks(ch) if any(e["e"] == "Back" for e in b)][:20]
    ev = [e for b in blocks for e in b]
    if not any(e["e"] == "Extract" for e in ev) and ctx.violations:
        ctx.note("binding self-test skipped: no completed fit in the recording (violations reported above)")
        return

    def corrupt(evs):
        for e in evs:
            if e["e"] == "Extract" and e["k"] >= 1:
                e["ortho"] = min(2000000000, max(1, e["ortho"]) * 1000000)      # one logged residual multiplied by 1e6
                return True
        return False
    trace.binding_selftest(ctx, "TracePca", "Trace_Pca_prop.cfg", ev, corrupt, "binding_residual_x1e6")

    def corrupt2(evs):
        for e in evs:
            if e["e"] == "Extract" and e["eval"] > 2000000:
                e["eval"] = e["eval"] - e["eval"] // 500                      # eigenvalue 0.2 % off: the budget identity must notice
                return True
        return False
    trace.binding_selftest(ctx, "TracePca", "Trace_Pca_prop.cfg", ev, corrupt2, "binding_budget")


def run(ctx):
    ctx.assumptions += [
        "sampled inputs (seeded); no exhaustiveness claim: level exploration",
        "the harness's residual evaluation (long double accumulation) and quantisation (1e-12 / 1e-9 units, saturating) are trusted; binding self-test multiplies a logged residual by 1e6 and insists on rejection",
        "E0 = MatrixPreprocess(X) is taken as the definition of the preprocessed matrix (checked by C10); rank = number of dgesdd singular values >= 1e-6 sigma_1 (LAPACK called directly by the harness)",
        "inputs whose column scale falls in the fit/apply guard discrepancy zone [5e-4, 1.2e-2) (finding F9, owned by C10) are regenerated or dropped and counted",
        "TolAlg = 1e-8 for algebraic identities; TolEig = 4*sqrt(n*1e-10) relative to the eigenvalue + 1e-9*ss0 (+2 units of quantisation) for quantities inheriting the stopping rule",
    ]
    _model_checks(ctx)
    lib = build.build_lib("san")
    exe = build.build_harness("c01", ["c01_drv.c"], lib)
    rd = tlc.rundir()
    try:
        jobs = _jobs(ctx, rd)
        chunks = _record(ctx, exe, jobs, timeout=1500 if ctx.quick else 3000)
        nfit, ndrop = _account(ctx, chunks)
        ctx.note("recorded %d fits (%d generated inputs dropped as outside the quantifier); worst residuals (1e-12 units): %s" % (nfit, ndrop, ctx.steps["worst_residuals_1e-12"]))
        shown = 0
        for ev in chunks:
            for b in tlc.split_blocks(ev):
                if shown < 3 and any(e["e"] == "Fit" and e["npc"] in (2, 3) for e in b):
                    ctx.sample(b)
                    shown += 1
        ctx.cov["rule"] = ("random matrices inside the quantifier (2..60 x 1..25; tall/wide/square; column locations up to +-1e6, spreads 0.02..1e6 or exactly 0; "
                           "scalings -1..5; npc 1..admissible rank; processor count 1,2,3,16,24) fitted by the real PCA(); one evaluation = one fitted model validated by TLC; "
                           "distinct = distinct (n, c, scaling, npc, nproc); non-trivial = npc >= 2 or c > n")
        rej = _validate(ctx, chunks, "trace_pca", 6 if ctx.quick else 12)
        ctx.traces(nfit - rej if nfit > rej else 0)
        _binding(ctx, chunks)
    finally:
        shutil.rmtree(rd, ignore_errors=True)


def replay(ctx, body):
    case = body.get("case") or {}
    if case.get("kind") != "model" or case.get("seed") is None:
        return run(ctx)
    lib = build.build_lib("san")
    exe = build.build_harness("c01", ["c01_drv.c"], lib)
    rd = tlc.rundir()
    try:
        out = os.path.join(rd, "replay.ndjson")
        h = hrun.run(exe, [out, "one", case["seed"], case["n"], case["c"], case["scaling"], case["npc"], case.get("nproc") or 1], timeout=600)
        ev = [e for e in hrun.read_ndjson(out) if e.get("e") != "Summary"]
        if h.san:
            ctx.violation("PCA:%s" % h.san, h.err[:1500], case)
        if not ev:
            raise InfraError("replay produced no events: %s" % h.err[-500:])
        for e in ev:
            if e["e"] == "Fit":
                ctx.case((e["n"], e["c"], e["scaling"], e["npc"], e["nproc"]))
                ctx.case(("replay", e["seed"]))
        ctx.sample(ev)
        ctx.cov["rule"] = "replay of one recorded model (seed, n, c, scaling, npc, nproc) refitted on the current tree"
        rej = _validate(ctx, [ev], "replay", 3)
        ctx.traces(0 if rej else 1)
    finally:
        shutil.rmtree(rd, ignore_errors=True)
