"""C01 - PCA is an exact orthogonal decomposition that accounts for all the variance.

Mode 3 (ledger).  The floating-point NIPALS results are not recomputed in TLA+:
(M)  Pca.tla, section Model: a nondeterministic ideal PCA over small integer budgets emits ledger events; TLC shows
     the ledger accepts every ideal run (not contradictory), the budget never goes negative, Finish comes only
     after npc extractions, full rank closes the budget; five model-level faults must each be rejected.
     PcaStart.tla (extends Pca.tla), section Start: the ideal NIPALS extraction under the DOCUMENTED stopping rule - a
     component is the dominant remaining axis unless its start column is (nearly) orthogonal to it (Pca!PrematureStop),
     in which case a non-dominant axis may come first: the ledger with the classified waiver accepts every such run,
     budget and closure do not depend on the order, the waiver is reachable (NoWaiver refuted), a well-started component
     returned out of order and an incoherent logged eigenvalue ratio are rejected, theorems about the classification
     predicate hold over a grid (StartTheorems: exact orthogonality always qualifies, monotone in cos^2 and n, cos^2 >=
     1e-2 never excuses an inversion >= 5 %, the two recorded witnesses qualify).  Section Outputs: the predictors'
     OUTPUT objects under every prior content - answers right iff ResizeMatrix zero-fills an equally shaped output; the
     variant that returns early is refuted by TLC on every run (PCAIndVarPredictor accumulates into its output).
(C)  c01_drv fits the real PCA() on in-quantifier matrices (shapes 2..60 x 1..25, scalings -1..5, npc 1..rank,
     processor counts 1,2,3,5,16,24), each fit in a child process under the H4 iteration budget, computes the residual
     of every identity itself (rank from LAPACK dgesdd on the preprocessed matrix) and logs them as integers;
     TLC validates every recorded fit against TracePca.tla (Prop layer = the property; Impl layer = dmodx and
     bit-level re-projection).  Generators: random (round 1) + stratified input classes K1..K8 of INPUT-CLASSES.md
     (shape relations and block / slice boundaries, locations 1e6..1e8 x spread, magnitudes at the floor / top of the
     quantifier with ill-conditioned minor components, non-representable constants and ties, exactly orthogonal
     designs, duplicate rows / columns, predictor outputs handed over empty / other shape / EQUAL shape holding data,
     in-process histories of four fits with reused addresses and outputs).  TLC computes the class tags of every
     recorded fit (Pca!FitTags) -> coverage.classes.

Clause table (statement of C01 -> what decides it -> event that carries it):
  for every finite matrix / scaling, rank >= npc       TFit: ShapeOk (npc <= rank <= min(n, c)), rank = dgesdd oracle     Fit{n,c,scaling,npc,rank,tail,nproc}
  orthonormal loadings                                 PropAlg.ortho                                                       Extract.ortho
  scores = successive projections of the data          PropAlg.proj  (t_k = E_{k-1} p_k, harness's own deflation)          Extract.proj
  data = scores x loadings^T + residual                PropAlg.recon (successive = direct deflation), PropResidual          Extract.recon, Project.gr (GetResidualMatrix)
  residual orthogonal to every extracted loading       PropAlg.rorth                                                       Extract.rorth
  explained variances non-negative                     PropEvalSign, PropVarexpW (ve[i] >= 0)                              Extract.eval, Finish.varexp
  ... non-increasing                                   PropEvalOrder; else StartOrthogonal => KNOWN FINDING, else reject    Extract.eval/.sc12/.sc9/.r9; Finish.varexp
  ... are the eigenvalues over ss0                     PropVarexpW (|ve - eval| <= TolEig), PropBudget (Pythagoras)          Extract.eval/.resid, Finish.varexp
  ... sum to at most 100 %                             PropVarexpW (sum), PropBudget (resid >= 0)                          Finish.varexp, Extract.resid
  ... sum to 100 % when all components are taken       PropClosed (IsFull)                                                 Finish.varexp, Extract.resid, Fit.tail
  back-transformation reproduces the original matrix   PropBackAll (a = npc: err; a < npc: the same identity with the       Back{err,repr,scan}
                                                       residual, all calls into ONE output object)
  projecting the training matrix reproduces the scores PropProjectAll (a = npc, then a < npc into the same output)          Project{err,part}
  every processor count seen by the MT kernels         Fit.nproc in {1,2,3,5,16,24}, shapes c < nproc, n < nproc,           Fit.nproc (classes K6/K2 by FitTags)
                                                       n, c = k nproc +- 1 for both kernels
Outside the statement (judged by TLC, reported as EXTRA-FINDING, never a verdict): PCA() into a model object that already holds a fit (Refit event),
PCARSquared() = 1 - |X - back-transformation(a)|^2 / |X - means|^2 (RSq event).
Known findings (classified by TLC from logged data, every other clause still judged on those fits): PCA:eigenvalue-order:start-orthogonal,
PCA:varexp:score-equals-missing-code (known_findings.d/C01.json).
"""
import json, math, os, shutil
from concurrent.futures import ThreadPoolExecutor
from vf import build, tlc, trace
from vf import run as hrun
from vf.core import InfraError
from checks.deferred import Deferred, crash_signal

LEVEL = "exploration"
READY = True
TECHNIQUE = ("TLC model checking of the PCA variance ledger (Pca.tla / PcaStart.tla: ideal runs accepted incl. the classified premature stop on a start column orthogonal to the "
             "dominant axis, seven injected faults rejected, classification theorems; output-object model: answers right for every prior content iff ResizeMatrix zero-fills, the "
             "early-return variant refuted) + TLC trace validation of residual ledgers recorded from the real PCA/PCAScorePredictor/PCAIndVarPredictor/GetResidualMatrix on "
             "sampled and class-stratified in-quantifier matrices, incl. exactly orthogonal designs, reused outputs and in-process histories (hooks H2, H4; rank and "
             "dominant-eigenpair oracle LAPACK dgesdd)")
LEVEL_TEXT = ("Sampled inputs: random matrices inside the property's quantifier (all shape classes, all 7 scalings, every admissible npc, processor counts 1/2/3/5/16/24) plus "
              "stratified input classes (n = p +- 1, single column, block and thread-slice boundaries for both MT kernels, column locations 1e6..1e8 x spread, all spreads at "
              "0.02 / at 1e6 / per-column units with ill-conditioned minor components, non-representable constants and tied decimals, duplicate rows / columns, nine exactly "
              "orthogonal designs, predictor outputs handed over empty / differently shaped / equally shaped and non-zero, histories of four fits in one process) are fitted "
              "with the real library; the harness measures the residual of every stated identity in extended precision and TLC validates each recorded fit against the ledger "
              "specification, evaluating orthonormality, projection, residual orthogonality, eigenvalue sign/order, the variance budget (Pythagoras), explained-variance "
              "consistency, closure at full rank, re-projection (all and fewer components) and back-transformation (scanning the number of components into one output) at "
              "every step. An inversion of the eigenvalue order is classified by TLC from the logged start-column / dominant-eigenpair data: premature stop of the documented "
              "criterion (known finding) or violation.")
LEVEL_NOTE = ("Exploration, not exhaustive. Trusts TLC, the harness's residual evaluation and quantisation (binding self-tests: a residual multiplied by 1e6, an eigenvalue "
              "0.2 % off, a partial re-projection / scanned back-transformation residual, a well-started start column and an incoherent eigenvalue ratio on a classified "
              "inversion, an unknown generator name must each be rejected), LAPACK dgesdd as rank and dominant-eigenpair oracle, MatrixPreprocess as the definition of the "
              "preprocessed matrix (C10 checks it). Components are requested only among singular values >= 1e-6 of the largest; TolAlg 1e-8, TolEig 4*sqrt(n*1e-10) relative "
              "+ 1e-9*ss0; back-transformation TolAlg + 4 ulp-representability of X (so it follows the location class K3). Classes the quantifier excludes (not generated): "
              "K4 whole-input scales below spread 0.02 (the quantifier's floor) and non-constant columns with spread < 0.02; K9 cells equal to the missing-value code 99999999 "
              "(the statement speaks of finite data, not of missing values; cells within 2 of the code are regenerated); K10 (no labels in PCA); K1 single row (n >= 2) and "
              "npc > rank (C18); column scales inside the fit/apply guard zone [5e-4, 1.2e-2) (finding F9, C10). The history of the MODEL object (fit into a used model) is "
              "outside the statement: EXTRA-FINDING only.")

SEED_STRIDE = 7919
KNOWN_START = "PCA:eigenvalue-order:start-orthogonal"
KNOWN_SENT = "PCA:varexp:score-equals-missing-code"
EXTRA_REFIT = "PCA:reuse:fit-into-used-model"
EXTRA_RSQ = "PCA:PCARSquared"
SAN_HIST = {"ASAN_OPTIONS": hrun.SAN_ENV["ASAN_OPTIONS"] + ":quarantine_size_mb=0"}      # freed models / outputs are handed out again at once: address reuse is real

# classes that every run of the tier must have executed (measured by TLC: Pca!FitTags) - a missing one is an infrastructure failure, not a pass
REQUIRED_CLASSES = [
    "K1:tall", "K1:wide", "K1:square", "K1:n=p+-1", "K1:single-column", "K1:npc=1", "K1:1<npc<rank", "K1:npc=rank(closure)",
    "K2:rows=4k", "K2:rows=4k+1", "K2:rows=4k-1", "K2:cols=4k", "K2:cols=4k+1", "K2:cols=4k-1", "K2:rows~32", "K2:cols=k*nproc+1", "K2:cols=k*nproc-1",
    "K2:rows=k*nproc+1", "K2:rows=k*nproc-1",
    "K3:offset/sdev~1e6", "K3:offset/sdev~1e7", "K3:offset/sdev~1e8", "K3:offset/sdev~1e6-uncentred", "K3:score-equals-missing-code"] + ["K3:offset>=1e6-scaling%d" % s for s in range(-1, 6)] + [
    "K4:all-spreads-at-floor-0.02", "K4:all-spreads>=1e5", "K4:column-units-4+decades-apart", "K4:ill-conditioned-minor-components",
    "K5:tied-decimals", "K5:constant-column-non-representable",
    "K6:nproc1", "K6:nproc2", "K6:nproc3", "K6:nproc5", "K6:nproc16", "K6:nproc24", "K6:cols<nproc", "K6:rows<nproc", "K6:cols-ragged-last-slice", "K6:rows-ragged-last-slice",
    "K6:cols-idle-worker", "K6:rows-idle-worker",
    "K7:outputs-rmode0", "K7:outputs-rmode1", "K7:outputs-rmode2", "K7:history-fit1", "K7:history-fit2", "K7:history-fit3", "K7:history-fit4",
    "K8:constant-column", "K8:rank-deficient", "K8:exactly-orthogonal-design", "K8:integer-ties", "K8:duplicate-rows", "K8:duplicate-columns"] + [
    "K8:design%d-scaling%d" % (d, s) for d in range(9) for s in (0, 4)]


def _q12(v):
    """a logged residual (1e-12 units, saturating at 2e9) as text"""
    return ">= 2e-3 (saturated)" if v >= 2000000000 else "%.3g" % (v * 1e-12)


def ceil_sqrt(x):
    r = math.isqrt(x)
    return r if r * r == x else r + 1


def tol_eig(n, ev):
    return abs(ev) * (40 * ceil_sqrt(n * 1000000)) // 1000000000 + 3


def _name_failure(fit, st, ev):
    """name the conjunct of the Prop layer that the rejected event violates (naming only: the verdict is TLC's)"""
    n = fit["n"]
    e = ev.get("e")
    if e == "Diverge":
        return "no-convergence", "NIPALS loop of %s did not converge within %s iterations (component %s)" % (ev.get("site"), ev.get("it"), ev.get("comp"))
    if e == "Abort":
        return ("no-convergence" if ev.get("why") == "iteration-budget" else "crash:%s" % ev.get("why")), \
               "fit did not finish (%s, rc=%s)" % (ev.get("why"), ev.get("rc"))
    if e == "Extract":
        for f, nm in (("ortho", "orthonormal-loadings"), ("proj", "score-projection"), ("recon", "reconstruction"), ("rorth", "residual-orthogonality")):
            if ev[f] > 10000:
                return nm, "component %d: %s residual %s > 1e-8" % (ev["k"], f, _q12(ev[f]))
        if ev["eval"] < 0:
            return "eigenvalue-sign", "component %d: eigenvalue negative" % ev["k"]
        if abs((st["ssLeft"] - ev["eval"]) - ev["resid"]) > tol_eig(n, ev["eval"]) or ev["resid"] < -3:
            return "variance-budget", "component %d: |E_k|^2/ss0 = %.9g but budget %.9g - eigenvalue %.9g (tolerance %.3g)" % (
                ev["k"], ev["resid"] * 1e-9, st["ssLeft"] * 1e-9, ev["eval"] * 1e-9, tol_eig(n, ev["eval"]) * 1e-9)
        if ev["eval"] > st["last"] + tol_eig(n, st["last"]):
            p = st.get("prev") or {}
            return "eigenvalue-order", ("component %d: eigenvalue %.6g of ss0 exceeds the previous one %.6g (tolerance %.3g); the previous component did NOT start orthogonal to the "
                                        "dominant axis (cos^2 %.3g, eigenvalue ratio %.6f): not the premature stop of the documented criterion") % (
                ev["k"], ev["eval"] * 1e-9, st["last"] * 1e-9, tol_eig(n, st["last"]) * 1e-9,
                (p.get("sc12", 0) * 1e-12 if p.get("sc12", 0) < 2000000000 else p.get("sc9", 0) * 1e-9), p.get("r9", 0) * 1e-9)
        if ev.get("k") != st["k"] + 1 or st["k"] >= fit["npc"]:
            return "component-count", "component index %s after %d extractions (npc=%d)" % (ev.get("k"), st["k"], fit["npc"])
    if e == "Finish":
        ve, evs = ev["varexp"], st["evals"]
        if len(ve) != len(evs) or st["k"] != fit["npc"]:
            return "component-count", "%d explained variances for %d extracted components (npc=%d)" % (len(ve), len(evs), fit["npc"])
        for i, v in enumerate(ve):
            if v < 0 or abs(v - evs[i]) > tol_eig(n, evs[i]):
                return "varexp-eigenvalue", "component %d: explained variance %.9g vs t't/ss0 %.9g (tolerance %.3g)" % (i + 1, v * 1e-9, evs[i] * 1e-9, tol_eig(n, evs[i]) * 1e-9)
        for i in range(1, len(ve)):
            if ve[i] > ve[i - 1] + tol_eig(n, ve[i - 1]) and not evs[i] > evs[i - 1]:
                return "varexp-order", "explained variance %d (%.6g %%) exceeds the previous one (%.6g %%) although the eigenvalues are in order" % (i + 1, ve[i] * 1e-7, ve[i - 1] * 1e-7)
        st_tol = sum(tol_eig(n, x) for x in evs)
        if sum(ve) > 10 ** 9 + st_tol:
            return "varexp-sum", "explained variances sum to %.7f %% > 100" % (sum(ve) * 1e-7)
        if fit["npc"] == fit["rank"] and fit["tail"] == 0:
            if st["ssLeft"] > 3 or abs(sum(ve) - 10 ** 9) > st_tol:
                return "full-rank-closure", "all components taken: residual %.3g of ss0, explained variances sum to %.7f %%" % (st["ssLeft"] * 1e-9, sum(ve) * 1e-7)
    how = " [outputs handed over %s]" % ("by the previous fit of an in-process history (fit %d)" % fit["h"] if fit.get("h") else
                                          {0: "empty", 1: "with another shape, holding data", 2: "with the final shape, holding data"}.get(fit.get("rmode"), "?"))
    if e == "Project":
        if ev["err"] > 10000:
            return "reprojection", "projecting the training matrix: relative score error %s > 1e-8%s" % (_q12(ev["err"]), how)
        if ev.get("part", 0) > 10000:
            return "reprojection", "projecting the training matrix with fewer components into the output of the previous call: relative score error %s > 1e-8%s" % (_q12(ev["part"]), how)
        if ev.get("gr", 0) > 10000:
            return "residual-matrix", "GetResidualMatrix differs from preprocessed data - scores x loadings^T by %s of |E0| > 1e-8%s" % (_q12(ev["gr"]), how)
    if e == "Back":
        lim = 10000 + 4 * min(ev.get("repr", 0), 100000)
        if ev["err"] > lim:
            return "back-transform", "back-transformation error %s of |E0| > %.3g%s" % (_q12(ev["err"]), lim * 1e-12, how)
        if ev.get("scan", 0) > lim:
            return "back-transform", "back-transformation with fewer components (scan of the number of components into one output): error %s of |E0| > %.3g%s" % (_q12(ev["scan"]), lim * 1e-12, how)
    return "ledger", "event %s rejected by the ledger" % ev


def _replay_state(block, idx_ev):
    """ledger state just before block[idx_ev] (python mirror for naming/messages only)"""
    fit, st = None, dict(k=0, ssLeft=10 ** 9, last=10 ** 9, evals=[], prev=None)
    for e in block[:idx_ev]:
        if e["e"] == "Fit":
            fit, st = e, dict(k=0, ssLeft=10 ** 9, last=10 ** 9, evals=[], prev=None)
        elif e["e"] == "Extract":
            st["k"] += 1
            st["ssLeft"] = e["resid"]
            st["last"] = e["eval"]
            st["evals"].append(e["eval"])
            st["prev"] = e
    return fit, st


FAULTS = ["no_deflation", "eval_scaled", "order_swapped", "ss_times_n", "early_finish"]
FAULTS2 = ["wellstarted_swap", "incoherent_ratio"]


def _model_checks(ctx):
    cfg = "MC_Pca_quick.cfg" if ctx.quick else "MC_Pca_thorough.cfg"
    r = tlc.run("Pca", cfg, timeout=1500)
    ctx.add_tlc(r, "mc_pca_ledger")
    if not r.ok:
        raise InfraError("Pca.tla: the ledger rejects an ideal PCA run (%s) - the specification is inconsistent:\n%s" % (r.violation, r.trace_text[:1500]))
    z = r.zero_actions(ignore=("LInit", "SInit", "Action"))
    if z:
        raise InfraError("Pca.tla model: actions never taken (vacuous): %s" % z)
    ctx.note("ledger model: %d states, ideal runs accepted, budget/finish/closure invariants hold" % r.distinct)
    # non-vacuity: every injected model-level fault must be rejected by the ledger
    rd = tlc.rundir()
    try:
        base = open(os.path.join(tlc.SPEC, "MC_Pca_quick.cfg")).read()
        base2 = open(os.path.join(tlc.SPEC, "MC_Pca2_quick.cfg" if ctx.quick else "MC_Pca2_thorough.cfg")).read()
        baseo = open(os.path.join(tlc.SPEC, "MC_PcaOut.cfg")).read()

        def one(f):
            p = os.path.join(rd, "fault_%s.cfg" % f)
            if f in FAULTS:
                open(p, "w").write(base.replace('Fault = "none"', 'Fault = "%s"' % f))
                return f, tlc.run("Pca", p, timeout=600, workers=2, coverage=False)
            if f in FAULTS2:
                open(p, "w").write(open(os.path.join(tlc.SPEC, "MC_Pca2_quick.cfg")).read().replace('Fault2 = "none"', 'Fault2 = "%s"' % f))
                return f, tlc.run("PcaStart", p, timeout=600, workers=2, coverage=False)
            if f == "start_model":
                return f, tlc.run("PcaStart", os.path.join(tlc.SPEC, "MC_Pca2_quick.cfg" if ctx.quick else "MC_Pca2_thorough.cfg"), timeout=1500, workers=4)
            if f == "outputs":
                return f, tlc.run("PcaStart", os.path.join(tlc.SPEC, "MC_PcaOut.cfg"), timeout=600, workers=2)
            if f == "waiver_reachable":
                return f, tlc.run("PcaStart", os.path.join(tlc.SPEC, "MC_Pca2_waiver.cfg"), timeout=600, workers=2, coverage=False)
            open(p, "w").write(baseo.replace("ResizeZeroes = TRUE", "ResizeZeroes = FALSE"))
            return f, tlc.run("PcaStart", p, timeout=600, workers=2, coverage=False)
        with ThreadPoolExecutor(5) as ex:
            for f, rf in ex.map(one, FAULTS + FAULTS2 + ["start_model", "outputs", "outputs_early_return", "waiver_reachable"]):
                ctx.add_tlc(rf, "mc_pca_%s" % f if f in ("start_model", "outputs", "outputs_early_return", "waiver_reachable") else "mc_pca_fault_%s" % f)
                if f == "start_model":
                    if not rf.ok:
                        raise InfraError("PcaStart.tla: the ledger with the classified waiver rejects an ideal run with premature stops, or a classification theorem fails (%s):\n%s" % (rf.violation, rf.trace_text[:1500]))
                    z = rf.zero_actions(ignore=("LInit", "SInit", "Action", "OInit", "PInit0", "MInit2"))
                    if z:
                        raise InfraError("PcaStart.tla model: actions never taken (vacuous): %s" % z)
                    ctx.note("start-column model: %d states; ideal runs with premature stops on orthogonal start columns accepted through the classified waiver, theorems hold" % rf.distinct)
                elif f == "outputs":
                    if not rf.ok:
                        raise InfraError("PcaStart.tla Outputs model: an answer depends on the previous content of the output although ResizeMatrix zero-fills (%s):\n%s" % (rf.violation, rf.trace_text[:1500]))
                    z = rf.zero_actions(ignore=("LInit", "SInit", "Action", "OInit", "PInit0", "MInit2"))
                    if z:
                        raise InfraError("PcaStart.tla Outputs model: actions never taken (vacuous): %s" % z)
                    ctx.note("output-object model: %d states; every answer right whatever the output held before (ResizeMatrix zero-fills)" % rf.distinct)
                elif f == "waiver_reachable":
                    if rf.ok or rf.violation != "NoWaiver":
                        raise InfraError("PcaStart.tla: no run of the start-column model uses the classified waiver (vacuous classification)")
                elif f == "outputs_early_return":
                    if rf.ok or rf.violation != "AnswersRight":
                        raise InfraError("PcaStart.tla Outputs model: the early-return variant of ResizeMatrix is not refuted (model does not distinguish the variants)")
                elif rf.ok or rf.violation != ("LedgerAccepts" if f in FAULTS else "LedgerAccepts2"):
                    raise InfraError("Pca.tla: injected fault %s is not rejected by the ledger (vacuous ledger)" % f)
        ctx.note("ledger model: faults %s each rejected; ResizeMatrix early-return variant refuted (AnswersRight violated as required)" % ", ".join(FAULTS + FAULTS2))
    finally:
        shutil.rmtree(rd, ignore_errors=True)


# ---------------------------------------------------------------- stratified case lists (inputs only; every judgement is TLC's)
K12_SHAPES = [(2, 1), (12, 1), (60, 1), (3, 2), (2, 3), (9, 10), (10, 9), (24, 25), (25, 24), (2, 2), (25, 25), (32, 4), (31, 8), (33, 16), (60, 25), (59, 24),
              (16, 17), (17, 16), (4, 25), (5, 4), (8, 9), (2, 25), (60, 2), (13, 12)]
MT_SHAPES = {2: [(5, 7), (7, 5), (3, 2), (9, 1)], 3: [(7, 4), (4, 7), (8, 10), (10, 8), (2, 5)], 5: [(4, 6), (6, 4), (11, 9), (9, 11), (14, 16), (16, 14)],
             16: [(17, 15), (15, 17), (33, 2), (3, 17), (31, 15)], 24: [(25, 23), (23, 25), (49, 3), (3, 25), (47, 2)]}
MT_SHAPES_THOROUGH = {2: [(59, 25), (3, 25)], 3: [(59, 22), (5, 25)], 5: [(59, 24), (21, 19), (19, 21), (4, 24)], 16: [(47, 17), (49, 15), (15, 25), (60, 16)], 24: [(47, 25), (49, 23), (23, 24), (60, 24)]}


def _case_lists(ctx):
    """-> list of (label, [lines]) for `c01_drv cases`; a line = the arguments of one `case` / `hist` command"""
    s = ctx.seed & 0xFFFFF
    q = ctx.quick
    groups = []
    reps = 1 if q else 6

    def ms(i):
        return (s * 7919 + i * 104729 + 17) & 0x3FFFFFFF
    # K1 / K2: shape relations and block boundaries, one processor
    lines, i = [], 0
    for rep in range(reps):
        for (n, c) in K12_SHAPES:
            for npc in (0, -1):
                i += 1
                lines.append("case rnd 0 %d %d %d %d %d 1" % (ms(i), n, c, (i % 7) - 1, npc))
    groups.append(("k12", lines))
    # K3 locations, K4 magnitudes, K5 non-representable constants: every scaling option
    lines = []
    shp = [(9, 4), (6, 11), (30, 7), (7, 7), (16, 5), (5, 16), (41, 3)]
    for rep in range(reps):
        for gp in ((6, 7, 8) if q else (3, 4, 5, 6, 7, 8)):
            for sc in range(-1, 6):
                i += 1
                n, c = shp[(i + gp) % len(shp)]
                lines.append("case loc %d %d %d %d %d %d 1" % (gp, ms(i), n, c, sc, 0 if i % 3 else -1))
    groups.append(("k3", lines))
    lines = []
    for rep in range(reps):
        for gp in (0, 1, 2):
            for sc in range(-1, 6):
                i += 1
                n, c = shp[(i + gp) % len(shp)]
                lines.append("case mag %d %d %d %d %d 0 1" % (gp, ms(i), n, c, sc))
        for gp in (0, 1):
            for sc in range(-1, 6):
                i += 1
                n, c = shp[(i + 2 * gp) % len(shp)]
                lines.append("case k5 %d %d %d %d %d %d 1" % (gp, ms(i), n, c, sc, 0 if i % 2 else -1))
    groups.append(("k45", lines))
    # K8: exactly orthogonal designs (literal with scalings 0 and 4 - the known-finding witnesses are designs 0 and 1 -, unit / offset variants, every other scaling) and integer ties / duplicates
    lines = []
    for d in range(9):
        lines.append("case design %d 0 0 0 0 0 1" % d)
        lines.append("case design %d 0 0 0 4 0 1" % d)
        for rep in range(reps):
            i += 1
            lines.append("case design %d %d 0 0 0 2 1" % (d, ms(i)))
            lines.append("case design %d %d 0 0 4 0 %d" % (d, ms(i) + 1, 1 if d % 3 else 2))
            lines.append("case design %d %d 0 0 %d 0 1" % (d, ms(i) + 2, (1, 2, 3, 5, -1)[(d + rep) % 5]))
    for rep in range(reps):
        for gp in (1, 2, 3):
            for sc in range(-1, 6):
                i += 1
                n, c = shp[(i + gp) % len(shp)]
                lines.append("case dup %d %d %d %d %d %d 1" % (gp, ms(i), n, c, sc, 0 if i % 2 else -1))
    lines.append("case sent 0 5 4 2 -1 0 1")
    lines.append("case sent 0 9 7 3 -1 0 1")
    groups.append(("k8", lines))
    # K6: thread-slice boundaries of BOTH kernels (t'E sliced over the columns, E p over the rows): fewer items than workers, k nproc +- 1
    for npr in (2, 3, 5, 16, 24):
        lines = []
        for (n, c) in MT_SHAPES[npr] + ([] if q else MT_SHAPES_THOROUGH[npr]):
            i += 1
            lines.append("case rnd 0 %d %d %d %d %d %d" % (ms(i), n, c, (i % 7) - 1, 3 if npr >= 16 else 0, npr))
        if npr <= 5:
            i += 1
            lines.append("case design %d %d 0 0 %d 0 %d" % (i % 9, ms(i), (0, 4)[i % 2], npr))
            lines.append("hist %d %d" % (ms(i) + 5, npr))
        groups.append(("k6_%d" % npr, lines))
    # K7: in-process histories (four fits, reused addresses and outputs, refit into a used model)
    lines = []
    for h in range(8 if q else 60):
        i += 1
        lines.append("hist %d 1" % ms(i))
    groups.append(("k7", lines))
    return groups


def _jobs(ctx, rd):
    s = ctx.seed
    if ctx.quick:
        plan = [(s + i * SEED_STRIDE, 60, 1, "all") for i in range(5)]
        plan += [(s + 101, 12, 2, "all"), (s + 102, 12, 3, "all"), (s + 103, 14, 16, "small"), (s + 104, 14, 24, "small"),
                 (s + 105, 2, 16, "all"), (s + 106, 2, 24, "all"), (s + 107, 6, 5, "all")]
    else:
        plan = [(s + i * SEED_STRIDE, 1000, 1, "all") for i in range(20)]
        plan += [(s + 101 + i, 60, 2, "all") for i in range(2)] + [(s + 111 + i, 60, 3, "all") for i in range(2)] + [(s + 116 + i, 40, 5, "all") for i in range(2)]
        plan += [(s + 121 + i, 16, 16, "all") for i in range(3)] + [(s + 131 + i, 16, 24, "all") for i in range(3)]
        plan += [(s + 141, 120, 16, "small"), (s + 142, 120, 24, "small")]
    jobs = [[os.path.join(rd, "c01_%d.ndjson" % i), "sweep", sd & 0x3FFFFFFF, cnt, nproc, cls] for i, (sd, cnt, nproc, cls) in enumerate(plan)]
    for label, lines in _case_lists(ctx):
        p = os.path.join(rd, "cases_%s.txt" % label)
        open(p, "w").write("\n".join(lines) + "\n")
        jobs.append([os.path.join(rd, "c01_%s.ndjson" % label), "cases", p])
    return jobs


def _record(ctx, exe, jobs, timeout, deferred):
    res = hrun.run_many(exe, jobs, timeout=timeout, workers=6, env=SAN_HIST)
    chunks = []
    for j, h in zip(jobs, res):
        ev = [e for e in hrun.read_ndjson(j[0])]
        summ = [e for e in ev if e.get("e") == "Summary"]
        ev = [e for e in ev if e.get("e") != "Summary"]
        blocks = tlc.split_blocks(ev) if ev else []
        # the fit that was running when the harness process itself ended: its Fit event is written before the library is called
        running = None
        if not summ and blocks and not any(e.get("e") in ("Back", "Abort", "Dropped") for e in blocks[-1]):
            running = next((e for e in blocks[-1] if e.get("e") == "Fit"), None)
        if h.san:
            last = running or next((e for e in reversed(ev) if e.get("e") == "Fit"), {})
            ctx.violation("PCA:%s" % h.san, "sanitizer report while fitting %s:\n%s" % (last, h.err[:1500]), _case_of(last))
        # everything below can be provoked by a change to the library (a dying / hanging fit): deferred, the complete recorded fits are still judged
        if h.timed_out:
            deferred.add("c01 harness timed out: %s" % j[1:])
        elif h.rc != 0 and not h.san:
            sg = crash_signal(h.rc)
            if sg and running:
                ctx.violation("PCA:crash:harness-%s" % sg, "the harness process died (%s) while fitting %s:\n%s" % (sg, running, h.err[-800:]), _case_of(running))
            elif sg:
                # died between two fits: the parent process prepares the next input of its (deterministic, in-quantifier) list with the library's NewMatrix / MatrixPreprocess
                nrec = sum(1 for e in ev if e.get("e") == "Fit")
                case = dict(kind="job", job=[str(a) for a in j[1:]], recorded_fits=nrec)
                if j[1] == "cases":
                    case["lines"] = open(j[2]).read().split("\n")
                ctx.violation("PCA:crash:harness-%s" % sg, "the harness process died (%s) while preparing the input that follows the %d recorded fits of job %s (the library's NewMatrix / "
                              "MatrixPreprocess run there):\n%s" % (sg, nrec, j[1:], h.err[-800:]), case)
            else:
                deferred.add("c01 harness failed rc=%d: %s\n%s" % (h.rc, j[1:], h.err[-800:]))
        elif not summ and not h.san:
            deferred.add("c01 harness wrote no Summary (%s)" % j[1:])
        if not summ and blocks:
            blocks = blocks[:-1] if not any(e.get("e") in ("Back", "Abort", "Dropped") for e in blocks[-1]) else blocks      # the unfinished last block is not a recorded fit
        wd = [b for b in blocks if any(e.get("e") == "Abort" and e.get("why") == "watchdog" for e in b)]
        if wd:
            # the iteration budget (deterministic) did not trip but the wall clock did: machine load, not a verdict - those fits are left out, the rest is judged
            deferred.add("c01 harness: a fit exceeded the wall-clock watchdog without exhausting its iteration budget (%s)" % j[1:])
            blocks = [b for b in blocks if not any(b is w for w in wd)]
        chunks.append([e for b in blocks for e in b])
    return [c for c in chunks if c]


def _case_of(fit):
    if not fit:
        return None
    if fit.get("h"):
        return dict(kind="hist", hs=fit.get("hs"), nproc=fit.get("nproc"), member=fit.get("h"))
    return dict(kind="model", gen=fit.get("gen", "rnd"), gp=fit.get("gp", 0), seed=fit.get("seed"), n=fit.get("n"), c=fit.get("c"), scaling=fit.get("scaling"),
                npc=fit.get("npc"), nproc=fit.get("nproc"))


def _account(ctx, chunks, deferred):
    nfit = ndrop = 0
    worst = {}
    for ev in chunks:
        for e in ev:
            if e["e"] == "Fit":
                nfit += 1
                ctx.case((e["gen"], e["gp"], e["n"], e["c"], e["scaling"], e["npc"], e["nproc"], e["rmode"], e["h"]), e["npc"] >= 2 or e["c"] > e["n"])
            elif e["e"] == "Dropped":
                ndrop += 1
            elif e["e"] == "Extract":
                for f in ("ortho", "proj", "recon", "rorth", "dmodx"):
                    worst[f] = max(worst.get(f, 0), e[f])
            elif e["e"] == "Project":
                for f, nm in (("err", "project"), ("part", "project_part"), ("gr", "residual_matrix")):
                    worst[nm] = max(worst.get(nm, 0), e[f])
            elif e["e"] == "Back":
                worst["back"] = max(worst.get("back", 0), e["err"])
                worst["back_scan"] = max(worst.get("back_scan", 0), e["scan"])
                worst["back_minus_4repr"] = max(worst.get("back_minus_4repr", 0), max(e["err"], e["scan"]) - 4 * min(e["repr"], 100000))
    if nfit == 0:
        deferred.add("c01 harness produced no Fit events")
        return 0, ndrop
    # vacuity: every antecedent of the ledger must occur in the recording
    fits = [e for ev in chunks for e in ev if e["e"] == "Fit"]
    classes = dict(full_rank=sum(1 for e in fits if e["npc"] == e["rank"] and e["tail"] == 0), multi_component=sum(1 for e in fits if e["npc"] >= 2),
                   wide=sum(1 for e in fits if e["shape"] == "wide"), tall=sum(1 for e in fits if e["shape"] == "tall"), square=sum(1 for e in fits if e["shape"] == "square"))
    for sc in range(-1, 6):
        classes["scaling_%d" % sc] = sum(1 for e in fits if e["scaling"] == sc)
    for npr in (1, 2, 3, 5, 16, 24):
        classes["nproc_%d" % npr] = sum(1 for e in fits if e["nproc"] == npr)
    for g in ("rnd", "loc", "mag", "k5", "design", "dup"):
        classes["gen_%s" % g] = sum(1 for e in fits if e["gen"] == g)
    classes["refit_events"] = sum(1 for ev in chunks for e in ev if e["e"] == "Refit")
    classes["pcarsquared_events"] = sum(1 for ev in chunks for e in ev if e["e"] == "RSq")
    classes["scanned_back_transformations"] = sum(1 for ev in chunks for e in ev if e["e"] == "Back" and e["scan"] > 0)
    ctx.steps["classes"] = classes
    missing = [k for k, v in classes.items() if v == 0]
    if missing:
        deferred.add("c01 recording does not exercise: %s (vacuous antecedents)" % missing)       # judged after the trace validation: fits that died early empty these classes
    ctx.steps["worst_residuals_1e-12"] = worst
    ctx.steps["models"] = dict(fitted=nfit, dropped_outside_quantifier=ndrop)
    return nfit, ndrop


class _Tap:
    """forwards to the check context and keeps the "@@" reports of every TLC run that check_trace makes"""
    def __init__(self, ctx):
        self._c, self.emits = ctx, []

    def add_tlc(self, r, label=None):
        self.emits += list(r.emits)
        self._c.add_tlc(r, label)

    def __getattr__(self, a):
        return getattr(self._c, a)


def _balance(chunks, k):
    """blocks are independent (each starts from Reset): pack the recordings into k traces of similar length - one JVM start per trace"""
    bins = [[] for _ in range(k)]
    for ch in sorted(chunks, key=len, reverse=True):
        min(bins, key=len).extend(ch)
    return [b for b in bins if b]


def _validate(ctx, chunks, label, max_rounds):
    chunks = _balance(chunks, 6 if ctx.quick else 30) if len(chunks) > 6 else chunks
    fits = {}
    for ev in chunks:
        for e in ev:
            if e["e"] == "Fit":
                fits.setdefault(e["seed"], e)

    def on_reject(ev, idx, block):
        i = next((q for q, e in enumerate(block) if e is ev), len(block) - 1)
        fit, st = _replay_state(block, i)
        fit = fit or {}
        nm, what = _name_failure(fit, st, ev) if fit else ("ledger", "event %s outside a fit" % ev)
        shape = fit.get("shape", "?")
        sig = "PCA:%s:%s:%s" % (nm, fit.get("scaling", "?"), shape)
        case = _case_of(fit) or {}
        case["event"] = ev
        ctx.violation(sig, "gen=%s/%s n=%s c=%s scaling=%s npc=%s rank=%s nproc=%s seed=%s%s: %s" % (
            fit.get("gen"), fit.get("gp"), fit.get("n"), fit.get("c"), fit.get("scaling"), fit.get("npc"), fit.get("rank"), fit.get("nproc"), fit.get("seed"),
            (" history=%s fit %s" % (fit.get("hs"), fit.get("h"))) if fit.get("h") else "", what), case)

    def one(args):
        i, ev = args
        tap = _Tap(ctx)
        rej = trace.check_trace(tap, "TracePca", "Trace_Pca.cfg", "Trace_Pca_prop.cfg", ev, on_reject, drop="block", max_rounds=max_rounds,
                                label="%s_%d" % (label, i), timeout=1500)
        return rej, tap.emits
    with ThreadPoolExecutor(6) as ex:
        out = list(ex.map(one, list(enumerate(chunks))))
    seen = set()
    nknown = 0
    for _, emits in out:
        for m in emits:
            if "cls" in m:
                key = ("cls", m["seed"], m["gen"], m["gp"], m["n"], m["c"], m["scaling"], m["npc"], m["nproc"], m["h"])
                if key not in seen:
                    seen.add(key)
                    for t in m["cls"]:
                        ctx.cls(t)
            elif "known" in m:
                key = ("known", m["known"], m["fs"], m["k"], m["n"], m["c"], m["scaling"], m["npc"])
                if key in seen:
                    continue
                seen.add(key)
                nknown += 1
                fit = fits.get(m["fs"], {})
                if m["known"] == "start-orthogonal":
                    ctx.violation(KNOWN_START, "gen=%s/%s n=%s c=%s scaling=%s npc=%s seed=%s: component %d carries eigenvalue %.6g of ss0 > %.6g of component %d, which started from a "
                                  "column with cos^2 %.3g to the dominant axis (eigenvalue ratio %.6f) and was stopped by the documented criterion before the dominant axis grew" % (
                                      fit.get("gen"), fit.get("gp"), m["n"], m["c"], m["scaling"], m["npc"], m["fs"], m["k"], m["eval"] * 1e-9, m["prev"] * 1e-9, m["k"] - 1,
                                      m["sc12"] * 1e-12, m["r9"] * 1e-9), _case_of(fit))
                else:
                    ctx.violation(KNOWN_SENT, "gen=%s/%s n=%s c=%s scaling=%s npc=%s seed=%s: a computed score lies within 0.1 of the missing-value code 99999999 and is dropped from "
                                  "t't: explained variances %s vs eigenvalues %s (1e-9 of ss0)" % (fit.get("gen"), fit.get("gp"), m["n"], m["c"], m["scaling"], m["npc"], m["fs"],
                                                                                                   m.get("varexp"), m.get("evals")), _case_of(fit))
            elif "extra" in m:
                key = ("extra", m["extra"], m["fs"])
                if key in seen:
                    continue
                seen.add(key)
                if m["extra"] == "PCARSquared":
                    if m["died"]:
                        ctx.extra(EXTRA_RSQ + (":abort-uncentred-model" if m["scaling"] == -1 else ":died"),
                                  "PCARSquared() on a model fitted with scaling %d did not return (rc %s%s; seed %s, npc %d)" % (
                                      m["scaling"], m["died"], ": a model fitted without centring stores no column averages and getDVectorValue(colaverage, j) aborts; candidate repair "
                                      "fixes/C01-pcarsquared-no-averages.diff" if m["scaling"] == -1 else "", m["fs"], m["npc"]))
                    else:
                        ctx.extra(EXTRA_RSQ + ":value", "PCARSquared() returned %d values for npc = %d, worst deviation from 1 - |X - back-transformation|^2 / |X - means|^2: %s (seed %s)" % (
                            m["len"], m["npc"], _q12(m["err"]), m["fs"]))
                else:
                    ctx.extra(EXTRA_REFIT, "PCA() into a PCAMODEL that already holds a fit of other data of the same shape differs from the fit into a fresh model: varexp has %d entries "
                              "for npc = %d, scores differ by %s (relative), loadings by %s%s (seed %s; candidate repair fixes/C02-pca-refit-used-model.diff)" % (
                                  m["vlen"], m["npc"], _q12(m["terr"]), _q12(m["perr"]), ", the refit died (rc %s)" % m["died"] if m["died"] else "", m["fs"]))
    ctx.steps["%s_known_finding_instances" % label] = nknown
    return sum(r for r, _ in out)


def _binding(ctx, chunks):
    pool = ThreadPoolExecutor(4)
    futs = []

    def selftest(*a):
        futs.append(pool.submit(trace.binding_selftest, *a))
    try:
        _binding_body(ctx, chunks, selftest)
        for f in futs:
            f.result()
    finally:
        pool.shutdown(wait=True)


def _binding_body(ctx, chunks, selftest):
    blocks = [b for ch in chunks[:3] for b in tlc.split_blocks(ch) if any(e["e"] == "Back" for e in b)][:20]
    ev = [e for b in blocks for e in b]
    if not any(e["e"] == "Extract" for e in ev) and ctx.violations:
        ctx.note("binding self-test skipped: no completed fit in the recording (violations reported above)")
        return

    def corrupt(evs):
        for e in evs:
            if e["e"] == "Extract" and e["k"] >= 1:
                e["ortho"] = min(2000000000, max(1, e["ortho"]) * 1000000)      # one logged residual multiplied by 1e6
                return True
        return False
    selftest(ctx, "TracePca", "Trace_Pca_prop.cfg", ev, corrupt, "binding_residual_x1e6")

    def corrupt2(evs):
        for e in evs:
            if e["e"] == "Extract" and e["eval"] > 2000000:
                e["eval"] = e["eval"] - e["eval"] // 500                      # eigenvalue 0.2 % off: the budget identity must notice
                return True
        return False
    selftest(ctx, "TracePca", "Trace_Pca_prop.cfg", ev, corrupt2, "binding_budget")

    def field(kind, f, val):
        def c(evs):
            for e in evs:
                if e["e"] == kind:
                    e[f] = val(e[f]) if callable(val) else val
                    return True
            return False
        return c
    # the fields added in round 3: partial re-projection, scanned back-transformation, generator name
    selftest(ctx, "TracePca", "Trace_Pca_prop.cfg", ev, field("Project", "part", lambda v: min(2000000000, max(1, v) * 1000000 + 20000)), "binding_project_part")
    selftest(ctx, "TracePca", "Trace_Pca_prop.cfg", ev, field("Back", "scan", 1500000), "binding_back_scan")
    selftest(ctx, "TracePca", "Trace_Pca_prop.cfg", ev, field("Fit", "gen", "other"), "binding_fit_generator")
    # the classification of an order inversion: on the recorded witness (design 0, literal) the waiver must NOT apply when the start column is well started,
    # nor when the logged eigenvalue ratio does not explain the later eigenvalue
    wit = next((b for ch in chunks for b in tlc.split_blocks(ch) if any(e["e"] == "Fit" and e["gen"] == "design" and e["gp"] == 0 and e["seed"] == 0 and e["scaling"] == 0 for e in b)
                and any(e["e"] == "Back" for e in b)), None)
    if wit is None:
        if ctx.violations:
            return
        raise InfraError("the literal 8 x 3 witness design was not recorded")

    def well_started(evs):
        for e in evs:
            if e["e"] == "Extract" and e["k"] == 1:
                e["sc12"], e["sc9"] = 2000000000, 400000000
                return True
        return False

    def incoherent(evs):
        for e in evs:
            if e["e"] == "Extract" and e["k"] == 1:
                e["r9"] = 999000000
                return True
        return False
    # one trace: the witness block followed by extra events (outside the statement: never rejected) - a right PCARSquared / refit passes silently, a wrong one is reported
    t = list(wit) + [dict(e="RSq", fs=0, err=5, repr=1, len=2, npc=2, scaling=0, died=0), dict(e="RSq", fs=1, err=50000, repr=1, len=2, npc=2, scaling=0, died=0),
                     dict(e="Refit", fs=2, terr=0, perr=0, vlen=2, npc=2, died=0), dict(e="Refit", fs=3, terr=0, perr=0, vlen=4, npc=2, died=0)]
    ok, _, r = tlc.validate_trace("TracePca", "Trace_Pca_prop.cfg", t)
    ctx.add_tlc(r, "binding_known_witness_and_extras")
    if ok and not any(m.get("known") == "start-orthogonal" for m in r.emits):
        ctx.note("the 8 x 3 witness no longer shows the order inversion on this tree (known finding %s not reproduced)" % KNOWN_START)
    elif ok:
        selftest(ctx, "TracePca", "Trace_Pca_prop.cfg", wit, well_started, "binding_known_well_started")
        selftest(ctx, "TracePca", "Trace_Pca_prop.cfg", wit, incoherent, "binding_known_incoherent_ratio")
    if ok:
        got = sorted((m["extra"], m["fs"]) for m in r.emits if "extra" in m)
        if got != [("PCARSquared", 1), ("fit-into-used-model", 3)]:
            raise InfraError("binding lost: extra events (right / wrong PCARSquared, right / wrong refit) reported as %s, expected the wrong ones only" % got)
        ctx.steps["binding_extras"] = dict(ok=True, reported=got)
    elif not ctx.violations:
        raise InfraError("binding lost: the recorded witness followed by extra events is rejected (extras must never be rejected)")
    # the second classified finding: explained variances below the eigenvalues are excused only while a stored score coincides with the missing-value code
    sent = next((b for ch in chunks for b in tlc.split_blocks(ch) if any(e["e"] == "Fit" and e["gen"] == "sent" for e in b) and any(e["e"] == "Back" for e in b)), None)
    if sent is not None:
        oks, _, rs = tlc.validate_trace("TracePca", "Trace_Pca_prop.cfg", sent)
        ctx.add_tlc(rs, "binding_sentinel_witness")
        if oks and any(m.get("known") == "score-equals-missing-code" for m in rs.emits):
            selftest(ctx, "TracePca", "Trace_Pca_prop.cfg", sent, field("Extract", "tm", 0), "binding_sentinel_no_score_at_code")


def run(ctx):
    ctx.assumptions += [
        "sampled and class-stratified inputs (seeded); no exhaustiveness claim: level exploration",
        "the harness's residual evaluation (long double accumulation) and quantisation (1e-12 / 1e-9 units, saturating) are trusted; binding self-tests corrupt logged fields and insist on rejection",
        "E0 = MatrixPreprocess(X) is taken as the definition of the preprocessed matrix (checked by C10); rank = number of dgesdd singular values >= 1e-6 sigma_1 (LAPACK called directly by the harness)",
        "inputs whose column scale falls in the fit/apply guard discrepancy zone [5e-4, 1.2e-2) (finding F9, owned by C10) are regenerated or dropped and counted; so are cells within 2 of the missing-value code",
        "TolAlg = 1e-8 for algebraic identities; TolEig = 4*sqrt(n*1e-10) relative to the eigenvalue + 1e-9*ss0 (+2 units of quantisation) for quantities inheriting the stopping rule",
        "an inversion of the eigenvalue order is the known finding only if TLC finds cos^2(start column, dominant axis) (1 - r)^2 <= 16 * 1e-10 * n * r^2 on the harness's dgesdd of its own deflated "
        "matrix (r = returned / dominant eigenvalue) and the later eigenvalue <= the dominant one; otherwise it is a violation",
    ]
    _model_checks(ctx)
    lib = build.build_lib("san")
    exe = build.build_harness("c01", ["c01_drv.c"], lib)
    rd = tlc.rundir()
    try:
        jobs = _jobs(ctx, rd)
        deferred = Deferred(ctx)
        chunks = _record(ctx, exe, jobs, timeout=1500 if ctx.quick else 3000, deferred=deferred)
        nfit, ndrop = _account(ctx, chunks, deferred)
        if nfit == 0:
            deferred.settle()
            return
        ctx.note("recorded %d fits (%d generated inputs dropped as outside the quantifier); worst residuals (1e-12 units): %s" % (nfit, ndrop, ctx.steps["worst_residuals_1e-12"]))
        shown = 0
        for ev in chunks:
            for b in tlc.split_blocks(ev):
                if shown < 3 and any(e["e"] == "Fit" and e["npc"] in (2, 3) for e in b):
                    ctx.sample(b)
                    shown += 1
        ctx.cov["rule"] = ("matrices inside the quantifier (2..60 x 1..25; tall/wide/square; column locations up to 1e8 x spread, spreads 0.02..1e6 or exactly 0; scalings -1..5; npc 1..admissible "
                           "rank; processor count 1,2,3,5,16,24; random + the stratified classes listed in coverage.classes) fitted by the real PCA(); one evaluation = one fitted model "
                           "validated by TLC; distinct = distinct (generator, n, c, scaling, npc, nproc, output mode, history position); non-trivial = npc >= 2 or c > n")
        rej = _validate(ctx, chunks, "trace_pca", 6 if ctx.quick else 12)
        ctx.traces(nfit - rej if nfit > rej else 0)
        if not ctx.violations:
            missing = [t for t in REQUIRED_CLASSES if not ctx.classes.get(t)]
            if missing:
                deferred.add("c01: input classes never executed (measured by TLC on the recording): %s" % missing)
        if not deferred:
            _binding(ctx, chunks)
        deferred.settle()
    finally:
        shutil.rmtree(rd, ignore_errors=True)


def replay(ctx, body):
    case = body.get("case") or {}
    if case.get("kind") not in ("model", "hist"):
        return run(ctx)
    lib = build.build_lib("san")
    exe = build.build_harness("c01", ["c01_drv.c"], lib)
    rd = tlc.rundir()
    try:
        out = os.path.join(rd, "replay.ndjson")
        if case["kind"] == "hist":
            args = [out, "hist", case["hs"], case.get("nproc") or 1]
        else:
            args = [out, "case", case.get("gen", "rnd"), case.get("gp", 0), case["seed"], case["n"], case["c"], case["scaling"], case["npc"], case.get("nproc") or 1]
        h = hrun.run(exe, args, timeout=600, env=SAN_HIST)
        ev = [e for e in hrun.read_ndjson(out) if e.get("e") != "Summary"]
        if h.san:
            ctx.violation("PCA:%s" % h.san, h.err[:1500], case)
        if not ev:
            raise InfraError("replay produced no events: %s" % h.err[-500:])
        for e in ev:
            if e["e"] == "Fit":
                ctx.case((e["gen"], e["gp"], e["n"], e["c"], e["scaling"], e["npc"], e["nproc"], e["rmode"], e["h"]))
                ctx.case(("replay", e["seed"]))
        ctx.sample(ev)
        ctx.cov["rule"] = "replay of one recorded model (generator, seed, n, c, scaling, npc, nproc) or in-process history refitted on the current tree"
        rej = _validate(ctx, [ev], "replay", 3)
        ctx.traces(0 if rej else 1)
    finally:
        shutil.rmtree(rd, ignore_errors=True)
