"""C12 - linear solvers, inverses and factorisations satisfy their defining equations.

(M)  spec/LinAlg.tla over spec/Rat.tla: exact Inverse / Det / Solve / LeastSquares / PseudoInverse over the rationals.  The determinant has
     THREE independent definitions that TLC proves equal on every enumerated matrix: Gauss-Jordan with row exchange (product of pivots,
     DetOf), Laplace expansion (Lap - what MatrixDeterminant does) and the fraction-free Bareiss LU elimination over the integers (BDet =
     sign * product of the LU pivots u_kk = p_k / p_(k-1); theorem BareissAgree), plus Det(AB) = Det(A)Det(B) (DetMul).  Theorems A A^-1 = I =
     A^-1 A, A x = b, normal equations, four Penrose conditions, symmetric input => symmetric inverse (SymLaw), SPD input => all pivots
     positive without exchange (SpdLaw).  Models of the library's two elimination schemes on the zero pattern (NoPivotOK = the old
     MatrixInversion, PrePivotOK = the old SolveLSE, constant Pivoting): TLC shows that without exchange a non-singular matrix exists whose
     elimination divides by zero, and that the repaired scheme is total.
(GEN/replay, mode 2)  TLC enumerates all 1x1/2x2 over -2..2, all 3x3 over {0,1}, all 3x3/4x4 permutation, unit-triangular and
     permuted-triangular 0/1 matrices, and the structured cases the quantifier names: all 3x3 (4x4 by residue class) diagonal matrices over
     {-2,-1,1,2,3}, SPD matrices L D L' (3x3) / L L' (4x4), triangular with non-unit diagonal, all symmetric 3x3 over -1..1, 5x5 permutations
     (thorough: all 262,144 3x3 over -1..2 by residue classes, every residue of the 4x4 / 5x5 families) and prints each with its exact
     determinant, inverse, solution, least-squares coefficients and pseudo-inverse; harness/c12_replay.c runs the six routines of the library
     on every case at scale 1 and 2^-14, every third case also at 2^-34 and 2^30, every third case at a NON-DYADIC unit (0.1, 1/3, 1e-6, 1e6),
     each call into a fresh output AND into an already sized output holding stale numbers, and compares with the rationals (1e-9 * cond).
(V)  variant agreement: the model's counterexample is looked up among the replayed cases: a violation is only reported with the failing
     run of the real library.
(validate, ledger)  harness/c12_trace.c executes a deterministic STRATIFIED plan: 15 square classes (SPD, symmetric indefinite, diagonal,
     permutation, zero leading minors, triangular, Toeplitz, general, small integer, graded, symmetric permutation, repeated eigenvalues in
     every multiplicity pattern, large common offset, non-representable entries, integer permuted unit-triangular) at EVERY size 1..12 and
     at whole-matrix scales 2^k, 1e-6, 1e6 (solution magnitudes 1, 1e-6, 1e6); every rectangular shape m > n in 1..12 (12x1, n = p +- 1 ..)
     for OLS / Penrose / SVDlapack and its transpose for SVDlapack, with duplicate rows / a constant column; "history" blocks in which ONE
     routine is called ten times in ONE process on changing sizes, shapes and magnitudes into the SAME output objects; rank-deficient SVD
     inputs (outside the quantifier: EXTRA only).  One child per block with per-call crash attribution under ASan/UBSan (half of the
     processes with the quarantine off, so freed addresses are reused at once).  Residuals of the defining equations are quantised and
     judged by TLC against spec/TraceLinAlg.tla (bounds relative to |A| - scale free - and scaled by the logged cond); integer cases are
     judged EXACTLY by TLC (InvInt: MulI(A, inv) = I; DetInt: det = BDet(A) up to 8x8; DetMulInt: the three determinants and dp = da db).

CLAUSES of the statement -> who decides them (model theorem | replay oracle | trace action : event)
  inverse routines return M^-1, M M^-1 = I,        LinAlg!InverseLaw | exact Inverse(A) per enumerated case (MatrixInversion, MatrixLUInversion, all
    also when leading entries are zero              scales, fresh + stale output) | TInv : Inv (max|AX - I| <= TolAlg max(1, cond/100)), TInvInt : InvInt (exact)
  determinant = product of pivots of an            LinAlg!BareissAgree, DetAgree (three definitions agree) | exact integer determinant per case |
    independent LU factorisation                    TDetInt : DetInt (det = BDet(A) = sign * prod of LU pivots, computed by TLC, n <= 8; Lap for n <= 4),
                                                    TDet : Det (against the dgetrf pivots, relative to prod_i |row_i|_1, n <= 8)
  determinant is multiplicative                    LinAlg!DetMul | - | TDetMulInt : DetMulInt (da = BDet(A), db = BDet(B), dp = BDet(A B), dp = da db exactly),
                                                    TDetMul : DetMul (general / permutation / diagonal / triangular / SPD partner)
  linear-system solver returns the solution        LinAlg!SolveLaw | exact Solve(A, b) | TSolve : Solve (backward <= TolAlg, forward <= TolAlg max(1, cond/100))
  least-squares solver returns the solution        LinAlg!LsLaw (normal equations) | exact LeastSquares(X, y) on the tall (n+1) x n case | TOls : Ols (tall incl. 12x1, and square)
  full column rank => four Penrose conditions      LinAlg!PenroseLaw | exact PseudoInverse(X) | TPenrose : Penrose (r1..r4 <= TolAlg max(1, cond^2/1e4), cond <= 1e3)
  symmetric => pairs with A v = lambda v           - | - | TEig : Eig (n pairs, every v # 0, max_k |A v_k - l_k v_k| / (|A||v_k|) <= TolAlg, PAIRWISE: repeated
                                                    eigenvalues admitted, no uniqueness / orthogonality implied); Impl layer: sum of eigenvalues = trace
  every matrix: singular values >= 0 and           - | - | TSvd : Svd (shapes multiply, sigma >= 0, |U S VT - A| <= TolAlg |A|, diag(S) = the singular values of A in any
    the factors multiply back                       order (oracle dgesvd), nothing off the diagonal); Impl layer: economy shapes, orthonormal U / VT
  quantifier (sizes 1..12, cond <= 1e6, det <= 8)  TMat : Mat (InQuantifier), NormalEqOK (m >= n, cond <= 1e3 for the normal-equation routines), TDet (n <= 8)

INPUT CLASSES (INPUT-CLASSES.md), before -> now (counted per run in coverage.classes)
  K1 shapes      before: square 1..11 in the quick tier (12 only thorough), random tall + its transpose.  now: every class at every size 1..12; every m > n
                 pair incl. 12x1 / 1x12 / n = p +- 1 for SVDlapack (both orientations), OLS and Penrose (tall; wide is outside "full column rank")
  K2 blocks      inner dimensions 3,4,5 / 7,8,9 / 11,12 of the unrolled MatrixDotProduct (OLS, Penrose: rows and columns) at every class
  K3 location    before: not emitted.  now: class "offset" (c 1 1' with |c| up to 1e4 added; the measured cond decides admission and the bound)
  K4 magnitude   before: 2^-10..2^10 (trace), 2^-34..2^30 for the six replayed routines only.  now: 1e-6 and 1e6 for EVERY routine incl. EVectEval / SVDlapack,
                 solution / response magnitudes 1e-6, 1, 1e6; all residuals are relative, the bounds do not change
  K5 constants   before: not emitted.  now: class "nonrep" (0.1 k, k/3, 1e-3 k, 0.7 k on permutation / unit-triangular / integer patterns); replay at units 0.1, 1/3
  K6 processors  EXCLUDED: none of the eight routines reaches an MT_* kernel; the four recording processes force nproc 1, 2, 3, 5 (must not matter)
  K7 histories   before: sized stale outputs of the same shape for five replayed routines only, one fork per call in the trace direction.  now: history blocks for
                 all eight routines (size changes AND repeated sizes, magnitudes alternating 1e6 / 1e-6), sized-stale outputs (right shape, one row / column more) for
                 every routine with an output, ASan quarantine off in half of the processes
  K8 degenerate  before: one repeated pair in 40 % of the symmetric cases.  now: c I, multiplicity n-1 / pairs / two clusters (rotated and exactly diagonal),
                 symmetric permutations (+-1), duplicate row / constant column in tall inputs; rank-deficient and zero matrices for the SVD as EXTRA only
  K9 missing     EXCLUDED: the statement says nothing about the missing-value code; generated entries stay far from 99999999
  K10 labels     not applicable (no labels)
"""
import os, re, shutil, collections
from concurrent.futures import ThreadPoolExecutor
from vf import build, tlc, trace
from vf import run as hrun
from vf.core import InfraError
from checks.deferred import Deferred

LEVEL = "model_checking"
READY = True
TECHNIQUE = ("TLC as exact rational / integer oracle (LinAlg.tla: inverse, determinant by elimination, by Laplace expansion and by fraction-free Bareiss LU - "
             "three definitions proved equal - solve, least squares, pseudo-inverse; pivot case analysis of the library's two elimination schemes) with every "
             "enumerated small matrix (all small, permutation, triangular, zero-leading-minor, diagonal, SPD, symmetric families) replayed through the real "
             "routines at dyadic and non-dyadic scales into fresh and stale outputs; plus TLC trace validation (TraceLinAlg.tla) of quantised residuals of "
             "inversion / determinant / multiplicativity / solve / least squares / Penrose / eigen / SVD on a stratified plan (15 classes x sizes 1..12 x scales "
             "2^k, 1e-6, 1e6; all rectangular shapes; in-process call histories with shared outputs) with exact integer judgements (InvInt, DetInt, DetMulInt), "
             "each block isolated in a child process under ASan/UBSan")
LEVEL_TEXT = ("Inverse, determinant, linear-system, least-squares and pseudo-inverse routines are compared with exact rational results computed by "
              "TLC for every matrix of the enumerated small scope (exhaustive over the stated families, which include every structured case the "
              "quantifier names), and the pivoting case analysis is model-checked; determinants of integer matrices up to 8x8 and their products are "
              "judged exactly by TLC (Bareiss LU pivots); the eigen-decomposition / SVD part and the sizes up to 12 are a stratified LEDGER: generated "
              "matrices whose residuals, computed by the harness in double precision, are validated by TLC against tolerance bounds of the spec.")
LEVEL_NOTE = ("model_checking applies to MatrixInversion, MatrixLUInversion, MatrixDeterminant, SolveLSE, OrdinaryLeastSquares, "
              "MatrixMoorePenrosePseudoinverse on the small exhaustive scope (TLC oracle) and to the exact integer events of the ledger. EVectEval, SVD, "
              "SVDlapack and every size above 5 are ledger / exploration: residual evaluation and quantisation are trusted harness code, LAPACK dgesvd / "
              "dgetrf called directly are independent oracles for cond, the singular values and det. Input classes left out on purpose: K6 (no MT kernel is "
              "reachable from these routines; nproc is forced to 1, 2, 3, 5 as a no-op), K9 (the statement does not mention the missing-value code; entries "
              "stay far from 99999999), K10 (no labels); wide inputs for OLS / pseudo-inverse (not of full column rank); cond > 1e3 for the normal-equation "
              "routines (the spec's bound TolAlg * cond^2 / 1e4 stops being meaningful: cond^2 <= 1e6 is kept); rank-deficient SVD inputs are outside the "
              "quantifier (cond = inf) and reported as EXTRA-FINDING only. Trusts TLC, ASan/UBSan.")

SMALL_A = ["all1", "all2"]
SMALL_B = ["bin3", "perm3", "perm4", "tri3", "tri4", "ptri3"]
STRUCT_A = ["diag3", "spd3", "trid3", "spd4"]
STRUCT_B = ["sym3"]
STRUCT_C = ["perm5", "diag4"]
FAMILY_CLASS = {"perm3": "permutation", "perm4": "permutation", "perm5": "permutation", "tri3": "triangular", "tri4": "triangular", "trid3": "triangular",
                "ptri3": "zero-leading-minor", "ptri4": "zero-leading-minor", "diag3": "diagonal", "diag4": "diagonal", "spd3": "spd", "spd4": "spd", "sym3": "symmetric", "sym4": "symmetric"}
SCALE_NAME = {0: "1", 14: "2^-14", 34: "2^-34", -30: "2^30", 1000: "0.1", 1001: "1/3", 1002: "1e-6", 1003: "1e6"}


def _case_line(i, e):
    L = [i, e["n"], e["ns"], e["det"]]
    for row in e["A"]:
        L += row
    if e["ns"]:
        for row in e["inv"]:
            for q in row:
                L += q
        L += e["b"]
        for q in e["x"]:
            L += q
        for row in e["X"]:
            L += row
        L += e["y"]
        for q in e["beta"]:
            L += q
        for row in e["pinv"]:
            for q in row:
                L += q
    return " ".join(str(x) for x in L)


def _sig_replay(routine, exp, c):
    """failure class from the TLC-computed zero-pattern facts of the case"""
    if routine in ("MatrixInversion", "OrdinaryLeastSquares"):
        if routine == "MatrixInversion" and not c["nopiv"]:
            return "LINALG:%s:%s" % (routine, "zero-pivot" if c["lead0"] else "mid-pivot")
        return "LINALG:%s:accuracy" % routine
    if routine == "SolveLSE":
        if exp == 0 and not c["prepiv"]:
            return "LINALG:SolveLSE:mid-pivot"          # zero pivot appears during (or is created by the pre-pass of) the elimination
        return "LINALG:SolveLSE:accuracy"
    if routine == "MatrixMoorePenrosePseudoinverse":
        return "LINALG:%s:%s" % (routine, "rect-tall" if exp == 0 else "accuracy")
    return "LINALG:%s:square" % routine


def _gen_cfg(rd, name, fams, mod, res, inv=("Theorems",)):
    return tlc.write_cfg(os.path.join(rd, name), spec="Spec", constants=dict(Families=set(fams), Pivoting=True, Mod=mod, Res=res),
                         invariants=list(inv), constraints=["Emit"], deadlock=False)


def _replay_cases(ctx, exe, rd, tag, cases, deferred=None):
    cf = os.path.join(rd, "cases_%s.txt" % tag)
    with open(cf, "w") as fh:
        for i, e in enumerate(cases):
            fh.write(_case_line(i, e) + "\n")
    fails, start, nruns, rounds = [], 0, 0, 0
    while True:
        of = os.path.join(rd, "out_%s_%d.ndjson" % (tag, rounds))
        h = hrun.run(exe, [cf, of, start], timeout=1500)
        ev = hrun.read_ndjson(of)
        if h.timed_out and deferred is None:
            raise InfraError("c12_replay timed out on %s" % tag)
        fails += [e for e in ev if e.get("e") == "Fail"]
        if h.timed_out:
            # a changed routine may hang: not a verdict, but the comparisons made so far are still reported and the rest of the check runs
            deferred.add("c12_replay timed out on %s" % tag)
            break
        done = [e for e in ev if e.get("e") == "Done"]
        if done:
            nruns += done[0]["runs"]
            break
        crash = [e for e in ev if e.get("e") == "Crash"]
        if not crash:
            raise InfraError("c12_replay died rc=%d without Done/Crash line on %s: %s" % (h.rc, tag, h.err[-800:]))
        cr = crash[0]
        c = cases[cr["id"]]
        ctx.violation("LINALG:%s:square-crash" % cr["routine"], "%s on A=%s * %s: process died (%s)\n%s" % (cr["routine"], c["A"], SCALE_NAME.get(cr["exp"], cr["exp"]), h.san or "rc=%d" % h.rc, h.err[:1200]),
                      dict(kind="case", case=c, routine=cr["routine"], exp=cr["exp"]))
        start = cr["id"] + 1
        rounds += 1
        if rounds > 20:
            if deferred is None:
                raise InfraError("c12_replay keeps crashing on %s" % tag)
            deferred.add("c12_replay keeps crashing on %s: the cases behind the 21st crash (case %d of %d) were not run" % (tag, start, len(cases)))
            break
    for f in fails:
        c = cases[f["id"]]
        ctx.violation(_sig_replay(f["routine"], f["exp"], c), "%s on A=%s * %s: entry (%d,%d) is %s, exact %s (nopivot-ok=%s prepivot-ok=%s leading-zero=%s)" % (
            f["routine"], c["A"], SCALE_NAME.get(f["exp"], f["exp"]), f["i"], f["j"], f["got"], f["want"], c.get("nopiv"), c.get("prepiv"), c.get("lead0")),
            dict(kind="case", case=c, routine=f["routine"], exp=f["exp"]))
    return fails, nruns


def _parse_witness(text):
    m = re.search(r"A = (<<.*>>)", text)
    if not m:
        return None
    return eval(m.group(1).replace("<<", "[").replace(">>", "]"))


def _run_model_and_replay(ctx, rd, lib, deferred=None):
    exe = build.build_harness("c12r", ["c12_replay.c"], lib)
    s = ctx.seed
    allinv = ("Theorems", "ElimDefined", "SolveDefined")
    plan = [("gen_small_a", _gen_cfg(rd, "g_small_a.cfg", SMALL_A, 1, 0, inv=allinv)), ("gen_small_b", _gen_cfg(rd, "g_small_b.cfg", SMALL_B, 1, 0, inv=allinv))]
    plan += [("gen_ptri4_%d" % i, _gen_cfg(rd, "g_p4_%d.cfg" % i, ["ptri4"], 4, i, inv=allinv)) for i in range(4)]
    # the structured cases the quantifier names: diagonal, SPD, triangular with a non-unit diagonal, symmetric, 5x5 permutations
    plan += [("gen_struct_a", _gen_cfg(rd, "g_st_a.cfg", STRUCT_A, 1, 0, inv=allinv)), ("gen_struct_b", _gen_cfg(rd, "g_st_b.cfg", STRUCT_B, 1, 0, inv=allinv))]
    res5 = [s % 4] if ctx.quick else range(4)
    plan += [("gen_struct_c_%d" % i, _gen_cfg(rd, "g_st_c_%d.cfg" % i, STRUCT_C, 4, i, inv=allinv)) for i in res5]
    if not ctx.quick:
        # all 262,144 3x3 matrices over -1..2 in 16 residue classes (exhaustive together); the heavier least-squares / Penrose theorems
        # are checked on the other families, here the determinant (three definitions), inverse and solve laws
        plan += [("gen_all3_%d" % i, _gen_cfg(rd, "g_a3_%d.cfg" % i, ["all3"], 16, i, inv=("DetAgree", "BareissAgree", "DetMul", "InverseLaw", "SolveLaw", "SymLaw"))) for i in range(16)]
        # a quarter of the 59,049 symmetric 4x4 matrices over -1..1 (4 of 16 residue classes, rotating with the seed)
        plan += [("gen_sym4_%d" % i, _gen_cfg(rd, "g_s4_%d.cfg" % i, ["sym4"], 16, i, inv=("DetAgree", "BareissAgree", "InverseLaw", "SolveLaw", "SymLaw"))) for i in sorted({(s + 4 * q) % 16 for q in range(4)})]
    mc = [("mc_linalg", "MC_LinAlg_quick.cfg" if ctx.quick else "MC_LinAlg_thorough.cfg"), ("mc_nopivot", "MC_LinAlg_nopivot.cfg"), ("mc_prepivot", "MC_LinAlg_prepivot.cfg")]

    def one(item):
        label, cfg = item
        return label, tlc.run("LinAlg", cfg, workers=1, timeout=1700, coverage=False, xmx="3g")
    allfails = []
    stats = collections.Counter()
    lookup = {}
    mcres = {}
    with ThreadPoolExecutor(6) as ex:
        futs = [ex.submit(one, it) for it in mc]
        for label, r in ex.map(one, plan):
            ctx.add_tlc(r, label)
            if not r.ok:
                raise InfraError("LinAlg.tla: %s fails in the model itself (%s):\n%s" % (r.violation, label, r.trace_text[:1500]))
            if len(r.emits) != r.distinct or r.distinct == 0:
                raise InfraError("GEN %s: %d emitted cases for %d states" % (label, len(r.emits), r.distinct))
            cases = r.emits
            fails, nruns = _replay_cases(ctx, exe, rd, label, cases, deferred)
            failed = collections.defaultdict(set)
            for f in fails:
                failed[f["id"]].add((f["routine"], f["exp"]))
            for i, c in enumerate(cases):
                zp = bool(c["ns"]) and not c["nopiv"]
                ctx.case(("R", c["fam"], c["n"], c["ns"], c.get("nopiv"), c.get("prepiv"), c.get("lead0")), zp or not c["ns"])
                stats["cases"] += 1
                # the scales c12_replay.c runs case i at (same rule as in the driver), each with fresh AND already sized, stale outputs
                scales = [0, 14] + ([34, -30] if i % 3 == 0 else []) + ([1000 + (i // 3) % 4] if i % 3 == 1 else [])
                stats["runs"] += len(scales)
                for e in scales:
                    ctx.cls("K4:replay-scale-" + SCALE_NAME[e])
                    if e >= 1000:
                        ctx.cls("K5:replay-non-dyadic-unit")
                ctx.cls("K1:replay-square-%d" % c["n"])
                if c["ns"]:
                    ctx.cls("K7:replay-sized-stale-output", len(scales))
                    ctx.cls("K1:replay-tall-(n+1)xn")
                    if c.get("lead0"):
                        ctx.cls("S:replay-leading-zero")
                if c["fam"] in FAMILY_CLASS:
                    ctx.cls("S:replay-" + FAMILY_CLASS[c["fam"]])
                if c["ns"]:
                    stats["nonsingular"] += 1
                    stats["nopiv0"] += 0 if c["nopiv"] else 1
                    stats["prepiv0"] += 0 if c["prepiv"] else 1
                    # (V) does the real code behave like the no-exchange / pre-pass model?
                    fi = ("MatrixInversion", 0) in failed[i]
                    fs = ("SolveLSE", 0) in failed[i]
                    stats["inv_fail_nopiv0" if not c["nopiv"] else "inv_fail_nopiv1"] += 1 if fi else 0
                    stats["lse_fail_prepiv0" if not c["prepiv"] else "lse_fail_prepiv1"] += 1 if fs else 0
                    lookup[str(c["A"])] = (fi, fs)
            for c in cases:
                if c["ns"] and not c["nopiv"]:
                    ctx.sample(dict(direction="replay", A=c["A"], det=c["det"], inv=c["inv"], nopivot_ok=c["nopiv"], prepivot_ok=c["prepiv"]), 3)
                    break
            allfails += fails
            ctx.note("%s: %d matrices from TLC (%.0fs), %d failed comparisons" % (label, len(cases), r.wall, len(fails)))
            r.emits = None
            r.out = ""
        for f in futs:
            label, r = f.result()
            ctx.add_tlc(r, label)
            mcres[label] = r
    # (M) the repaired variant is total and all theorems hold
    r = mcres["mc_linalg"]
    if not r.ok:
        raise InfraError("LinAlg.tla (Pivoting = TRUE): %s fails in the model itself:\n%s" % (r.violation, r.trace_text[:1500]))
    # (M) the no-exchange variants are NOT total: TLC must produce the counterexample, (V) looks it up in the real runs
    variant = {}
    for label, routine, idx in (("mc_nopivot", "MatrixInversion", 0), ("mc_prepivot", "SolveLSE", 1)):
        r = mcres[label]
        if r.ok:
            raise InfraError("%s: the model without row exchange no longer has a counterexample (spec lost its teeth)" % label)
        w = _parse_witness(r.trace_text)
        real = lookup.get(str(w))
        variant[routine] = dict(model_counterexample=w, real_code_fails_on_it=None if real is None else bool(real[idx]))
        ctx.note("model (%s, Pivoting = FALSE): elimination undefined on non-singular A = %s; real %s on it: %s" % (
            label, w, routine, "not replayed" if real is None else ("FAILS" if real[idx] else "correct")))
    variant["MatrixInversion"]["inferred"] = "no-exchange" if stats["inv_fail_nopiv0"] > 0 else "pivoting"
    variant["SolveLSE"]["inferred"] = "pre-pass-only" if stats["lse_fail_prepiv0"] > 0 else "pivoting"
    for k in ("nonsingular", "nopiv0", "prepiv0"):
        if stats[k] == 0:
            raise InfraError("replay direction vacuous: no case of kind %s" % k)
    ctx.steps["replay"] = dict(stats)
    ctx.steps["variant_agreement"] = variant


def _needs_exchange(mat):
    """labelling only (never a verdict): does plain elimination without row exchange meet a zero pivot on this integer matrix?"""
    A = mat.get("A")
    if not A:
        return False
    from fractions import Fraction
    M = [[Fraction(x) for x in row] for row in A]
    n = len(M)
    for k in range(n):
        if M[k][k] == 0:
            return True
        for i in range(n):
            if i != k and M[i][k] != 0:
                f = M[i][k] / M[k][k]
                M[i] = [a - f * b for a, b in zip(M[i], M[k])]
    return False


def _sig_trace(ev, mat):
    """<AREA>:<routine>:<what>; a call into an output that was already sized / left by an earlier call is its own failure class"""
    e = ev["e"]
    rt = ev.get("routine", "?")
    ru = ""
    if e == "Crash":
        return "LINALG:%s:%s-crash" % (rt, ev.get("shape", "square"))
    if ev.get("reuse", 0) and e in ("Inv", "InvInt", "Solve", "Ols", "Penrose", "Eig", "Svd"):
        return "LINALG:%s:reused-output" % rt
    if e == "Svd":
        what = "shape" if not ev["shp"] else ("sigma" if not ev["sig"] else ("recon" if ev["recon"] > 10000 else "singular-values"))
        return "LINALG:%s:%s-%s%s" % (rt, ev["shape"], what, ru)
    if e in ("Inv", "InvInt"):
        return "LINALG:%s:%s%s" % (rt, "zero-pivot" if mat and mat.get("lead0") else ("mid-pivot" if mat and _needs_exchange(mat) else "accuracy"), ru)
    if e == "Solve":
        return "LINALG:SolveLSE:%s%s" % ("zero-pivot" if mat and mat.get("lead0") else ("mid-pivot" if mat and (mat.get("class") == "zlm" or _needs_exchange(mat)) else "accuracy"), ru)
    if e in ("Det", "DetInt"):
        return "LINALG:MatrixDeterminant:square"
    if e in ("DetMul", "DetMulInt"):
        return "LINALG:MatrixDeterminant:multiplicative"
    if e == "Ols":
        return "LINALG:OrdinaryLeastSquares:%s%s" % (ev.get("shape", "rect-tall"), ru)
    if e == "Penrose":
        return "LINALG:%s:%s%s" % (rt, ev.get("shape", "square"), ru)
    if e == "Eig":
        return "LINALG:EVectEval:square%s" % ru
    return "LINALG:trace:%s" % e


SQUARE_CLASSES = ["spd", "symm", "diag", "perm", "zlm", "tri", "toeplitz", "general", "intsmall", "graded", "symperm", "repeig", "offset", "nonrep", "utri"]
HIST_ROUTINES = ["MatrixInversion", "MatrixLUInversion", "MatrixDeterminant", "SolveLSE", "OrdinaryLeastSquares", "MatrixMoorePenrosePseudoinverse", "EVectEval", "SVDlapack"]
EVENT_KINDS = ("Mat", "Inv", "InvInt", "Det", "DetInt", "DetMul", "DetMulInt", "Solve", "Ols", "Penrose", "Eig", "Svd")


def _classes_of(mat, nproc):
    """input-class tags (INPUT-CLASSES.md) of one logged input"""
    m, n = mat["m"], mat["n"]
    t = []
    t.append("K1:" + ("1x1" if m == n == 1 else "square" if m == n else "tall" if m > n else "wide"))
    if abs(m - n) == 1:
        t.append("K1:n=p+-1")
    if m > 1 and n == 1:
        t.append("K1:single-column")
    if n > 1 and m == 1:
        t.append("K1:single-row")
    for d in sorted({m, n}):
        if d in (4, 8, 12):
            t.append("K2:dim-multiple-of-4")
        elif d in (3, 5, 7, 9, 11):
            t.append("K2:dim-multiple-of-4+-1")
    if mat["class"] == "offset":
        t.append("K3:common-offset")
    t.append("K4:scale-%s" % {"p2": "2^k", "1e-6": "1e-6", "1e6": "1e6"}[mat["sc"]])
    if mat["shape"] == "square" and mat.get("xs"):
        t.append("K4:solution-magnitude-%s" % ("1e-6" if mat["xs"] == 1 else "1e6"))
    if mat["class"] == "nonrep":
        t.append("K5:non-representable-entries")
    t.append("K6:nproc%d" % nproc)
    if mat["hist"]:
        t.append("K7:history")
    if mat["class"] in ("repeig", "symperm"):
        t.append("K8:repeated-eigenvalues")
    if mat.get("var") == 1:
        t.append("K8:duplicate-row")
    if mat.get("var") == 2:
        t.append("K8:constant-column")
    if mat["class"] == "rankdef":
        t.append("K8:rank-deficient(outside-quantifier,extra)")
    if mat["class"] in ("perm", "zlm", "tri", "spd", "diag", "utri", "symperm"):
        t.append("S:%s" % {"perm": "permutation", "symperm": "permutation", "zlm": "zero-leading-minor", "utri": "zero-leading-minor", "tri": "triangular", "spd": "spd", "diag": "diagonal"}[mat["class"]])
    return t


def _run_validate(ctx, rd, lib, only=None, deferred=None):
    exe = build.build_harness("c12t", ["c12_trace.c"], lib)
    nparts = 4 if ctx.quick else 12
    tier = 0 if ctx.quick else 1
    if only:
        tier, nparts = only[1], 1
        jobs = [[os.path.join(rd, "t0.ndjson"), only[0], tier, 0, 1, only[2]]]
    else:
        jobs = [[os.path.join(rd, "t%d.ndjson" % i), ctx.seed, tier, i, nparts] for i in range(nparts)]
    # odd parts run with ASan's quarantine off, so that a freed container's address is handed out again at once (K7: caches keyed on address)
    san = hrun.SAN_ENV["ASAN_OPTIONS"]

    def one(j):
        return hrun.run(exe, j, timeout=1700, env={"ASAN_OPTIONS": san + (":quarantine_size_mb=0" if j[3] % 2 else "")})
    with ThreadPoolExecutor(6) as ex:
        res = list(ex.map(one, jobs))
    blocks, dropped, crashes, plan = [], 0, 0, None
    for j, h in zip(jobs, res):
        ev = hrun.read_ndjson(j[0])
        if h.rc != 0 or not ev or ev[-1].get("e") != "End" or ev[0].get("e") != "Start":
            if h.timed_out:
                raise InfraError("c12_trace timed out")
            raise InfraError("c12_trace parent died rc=%d (children are isolated, so this is the harness): %s" % (h.rc, h.err[-800:]))
        dropped += ev[-1]["dropped"]
        crashes += ev[-1]["crashes"]
        plan = ev[0]["plan"]
        nproc = ev[0]["nproc"]
        for e in ev:
            e["seed"], e["tier"], e["nproc"] = j[1], tier, nproc
        blocks.append(ev)
    events = [e for b in blocks for e in b]
    kinds = collections.Counter(e["e"] for e in events)
    mats = {}
    cur = None
    per_routine_hist = collections.Counter()
    sized = collections.Counter()
    cover = collections.defaultdict(set)
    for e in events:
        if e["e"] == "Mat":
            cur = e
            if e["q"] == 1 and not (1 <= e["cond"] <= 1000000):
                raise InfraError("c12_trace logged a matrix outside the quantifier as inside: %s" % e)
            ctx.case(("V", e["class"], e["m"], e["n"], min(6, len(str(e["cond"]))), e["lead0"], e["sc"], e["hist"]),
                     e["lead0"] == 1 or e["m"] != e["n"] or e["class"] in ("perm", "zlm", "tri", "utri", "symperm", "repeig") or e["hist"] == 1 or e["sc"] != "p2")
            for tag in _classes_of(e, e["nproc"]):
                ctx.cls(tag)
            cover[e["class"]].add((e["m"], e["n"]))
        elif e["e"] not in ("Reset", "End", "Start"):
            mats[id(e)] = cur
            if cur is not None and cur["hist"]:
                per_routine_hist[e.get("routine")] += 1
            if e.get("reuse") == 1:
                sized[e.get("routine")] += 1
                ctx.cls("K7:sized-stale-output")
            if e["e"] in ("Ols", "Penrose") and cur is not None and not (cur["m"] >= cur["n"] and cur["cond"] <= 1000 and cur["q"] == 1):
                raise InfraError("c12_trace ran %s outside its quantifier (full column rank, cond <= 1e3): %s" % (e["e"], cur))
    vac = []          # vacuity findings: judged after the trace validation (a routine that dies in its child on a changed tree leaves its event kind / class empty)
    if not only:
        for k in EVENT_KINDS:
            if kinds[k] == 0:
                vac.append("validate direction vacuous: no %s event recorded" % k)
        for c in SQUARE_CLASSES:
            sizes = {m for m, n in cover[c]}
            need = 6 if c == "intsmall" else (5 if c == "offset" else 9)       # (a size is missed only if all three sweeps drew cond > 1e6)
            if len(sizes) < need:
                vac.append("class %s reached only the sizes %s" % (c, sorted(sizes)))
        for shape_class in ("tall", "wide"):
            if len(cover[shape_class]) < 60:
                vac.append("only %d distinct %s shapes recorded" % (len(cover[shape_class]), shape_class))
        for want in ((12, 1), (2, 1), (12, 11)):
            if want not in cover["tall"] or (want[1], want[0]) not in cover["wide"]:
                vac.append("rectangular shape %sx%s (or its transpose) missing" % want)
        for rt in HIST_ROUTINES:
            if per_routine_hist[rt] < 8:
                vac.append("history blocks of %s recorded only %d calls" % (rt, per_routine_hist[rt]))
        if not cover["rankdef"]:
            vac.append("no rank-deficient SVD input recorded")
        if not any(e.get("routine") == "MatrixPseudoinversion" for e in events):
            vac.append("no MatrixPseudoinversion call recorded")
    if not only:
        pass
    elif not any(e["e"] not in ("Reset", "End", "Start") for e in events):
        raise InfraError("replay: the recording no longer contains that plan item")
    for e in events:
        if e["e"] == "Mat" and (e["class"] in ("zlm", "tall") and e["n"] >= 3 or e["hist"]):
            ctx.sample(dict(direction="validate", **{k: v for k, v in e.items() if k != "A"}), 6)

    bad_sigs = set()

    def on_reject(ev, idx, block):
        mat = mats.get(id(ev))
        if ev["e"] in ("Mat", "Start"):
            raise InfraError("%s event rejected (outside the quantifier?): %s" % (ev["e"], ev))
        sig = _sig_trace(ev, mat)
        what = "%s on a %s matrix %sx%s (cond %s, generator class %s, scale %s, %s, output %s): recorded %s violates the bound / exact check of TraceLinAlg" % (
            ev.get("routine"), ev.get("shape", "square"), mat and mat["m"], mat and mat["n"], mat and mat["cond"], mat and mat["class"], mat and mat["sc"],
            "history block (one process, shared outputs)" if mat and mat["hist"] else "single call", {0: "fresh", 1: "already sized, stale numbers", 2: "left by the previous call"}.get(ev.get("reuse", 0)),
            {k: v for k, v in ev.items() if k not in ("seed", "tier", "nproc")})
        if ev.get("routine") == "MatrixPseudoinversion":
            # the SVD-based pseudo-inverse is named in the anchors only (it sits on the internal SVD, a known finding): reported, never a verdict
            bad_sigs.add(sig)
            ctx.extra(sig.replace("LINALG:", "LINALG-EXTRA:"), what)
            return lambda e: e.get("routine") == "MatrixPseudoinversion" and _sig_trace(e, mats.get(id(e))) == sig
        if mat is not None and mat["q"] == 0:
            # rank-deficient input: the statement says "every matrix", the quantifier bounds the condition number: reported, never a verdict
            bad_sigs.add(sig)
            ctx.extra(sig.replace("LINALG:", "LINALG-RANKDEF:"), what)
            return lambda e: e["e"] not in ("Reset", "Mat", "End", "Start") and mats.get(id(e)) is not None and mats[id(e)]["q"] == 0 and _sig_trace(e, mats[id(e)]) == sig
        bad_sigs.add(sig)
        ctx.violation(sig, what, dict(kind="trace", seed=ev.get("seed"), tier=ev.get("tier"), item=ev.get("id"), event=ev, matrix=mat))
        return lambda e: e["e"] not in ("Reset", "Mat", "End", "Start") and _sig_trace(e, mats.get(id(e))) == sig and not (mats.get(id(e)) or {}).get("q") == 0

    def val(i):
        sub = _Sub(ctx)
        trace.check_trace(sub, "TraceLinAlg", "Trace_LinAlg.cfg", "Trace_LinAlg_prop.cfg", blocks[i], on_reject, drop="event",
                          label="trace_linalg_%d" % i, timeout=1500, max_rounds=40)
        return sub
    with ThreadPoolExecutor(4 if ctx.quick else 6) as ex:
        for sub in ex.map(val, range(len(blocks))):
            sub.merge()
    ctx.traces(kinds["Reset"])
    ctx.steps["validate"] = dict(plan_items=plan, matrices=kinds["Mat"], events=len(events), dropped_outside_quantifier=dropped, child_crashes=crashes,
                                 per_event={k: v for k, v in kinds.items()}, history_calls=dict(per_routine_hist), calls_into_sized_stale_outputs=dict(sized),
                                 shapes_per_class={k: len(v) for k, v in sorted(cover.items())})
    if vac:
        if deferred is None:
            raise InfraError("; ".join(vac[:4]))
        for m in vac:
            deferred.add(m)
    if not only and not deferred:
        _binding_selftests(ctx, events, mats, bad_sigs)


def _binding_selftests(ctx, events, mats, bad_sigs):
    """corrupt ONE recorded field of each event kind / layer: TLC must reject (the trace spec is bound to what the harness logs).
    Each test runs on the minimal trace Reset, Mat, event taken from an event the main validation ACCEPTED."""
    def window(kind, pred=lambda e: True):
        for e in events:
            if e["e"] == kind and pred(e):
                if kind == "Mat":
                    return [dict(e="Reset", id=e["id"], hist=0), e]
                mat = mats.get(id(e))
                if mat is None or mat["q"] != 1 or _sig_trace(e, mat) in bad_sigs or (kind == "Svd" and e.get("routine") == "SVD"):
                    continue
                return [dict(e="Reset", id=e["id"], hist=0), mat, e]
        raise InfraError("binding self-test: no accepted %s event in the recording" % kind)

    def setter(kind, field, fn, pred=lambda e: True):
        def corrupt(ev):
            for e in ev:
                if e["e"] == kind and pred(e):
                    e[field] = fn(e[field])
                    return True
            return False
        return corrupt
    big = lambda v: min(2000000000, (v + 1) * 1000000)

    def bump_cell(M):
        M = [list(r) for r in M]
        M[0][0] += 1
        return M
    tests = [
        ("binding_inv", "Inv", "r", big, None), ("binding_invint", "InvInt", "inv", bump_cell, None), ("binding_invint_input", "InvInt", "A", bump_cell, None),
        ("binding_det", "Det", "r", big, None), ("binding_detint", "DetInt", "det", lambda v: v + 1, None), ("binding_detint_ok", "DetInt", "ok", lambda v: 0, None),
        ("binding_detmul", "DetMul", "r", big, None), ("binding_detmulint", "DetMulInt", "dp", lambda v: v + 1, None), ("binding_detmulint_db", "DetMulInt", "db", lambda v: v + 1, None),
        ("binding_solve_rb", "Solve", "rb", big, None), ("binding_solve_rf", "Solve", "rf", lambda v: 2000000000, None),
        ("binding_ols", "Ols", "r", lambda v: 2000000000, None), ("binding_penrose", "Penrose", "r3", lambda v: 2000000000, None),
        ("binding_eig", "Eig", "r", big, None), ("binding_eig_nz", "Eig", "nz", lambda v: 0, None),
        ("binding_svd_recon", "Svd", "recon", big, None), ("binding_svd_sv", "Svd", "sv", big, None), ("binding_svd_sig", "Svd", "sig", lambda v: 0, None), ("binding_svd_shp", "Svd", "shp", lambda v: 0, None),
        ("binding_mat_cond", "Mat", "cond", lambda v: 1000001, lambda e: e["q"] == 1), ("binding_mat_size", "Mat", "m", lambda v: 13, None),
    ]
    impl_tests = [("binding_impl_eig_trace", "Eig", "tr", big), ("binding_impl_svd_orth", "Svd", "orth", big), ("binding_impl_svd_dims", "Svd", "dims", lambda v: [v[0], v[1] + 1, v[2] + 1, v[3], v[4], v[5]])]

    def run_one(t):
        label, kind, field, fn, pred = t
        pred = pred or (lambda e: True)
        sub = _Sub(ctx)
        trace.binding_selftest(sub, "TraceLinAlg", "Trace_LinAlg_prop.cfg", window(kind, pred), setter(kind, field, fn, pred), label)
        return sub

    def run_impl(t):
        # Impl-layer fields: rejected with the Impl layer on, ACCEPTED by the Prop layer (so a refactoring there is SPEC-DRIFT, not an alarm)
        label, kind, field, fn = t
        sub = _Sub(ctx)
        w = window(kind)
        trace.binding_selftest(sub, "TraceLinAlg", "Trace_LinAlg.cfg", w, setter(kind, field, fn), label)
        import copy
        ev = copy.deepcopy(w)
        setter(kind, field, fn)(ev)
        ok, n, r = tlc.validate_trace("TraceLinAlg", "Trace_LinAlg_prop.cfg", ev)
        if not ok:
            raise InfraError("%s: an implementation-layer field is judged by the property layer too" % label)
        sub.steps[label + "_prop_accepts"] = True
        return sub
    if ctx.quick:
        # one per new / changed event kind; the thorough tier corrupts every judged field
        keep = ("binding_invint_input", "binding_detint", "binding_detmulint", "binding_solve_rf", "binding_eig", "binding_svd_sv", "binding_mat_cond")
        tests = [t for t in tests if t[0] in keep]
        impl_tests = impl_tests[1:2]
    with ThreadPoolExecutor(4) as ex:
        for sub in list(ex.map(run_one, tests)) + list(ex.map(run_impl, impl_tests)):
            sub.merge()
    ctx.steps["binding_selftests"] = len(tests) + len(impl_tests)


class _Sub:
    """thread-local stand-in for ctx so that parallel trace validations do not interleave their bookkeeping"""

    def __init__(self, ctx):
        self.ctx = ctx
        self.tlc, self.drifts, self.notes, self.steps = [], [], [], {}

    def add_tlc(self, r, label=None):
        self.tlc.append((r, label))

    def spec_drift(self, what):
        self.drifts.append(what)

    def note(self, msg):
        self.notes.append(msg)

    def merge(self):
        for r, label in self.tlc:
            self.ctx.add_tlc(r, label)
        for w in self.drifts:
            self.ctx.spec_drift(w)
        for m in self.notes:
            self.ctx.note(m)
        self.ctx.steps.update(self.steps)


def run(ctx):
    ctx.assumptions += [
        "TLC and its CommunityModules evaluate the rational / integer arithmetic of Rat.tla/LinAlg.tla exactly (32-bit overflow raises an error, never wraps; the harness only emits integer events whose Bareiss intermediates stay below 1e9)",
        "replay scope (model_checking part): all 1x1 and 2x2 over -2..2, all 3x3 over {0,1}, all 3x3/4x4 permutation, unit triangular 0/1 and permutation x unit-triangular 0/1 matrices, 3x3 diagonal over {-2,-1,1,2,3}, 3x3 L D L' and 4x4 L L' SPD, 3x3 triangular with diagonal in {-1,2}, all symmetric 3x3 over -1..1, one residue class (of 4) of the 4x4 diagonal and 5x5 permutation matrices%s; each at scale 1 and 2^-14, every third at 2^-34 and 2^30, every third at one of 0.1, 1/3, 1e-6, 1e6; comparison in double by the C driver with tolerance 1e-9*cond (cond from the exact inverse)" % ("" if ctx.quick else " - thorough: every residue class, and all 262,144 3x3 over -1..2 (16 residue classes)"),
        "LEDGER part (EVectEval, SVD, SVDlapack and all sizes 6..12): stratified generated matrices; the residuals of the defining equations are computed by the harness in double precision and only their quantised values and the exact integer cross-checks are decided by TLC",
        "bounds: TolAlg 1e-8 relative to |A| (hence identical at every scale); inverse and forward solve error scaled by max(1, cond/1e2); least squares and Penrose residuals by max(1, cond^2/1e4) with cond <= 1e3; determinant compared with the product of dgetrf pivots relative to prod_i |row_i|_1 (a-priori error scale of the cofactor expansion); singular values against dgesvd relative to sigma_max",
        "condition numbers, singular values and reference determinants come from LAPACK dgesvd/dgetrf called directly by the harness; matrices with cond > 1e6 are dropped and counted, not judged",
        "each block of the ledger runs in a forked child that publishes the call it is executing: a sanitizer abort, signal or watchdog is a Crash event attributed to that call, the block is resumed after it",
        "an output object that is already sized and holds other numbers (or the previous call's result) is an admissible argument: every routine resizes / overwrites its outputs itself",
    ]
    rd = tlc.rundir()
    try:
        lib = build.build_lib("san")
        deferred = Deferred(ctx)
        _run_model_and_replay(ctx, rd, lib, deferred)
        _run_validate(ctx, rd, lib, deferred=deferred)
        ctx.cov["rule"] = ("replay: a case is one enumerated matrix run through the six routines at two scales; distinct key = (family, n, singular?, no-exchange "
                           "elimination defined?, pre-pass elimination defined?, leading zero); non-trivial = a pivot is 0 without exchange, or singular.  "
                           "ledger: a case is one generated matrix; key = (class, rows, cols, cond decade, leading zero, scale mode, history?); non-trivial = leading zero, "
                           "rectangular, permutation / zero-leading-minor / triangular / repeated-eigenvalue class, history block, scale 1e-6 / 1e6")
        ctx.cov["exhaustive"] = True
        deferred.settle()
    finally:
        shutil.rmtree(rd, ignore_errors=True)


def replay(ctx, body):
    case = body.get("case") or {}
    lib = build.build_lib("san")
    rd = tlc.rundir()
    try:
        if case.get("kind") == "case":
            exe = build.build_harness("c12r", ["c12_replay.c"], lib)
            fails, n = _replay_cases(ctx, exe, rd, "replay", [case["case"]])
            ctx.case(("replay", body.get("signature")), True)
            ctx.case(("replay2", body.get("signature")), True)
            ctx.sample(case["case"])
            ctx.note("replayed 1 matrix: %d failed comparisons" % len(fails))
        elif case.get("kind") == "trace" and "item" in case:
            _run_validate(ctx, rd, lib, only=(case["seed"], case.get("tier", 0), case["item"]))
            ctx.case(("replay2", body.get("signature")), True)
        else:
            run(ctx)
    finally:
        shutil.rmtree(rd, ignore_errors=True)
