"""C12 - linear solvers, inverses and factorisations satisfy their defining equations.

(M)  spec/LinAlg.tla over spec/Rat.tla: exact Inverse / Det (Gauss-Jordan with row exchange AND Laplace expansion, TLC checks they
     agree and Det(AB) = Det(A)Det(B)) / Solve / LeastSquares / PseudoInverse over the rationals, with the theorems A A^-1 = I,
     A x = b, normal equations, four Penrose conditions checked on every enumerated matrix; plus models of the library's two
     elimination schemes on the zero pattern (NoPivotOK = MatrixInversion, PrePivotOK = SolveLSE, constant Pivoting): TLC shows
     that without exchange a non-singular matrix exists whose elimination divides by zero, and that the repaired scheme is total.
(GEN/replay, mode 2)  TLC enumerates all 1x1/2x2 over -2..2, all 3x3 over {0,1}, all 3x3/4x4 permutation, unit-triangular and
     permuted-triangular 0/1 matrices (thorough: all 262,144 3x3 over -1..2, by residue classes) and prints each with its exact
     determinant, inverse, solution, least-squares coefficients and pseudo-inverse; harness/c12_replay.c runs the six routines of the
     library on every case (at scale 1 and 2^-14) and compares with the rationals (1e-9 * cond).
(V)  variant agreement: the model's counterexample is looked up among the replayed cases: a violation is only reported with the failing
     run of the real library.
(validate, EXPLORATION part)  harness/c12_trace.c: generated matrices 1..12 (cond <= 1e6; SPD, diagonal, permutation, zero leading
     minors, triangular, structured, rectangular), each routine call in a child process, residuals of the defining equations quantised
     and checked by TLC against spec/TraceLinAlg.tla (bounds relative to |A|, scaled by cond; integer cases exactly).
"""
import os, re, shutil, collections
from concurrent.futures import ThreadPoolExecutor
from vf import build, tlc, trace
from vf import run as hrun
from vf.core import InfraError

LEVEL = "model_checking"
READY = True
TECHNIQUE = ("TLC as exact rational oracle (LinAlg.tla: inverse, determinant by elimination and by Laplace expansion, solve, least squares, "
             "pseudo-inverse; pivot case analysis of the library's two elimination schemes) with every enumerated small matrix replayed through the "
             "real routines; plus TLC trace validation (TraceLinAlg.tla) of quantised residuals of inversion / determinant / solve / Penrose / eigen / SVD "
             "on generated matrices up to 12x12, each library call isolated in a child process under ASan/UBSan")
LEVEL_TEXT = ("Inverse, determinant, linear-system, least-squares and pseudo-inverse routines are compared with exact rational results computed by "
              "TLC for every matrix of the enumerated small scope (exhaustive over the stated families), and the pivoting case analysis is "
              "model-checked; the eigen-decomposition / SVD part and the sizes up to 12 are EXPLORATION: sampled matrices whose residuals, computed by "
              "the harness in double precision, are validated by TLC against tolerance bounds.")
LEVEL_NOTE = ("model_checking applies to MatrixInversion, MatrixLUInversion, MatrixDeterminant, SolveLSE, OrdinaryLeastSquares, "
              "MatrixMoorePenrosePseudoinverse on the small exhaustive scope (TLC oracle). EVectEval, SVD, SVDlapack and every size above 4 are "
              "exploration: residual evaluation and quantisation are trusted harness code, LAPACK dgesdd/dgetrf called directly are independent "
              "oracles for cond and det. Trusts TLC, ASan/UBSan.")

SMALL = ["all1", "all2", "bin3", "perm3", "perm4", "tri3", "tri4", "ptri3"]


def _case_line(i, e):
    L = [i, e["n"], e["ns"], e["det"]]
    for row in e["A"]:
        L += row
    if e["ns"]:
        for row in e["inv"]:
            for q in row:
                L += q
        L += e["b"]
        for q in e["x"]:
            L += q
        for row in e["X"]:
            L += row
        L += e["y"]
        for q in e["beta"]:
            L += q
        for row in e["pinv"]:
            for q in row:
                L += q
    return " ".join(str(x) for x in L)


def _sig_replay(routine, exp, c):
    """failure class from the TLC-computed zero-pattern facts of the case"""
    if routine in ("MatrixInversion", "OrdinaryLeastSquares"):
        if routine == "MatrixInversion" and not c["nopiv"]:
            return "LINALG:%s:%s" % (routine, "zero-pivot" if c["lead0"] else "mid-pivot")
        return "LINALG:%s:accuracy" % routine
    if routine == "SolveLSE":
        if exp == 0 and not c["prepiv"]:
            return "LINALG:SolveLSE:mid-pivot"          # zero pivot appears during (or is created by the pre-pass of) the elimination
        return "LINALG:SolveLSE:accuracy"
    if routine == "MatrixMoorePenrosePseudoinverse":
        return "LINALG:%s:%s" % (routine, "rect-tall" if exp == 0 else "accuracy")
    return "LINALG:%s:square" % routine


def _gen_cfg(rd, name, fams, mod, res, inv=("Theorems",)):
    return tlc.write_cfg(os.path.join(rd, name), spec="Spec", constants=dict(Families=set(fams), Pivoting=True, Mod=mod, Res=res),
                         invariants=list(inv), constraints=["Emit"], deadlock=False)


def _replay_cases(ctx, exe, rd, tag, cases):
    cf = os.path.join(rd, "cases_%s.txt" % tag)
    with open(cf, "w") as fh:
        for i, e in enumerate(cases):
            fh.write(_case_line(i, e) + "\n")
    fails, start, nruns, rounds = [], 0, 0, 0
    while True:
        of = os.path.join(rd, "out_%s_%d.ndjson" % (tag, rounds))
        h = hrun.run(exe, [cf, of, start], timeout=1500)
        ev = hrun.read_ndjson(of)
        if h.timed_out:
            raise InfraError("c12_replay timed out on %s" % tag)
        fails += [e for e in ev if e.get("e") == "Fail"]
        done = [e for e in ev if e.get("e") == "Done"]
        if done:
            nruns += done[0]["runs"]
            break
        crash = [e for e in ev if e.get("e") == "Crash"]
        if not crash:
            raise InfraError("c12_replay died rc=%d without Done/Crash line on %s: %s" % (h.rc, tag, h.err[-800:]))
        cr = crash[0]
        c = cases[cr["id"]]
        ctx.violation("LINALG:%s:square-crash" % cr["routine"], "%s on A=%s * 2^-%d: process died (%s)\n%s" % (cr["routine"], c["A"], cr["exp"], h.san or "rc=%d" % h.rc, h.err[:1200]),
                      dict(kind="case", case=c, routine=cr["routine"], exp=cr["exp"]))
        start = cr["id"] + 1
        rounds += 1
        if rounds > 20:
            raise InfraError("c12_replay keeps crashing on %s" % tag)
    for f in fails:
        c = cases[f["id"]]
        ctx.violation(_sig_replay(f["routine"], f["exp"], c), "%s on A=%s * 2^-%d: entry (%d,%d) is %s, exact %s (nopivot-ok=%s prepivot-ok=%s leading-zero=%s)" % (
            f["routine"], c["A"], f["exp"], f["i"], f["j"], f["got"], f["want"], c.get("nopiv"), c.get("prepiv"), c.get("lead0")),
            dict(kind="case", case=c, routine=f["routine"], exp=f["exp"]))
    return fails, nruns


def _parse_witness(text):
    m = re.search(r"A = (<<.*>>)", text)
    if not m:
        return None
    return eval(m.group(1).replace("<<", "[").replace(">>", "]"))


def _run_model_and_replay(ctx, rd, lib):
    exe = build.build_harness("c12r", ["c12_replay.c"], lib)
    s = ctx.seed
    plan = [("gen_small", _gen_cfg(rd, "g_small.cfg", SMALL, 1, 0))]
    plan += [("gen_ptri4_%d" % i, _gen_cfg(rd, "g_p4_%d.cfg" % i, ["ptri4"], 4, i)) for i in range(4)]
    if not ctx.quick:
        # all 262,144 3x3 matrices over -1..2 in 16 residue classes (exhaustive together); the heavier least-squares / Penrose theorems
        # are checked on the other families, here the determinant, inverse and solve laws
        plan += [("gen_all3_%d" % i, _gen_cfg(rd, "g_a3_%d.cfg" % i, ["all3"], 16, i, inv=("DetAgree", "DetMul", "InverseLaw", "SolveLaw"))) for i in range(16)]
    mc = [("mc_linalg", "MC_LinAlg_quick.cfg" if ctx.quick else "MC_LinAlg_thorough.cfg"), ("mc_nopivot", "MC_LinAlg_nopivot.cfg"), ("mc_prepivot", "MC_LinAlg_prepivot.cfg")]

    def one(item):
        label, cfg = item
        return label, tlc.run("LinAlg", cfg, workers=1, timeout=1700, coverage=False, xmx="3g")
    allfails = []
    stats = collections.Counter()
    lookup = {}
    mcres = {}
    with ThreadPoolExecutor(6) as ex:
        futs = [ex.submit(one, it) for it in mc]
        for label, r in ex.map(one, plan):
            ctx.add_tlc(r, label)
            if not r.ok:
                raise InfraError("LinAlg.tla: %s fails in the model itself (%s):\n%s" % (r.violation, label, r.trace_text[:1500]))
            if len(r.emits) != r.distinct or r.distinct == 0:
                raise InfraError("GEN %s: %d emitted cases for %d states" % (label, len(r.emits), r.distinct))
            cases = r.emits
            fails, nruns = _replay_cases(ctx, exe, rd, label, cases)
            failed = collections.defaultdict(set)
            for f in fails:
                failed[f["id"]].add((f["routine"], f["exp"]))
            for i, c in enumerate(cases):
                zp = bool(c["ns"]) and not c["nopiv"]
                ctx.case(("R", c["fam"], c["n"], c["ns"], c.get("nopiv"), c.get("prepiv"), c.get("lead0")), zp or not c["ns"])
                stats["cases"] += 1
                stats["runs"] = stats["runs"] + 2
                if c["ns"]:
                    stats["nonsingular"] += 1
                    stats["nopiv0"] += 0 if c["nopiv"] else 1
                    stats["prepiv0"] += 0 if c["prepiv"] else 1
                    # (V) does the real code behave like the no-exchange / pre-pass model?
                    fi = ("MatrixInversion", 0) in failed[i]
                    fs = ("SolveLSE", 0) in failed[i]
                    stats["inv_fail_nopiv0" if not c["nopiv"] else "inv_fail_nopiv1"] += 1 if fi else 0
                    stats["lse_fail_prepiv0" if not c["prepiv"] else "lse_fail_prepiv1"] += 1 if fs else 0
                    lookup[str(c["A"])] = (fi, fs)
            for c in cases:
                if c["ns"] and not c["nopiv"]:
                    ctx.sample(dict(direction="replay", A=c["A"], det=c["det"], inv=c["inv"], nopivot_ok=c["nopiv"], prepivot_ok=c["prepiv"]), 3)
                    break
            allfails += fails
            ctx.note("%s: %d matrices from TLC (%.0fs), %d failed comparisons" % (label, len(cases), r.wall, len(fails)))
            r.emits = None
            r.out = ""
        for f in futs:
            label, r = f.result()
            ctx.add_tlc(r, label)
            mcres[label] = r
    # (M) the repaired variant is total and all theorems hold
    r = mcres["mc_linalg"]
    if not r.ok:
        raise InfraError("LinAlg.tla (Pivoting = TRUE): %s fails in the model itself:\n%s" % (r.violation, r.trace_text[:1500]))
    # (M) the no-exchange variants are NOT total: TLC must produce the counterexample, (V) looks it up in the real runs
    variant = {}
    for label, routine, idx in (("mc_nopivot", "MatrixInversion", 0), ("mc_prepivot", "SolveLSE", 1)):
        r = mcres[label]
        if r.ok:
            raise InfraError("%s: the model without row exchange no longer has a counterexample (spec lost its teeth)" % label)
        w = _parse_witness(r.trace_text)
        real = lookup.get(str(w))
        variant[routine] = dict(model_counterexample=w, real_code_fails_on_it=None if real is None else bool(real[idx]))
        ctx.note("model (%s, Pivoting = FALSE): elimination undefined on non-singular A = %s; real %s on it: %s" % (
            label, w, routine, "not replayed" if real is None else ("FAILS" if real[idx] else "correct")))
    variant["MatrixInversion"]["inferred"] = "no-exchange" if stats["inv_fail_nopiv0"] > 0 else "pivoting"
    variant["SolveLSE"]["inferred"] = "pre-pass-only" if stats["lse_fail_prepiv0"] > 0 else "pivoting"
    for k in ("nonsingular", "nopiv0", "prepiv0"):
        if stats[k] == 0:
            raise InfraError("replay direction vacuous: no case of kind %s" % k)
    ctx.steps["replay"] = dict(stats)
    ctx.steps["variant_agreement"] = variant


def _needs_exchange(mat):
    """labelling only (never a verdict): does plain elimination without row exchange meet a zero pivot on this integer matrix?"""
    A = mat.get("A")
    if not A:
        return False
    from fractions import Fraction
    M = [[Fraction(x) for x in row] for row in A]
    n = len(M)
    for k in range(n):
        if M[k][k] == 0:
            return True
        for i in range(n):
            if i != k and M[i][k] != 0:
                f = M[i][k] / M[k][k]
                M[i] = [a - f * b for a, b in zip(M[i], M[k])]
    return False


def _sig_trace(ev, mat):
    e = ev["e"]
    rt = ev.get("routine", "?")
    if e == "Crash":
        return "LINALG:%s:%s-crash" % (rt, ev.get("shape", "square"))
    if e == "Svd":
        what = "shape" if not ev["shp"] else ("sigma" if not ev["sig"] else "recon")
        return "LINALG:%s:%s-%s" % (rt, ev["shape"], what)
    if e in ("Inv", "InvInt"):
        return "LINALG:%s:%s" % (rt, "zero-pivot" if mat and mat.get("lead0") else ("mid-pivot" if mat and _needs_exchange(mat) else "accuracy"))
    if e == "Solve":
        return "LINALG:SolveLSE:%s" % ("zero-pivot" if mat and mat.get("lead0") else ("mid-pivot" if mat and (mat.get("class") == "zlm" or _needs_exchange(mat)) else "accuracy"))
    if e in ("Det", "DetInt", "DetMul"):
        return "LINALG:MatrixDeterminant:square"
    if e == "Ols":
        return "LINALG:OrdinaryLeastSquares:rect-tall"
    if e == "Penrose":
        return "LINALG:MatrixMoorePenrosePseudoinverse:%s" % ev.get("shape", "square")
    if e == "Eig":
        return "LINALG:EVectEval:square"
    return "LINALG:trace:%s" % e


def _run_validate(ctx, rd, lib, only=None):
    exe = build.build_harness("c12t", ["c12_trace.c"], lib)
    nproc, nmat = (4, 108) if ctx.quick else (12, 648)
    jobs = [[os.path.join(rd, "t%d.ndjson" % i), ctx.seed + 977 * i, nmat] for i in range(nproc)]
    if only:
        jobs = [[os.path.join(rd, "t0.ndjson"), only[0], only[1]]]
    res = hrun.run_many(exe, jobs, timeout=1700, workers=6)
    blocks, dropped = [], 0
    for j, h in zip(jobs, res):
        ev = hrun.read_ndjson(j[0])
        if h.rc != 0 or not ev or ev[-1].get("e") != "End":
            if h.timed_out:
                raise InfraError("c12_trace timed out")
            raise InfraError("c12_trace parent died rc=%d (children are isolated, so this is the harness): %s" % (h.rc, h.err[-800:]))
        dropped += ev[-1]["dropped"]
        if only:
            ev = [e for e in ev if e.get("id") == only[2]]
        for e in ev:
            e["seed"], e["nmat"] = j[1], j[2]
        blocks.append(ev)
    events = [e for b in blocks for e in b]
    kinds = collections.Counter(e["e"] for e in events)
    if not only:
        for k in ("Mat", "Inv", "InvInt", "Det", "DetInt", "DetMul", "Solve", "Ols", "Penrose", "Eig", "Svd"):
            if kinds[k] == 0:
                raise InfraError("validate direction vacuous: no %s event recorded" % k)
    elif not events:
        raise InfraError("replay: the recording no longer contains that matrix")
    mats = {}
    cur = None
    for e in events:
        if e["e"] == "Mat":
            cur = e
            if not (1 <= e["cond"] <= 1000000):
                raise InfraError("c12_trace logged a matrix outside the quantifier: %s" % e)
            ctx.case(("V", e["class"], e["m"], e["n"], min(6, len(str(e["cond"]))), e["lead0"]), e["lead0"] == 1 or e["m"] != e["n"] or e["class"] in ("perm", "zlm", "tri"))
        elif e["e"] not in ("Reset", "End"):
            mats[id(e)] = cur
    for e in events:
        if e["e"] == "Mat" and e["class"] in ("zlm", "tall") and e["n"] >= 3:
            ctx.sample(dict(direction="validate", **e), 6)

    def on_reject(ev, idx, block):
        mat = mats.get(id(ev))
        if ev["e"] == "Mat":
            raise InfraError("Mat event rejected (outside the quantifier?): %s" % ev)
        sig = _sig_trace(ev, mat)
        ctx.violation(sig, "%s on a %s matrix %sx%s (cond %s, generator class %s): recorded %s violates the bound / exact check of TraceLinAlg" % (
            ev.get("routine"), ev.get("shape", "square"), mat and mat["m"], mat and mat["n"], mat and mat["cond"], mat and mat["class"], {k: v for k, v in ev.items() if k not in ("seed", "nmat")}),
            dict(kind="trace", seed=ev.get("seed"), nmat=ev.get("nmat"), id=ev.get("id"), event=ev, matrix=mat))
        return lambda e: e["e"] not in ("Reset", "Mat", "End") and _sig_trace(e, mats.get(id(e))) == sig

    def val(i):
        sub = _Sub(ctx)
        trace.check_trace(sub, "TraceLinAlg", "Trace_LinAlg.cfg", "Trace_LinAlg_prop.cfg", blocks[i], on_reject, drop="event",
                          label="trace_linalg_%d" % i, timeout=1500, max_rounds=30)
        return sub
    with ThreadPoolExecutor(4 if ctx.quick else 6) as ex:
        for sub in ex.map(val, range(len(blocks))):
            sub.merge()
    ctx.traces(kinds["Reset"])
    ctx.steps["validate_exploration"] = dict(matrices=kinds["Mat"], events=len(events), dropped_outside_quantifier=dropped,
                                             per_event={k: v for k, v in kinds.items()})
    if not ctx.quick and not only:
        def corrupt(ev):
            for e in ev:
                if e["e"] == "Inv":
                    e["r"] = min(2000000000, (e["r"] + 1) * 1000000)
                    return True
            return False
        trace.binding_selftest(ctx, "TraceLinAlg", "Trace_LinAlg_prop.cfg", [e for e in blocks[0] if e["e"] in ("Reset", "Mat", "Inv")][:60], corrupt, "binding_inv")

        def corrupt2(ev):
            for e in ev:
                if e["e"] == "DetInt":
                    e["det"] += 1
                    return True
            return False
        trace.binding_selftest(ctx, "TraceLinAlg", "Trace_LinAlg_prop.cfg", [e for e in blocks[0] if e["e"] in ("Reset", "Mat", "DetInt")][:200], corrupt2, "binding_detint")


class _Sub:
    """thread-local stand-in for ctx so that parallel trace validations do not interleave their bookkeeping"""

    def __init__(self, ctx):
        self.ctx = ctx
        self.tlc, self.drifts, self.notes = [], [], []

    def add_tlc(self, r, label=None):
        self.tlc.append((r, label))

    def spec_drift(self, what):
        self.drifts.append(what)

    def note(self, msg):
        self.notes.append(msg)

    def merge(self):
        for r, label in self.tlc:
            self.ctx.add_tlc(r, label)
        for w in self.drifts:
            self.ctx.spec_drift(w)
        for m in self.notes:
            self.ctx.note(m)


def run(ctx):
    ctx.assumptions += [
        "TLC and its CommunityModules evaluate the rational arithmetic of Rat.tla/LinAlg.tla exactly (32-bit overflow raises an error, never wraps)",
        "replay scope (model_checking part): all 1x1 and 2x2 over -2..2, all 3x3 over {0,1}, all 3x3/4x4 permutation, unit triangular 0/1 and permutation x unit-triangular 0/1 matrices%s; each at scale 1 and 2^-14; comparison in double by the C driver with tolerance 1e-9*cond (cond from the exact inverse)" % ("" if ctx.quick else ", all 262,144 3x3 over -1..2 (16 residue classes)"),
        "EXPLORATION part (EVectEval, SVD, SVDlapack and all sizes 5..12): sampled matrices; the residuals of the defining equations are computed by the harness in double precision and only their quantised values and the cross-checks on integer cases are decided by TLC",
        "bounds: TolAlg 1e-8 relative to |A|; inverse and forward solve error scaled by max(1, cond/1e2); least squares and Penrose residuals by max(1, cond^2/1e4) with cond <= 1e3; determinant compared with the product of dgetrf pivots relative to prod_i |row_i|_1 (a-priori error scale of the cofactor expansion)",
        "condition numbers and reference determinants come from LAPACK dgesdd/dgetrf called directly by the harness; matrices with cond > 1e6 are dropped and counted, not judged",
        "each library call of the exploration part runs in a forked child: a sanitizer abort, signal or watchdog is a Crash event attributed to that call",
    ]
    rd = tlc.rundir()
    try:
        lib = build.build_lib("san")
        _run_model_and_replay(ctx, rd, lib)
        _run_validate(ctx, rd, lib)
        ctx.cov["rule"] = ("replay: a case is one enumerated matrix run through the six routines at two scales; distinct key = (family, n, singular?, no-exchange "
                           "elimination defined?, pre-pass elimination defined?, leading zero); non-trivial = a pivot is 0 without exchange, or singular.  "
                           "exploration: a case is one generated matrix; key = (class, rows, cols, cond decade, leading zero); non-trivial = leading zero, "
                           "rectangular, permutation / zero-leading-minor / triangular class")
        ctx.cov["exhaustive"] = True
    finally:
        shutil.rmtree(rd, ignore_errors=True)


def replay(ctx, body):
    case = body.get("case") or {}
    lib = build.build_lib("san")
    rd = tlc.rundir()
    try:
        if case.get("kind") == "case":
            exe = build.build_harness("c12r", ["c12_replay.c"], lib)
            fails, n = _replay_cases(ctx, exe, rd, "replay", [case["case"]])
            ctx.case(("replay", body.get("signature")), True)
            ctx.case(("replay2", body.get("signature")), True)
            ctx.sample(case["case"])
            ctx.note("replayed 1 matrix: %d failed comparisons" % len(fails))
        elif case.get("kind") == "trace":
            _run_validate(ctx, rd, lib, only=(case["seed"], case["nmat"], case.get("id", 0)))
            ctx.case(("replay2", body.get("signature")), True)
        else:
            run(ctx)
    finally:
        shutil.rmtree(rd, ignore_errors=True)
