"""C06 - validation results are deterministic under every thread schedule and count.

(M)  Rng.tla: workers seed, then draw; a draw is the code's two steps (read the word, write Gen(word) back, re-reading it).
     All interleavings for 2 workers x 2 draws and 3 workers x 1 draw.  With one word per thread StreamIsolation holds;
     with the single global word TLC finds the 4-state counterexample (B seeds, A seeds, B reads A's word).
     CvOrch.tla (shared with C05): merged seed offsets and merge order are independent of the thread count when it
     divides the iteration count.
(C)  GEN: TLC emits every complete schedule word of the model.  c06_drv forces each word onto the real worker threads of
     BootstrapRandomGroupsCV (PLS / MLR / LDA) through the hook-H1 gate (a worker's first 2K+1 generator steps wait for its
     letter), records every store to / copy out of the generator word with the real values, and the result hash.
     TLC validates the recording against TraceRng.tla: every value a thread reads is the value that thread wrote last,
     and the result equals the sequential run bit for bit.  Also: the y-scrambling pipeline with all RNG events of all
     threads (the calling thread draws between worker batches), and bit-identity across thread counts (bootstrap: dividing
     counts; LOO; k-fold).
"""
import os, random, shutil
from vf import build, tlc, trace
from vf import run as hrun
from vf.core import InfraError

LEVEL = "model_checking"
READY = True
TECHNIQUE = ("TLC model checking of Rng.tla (all interleavings of seed/read/write steps, per-thread vs global word) + every TLC-generated schedule word "
             "forced onto the real CV worker threads through the hook-H1 gate, recorded word values and result hashes validated by TLC (TraceRng.tla)")
LEVEL_TEXT = ("All interleavings of the generator steps are explored in the model for 2 workers x 2 draws and 3 workers x 1 draw; every complete schedule "
              "word TLC generates is then forced deterministically onto the real threads, so a stream shared between workers is exposed on the first schedule "
              "that lets one worker seed between another's seed and first draw - not 1 run in 20. TLC checks stream isolation on the real word values and "
              "bit-identity of the result with the sequential run; y-scrambling and thread-count sweeps are validated by the same trace specification.")
LEVEL_NOTE = ("Trusts TLC and the H1 gate (points before-read / between read and write / after-write of the generator word). Only shared state observed by H1 is "
              "decided; unsynchronised access to other memory is outside this technique (no happens-before detector is used). Schedules are forced for the first "
              "2K+1 generator steps of 2-3 workers; later steps run free (still recorded and validated).")


def _run_info(block):
    for e in block:
        if e.get("e") in ("Run", "Crash"):
            return e
    return {}


def _sig(ev, block):
    run = _run_info(block)
    mode, algo = run.get("mode", "?"), run.get("algo", "?")
    e = ev.get("e")
    if e == "Crash":
        return "RNG:crash:%s:%s:rc%s" % (ev.get("mode"), ev.get("algo"), ev.get("rc")), "run died or hung: %s" % ev
    if e == "Read":
        return "RNG:isolation:%s" % mode.split(":")[0], ("thread %s read generator word %s which it did not write last: the seeded stream of one thread is perturbed by another "
                                                         "(schedule %s, learner %s)" % (ev.get("w"), ev.get("v"), run.get("word"), algo))
    if e == "Result":
        return "RNG:result-differs:%s" % mode.split(":")[0], "result differs from the sequential/reference run (%s, learner %s, schedule %s, threads %s)" % (
            mode, algo, run.get("word"), ev.get("nth", run.get("nw")))
    return "RNG:trace:%s" % e, "unexpected event %s in %s" % (ev, run)


def run(ctx):
    q = ctx.quick
    ctx.assumptions += [
        "only the generator word (observed by hook H1) is decided; no generic data-race detector is used",
        "the gate forces the first 2K+1 generator steps of each of the first NW worker threads; workers are identified by order of arrival at srand_",
        "results are compared through a 64-bit FNV hash of the prediction matrix bytes (bit-identity)",
        "bootstrap thread counts are restricted to divisors of the iteration count, as the property states (CvOrch.tla shows why)",
    ]
    # (M)
    for cfg, label in [("MC_Rng_TRUE_2.cfg", "mc_rng_perthread_2x2"), ("MC_Rng_TRUE_3.cfg", "mc_rng_perthread_3x1")]:
        r = tlc.run("Rng", cfg, timeout=900)
        ctx.add_tlc(r, label)
        if not r.ok:
            raise InfraError("Rng.tla per-thread variant violates %s in the model:\n%s" % (r.violation, r.trace_text[:1200]))
    rg = tlc.run("Rng", "MC_Rng_FALSE_2.cfg", timeout=900)
    ctx.add_tlc(rg, "mc_rng_global_2x2")
    if rg.ok:
        raise InfraError("Rng.tla global-word variant unexpectedly satisfies StreamIsolation (model no longer discriminates)")
    ctx.steps["mc_rng_global_2x2"]["expected_counterexample"] = rg.violation
    for cfg, label in [("MC_CvOrch_boot.cfg", "mc_orch_boot")]:
        r = tlc.run("CvOrch", cfg, timeout=600)
        ctx.add_tlc(r, label)
        if not r.ok:
            raise InfraError("CvOrch.tla: %s" % r.violation)
    # (GEN) schedule words
    rnd = random.Random(ctx.seed)
    plans = []
    for nw, k, take in ([(2, 1, None), (2, 2, 40), (3, 1, 40)] if q else [(2, 1, None), (2, 2, None), (3, 1, 600)]):
        r = tlc.run("Rng", "GEN_Rng_%d_%d.cfg" % (nw, k), timeout=900, coverage=False)
        ctx.add_tlc(r, "gen_sched_%dx%d" % (nw, k))
        words = sorted(set(tuple(e["sched"]) for e in r.emits))
        if not words:
            raise InfraError("no schedule words generated")
        total = len(words)
        if take and take < len(words):
            rnd.shuffle(words)
            words = words[:take]
        plans.append((nw, k, words, total))
    lib = build.build_lib("plain")
    exe = build.build_harness("c06", ["c06_drv.c"], lib)
    rd = tlc.rundir()
    try:
        jobs = []
        # y-scrambling and thread-count sweeps first: a repeating schedule violation must not hide them
        jobs.append([os.path.join(rd, "y.ndjson"), "yscr", ctx.seed, 2 if q else 8])
        for i in range(1 if q else 4):
            jobs.append([os.path.join(rd, "n%d.ndjson" % i), "counts", ctx.seed + i, 9 if q else 18])
        jobs.append([os.path.join(rd, "st.ndjson"), "stress", ctx.seed + 5, 40 if q else 600])
        for nw, k, words, total in plans:
            chunk = max(1, (len(words) + 5) // 6)
            for ci in range(0, len(words), chunk):
                sf = os.path.join(rd, "s_%d_%d_%d.txt" % (nw, k, ci))
                with open(sf, "w") as f:
                    for w in words[ci:ci + chunk]:
                        f.write(" ".join(map(str, w)) + "\n")
                jobs.append([os.path.join(rd, "t_%d_%d_%d.ndjson" % (nw, k, ci)), "sched", ctx.seed + ci, sf, nw, k])
        res = hrun.run_many(exe, jobs, timeout=2400, workers=10)
        events = []
        for j, h in zip(jobs, res):
            ev = hrun.read_ndjson(j[0])
            if h.rc == 3 or any(e.get("e") == "Stuck" for e in ev):
                raise InfraError("schedule gate got stuck (no verdict): %s" % j[1:])
            if h.rc != 0:
                raise InfraError("c06 harness failed rc=%d %s: %s" % (h.rc, j[1:], h.err[-1200:]))
            events += ev
        if not any(e["e"] == "Read" for e in events):
            raise InfraError("no Read events: hook H1 is not firing (hooks removed or guard off)")
        blocks = tlc.split_blocks(events)
        alternating = 0
        addr_classes = set()
        for b in blocks:
            run_ = _run_info(b)
            word = tuple(run_.get("word", []))
            # non-trivial: some worker seeds between another worker's seed and that worker's first read
            nt = True
            if run_.get("mode") == "sched":
                first = {}
                seeds = {}
                for i, w in enumerate(word):
                    if w not in seeds:
                        seeds[w] = i
                    elif w not in first:
                        first[w] = i
                nt = any(seeds[a] < seeds[b2] < first.get(a, 10 ** 6) for a in seeds for b2 in seeds if a != b2)
                alternating += 1 if nt else 0
            ctx.case((run_.get("mode"), run_.get("algo"), run_.get("n"), word, run_.get("nw")), nt)
            for e in b:
                if e["e"] == "Result" and e.get("addrs"):
                    addr_classes.add(e["addrs"])
        ctx.cov["schedule_words"] = {"%dx%d" % (nw, k): dict(generated=total, forced=len(words)) for nw, k, words, total in plans}
        ctx.cov["exhaustive"] = all(total == len(words) for nw, k, words, total in plans)
        ctx.cov["implemented_variant"] = "perThread" if addr_classes and max(addr_classes) > 1 else "global"
        ctx.cov["rule"] = ("a case is one recorded run: a TLC-generated schedule word forced on the real bootstrap CV (learner cycles PLS/MLR/LDA), a y-scrambling run, or a thread-count "
                           "sweep; non-trivial schedule = some worker seeds between another worker's seed and its first draw (%d such words)" % alternating)
        for b in blocks[:400]:
            run_ = _run_info(b)
            if run_.get("mode") == "sched":
                ctx.sample(dict(run=run_, events=[e for e in b if e["e"] in ("Wrote", "Read")][:8]), 3)

        def on_reject(ev, idx, block):
            sig, what = _sig(ev, block)
            small = [e for e in block if e["e"] != "Wrote" and e["e"] != "Read"] + [e for e in block if e["e"] in ("Wrote", "Read")][:60]
            known = any(v[0] == sig for v in ctx.violations) or sig in ctx.known_hits
            ctx.violation(sig, what, dict(kind="block", run=_run_info(block), event=ev, block=small))
            return "dup" if known else None
        trace.check_trace(ctx, "TraceRng", "Trace_Rng.cfg", "Trace_Rng_prop.cfg", events, on_reject, drop="block", max_rounds=60, label="trace_rng", xmx="8g")
        ctx.traces(len(blocks))

        def corrupt(evs):
            for e in evs:
                if e["e"] == "Read":
                    e["v"] = "12345"
                    return True
            return False
        trace.binding_selftest(ctx, "TraceRng", "Trace_Rng.cfg", blocks[0], corrupt, "binding_read")
    finally:
        shutil.rmtree(rd, ignore_errors=True)


def replay(ctx, body):
    run(ctx)
