"""C06 - validation results are deterministic under every thread schedule and count.

(M)  Rng.tla: every process runs a program over {seed, draw, fork, join}; a draw is the code's two steps (read the word, write
     Gen(word) back, re-reading it); a draw on a word nobody seeded first stores the WALL CLOCK (numeric.c).  Orchestration shapes
     transcribed from the library:  seedDraw (bootstrap CV worker with PLS/MLR/LDA; every routine that seeds and draws on the calling
     thread), reseed (bootstrap CV worker with the EPLS learner: the group generator seeds, then every ensemble member re-seeds through
     train_test_split), forkjoin (y-scrambling: the caller seeds, starts and joins CV workers, then draws its shuffle; KMeans/KMeans++/
     EPLS called directly are the degenerate case with silent workers), unseeded (LeaveOneOut/KFoldCV worker with the EPLS random-subspace
     learner: fresh thread, no srand_).  All interleavings for 2 workers x 2 draws, 3 workers x 1 draw, reseed 2-3 workers, fork/join
     1 + 2.  With one word per thread StreamIsolation and NoClock hold; with the single global word TLC finds the counterexamples
     (B seeds, A seeds, B reads A's word; the caller's draw after the join reads a worker's word); the unseeded shape violates NoClock.
     CvOrch.tla (shared with C05): merged seed offsets and merge order are independent of the thread count when it divides the
     iteration count.
(C)  GEN: TLC emits every complete schedule word of the seedDraw and reseed models, and samples long words (simulation mode) whose forced
     window reaches the first re-seed.  c06_drv forces each word onto the real worker threads of BootstrapRandomGroupsCV (PLS / MLR / LDA,
     and - reported as EXTRA only, the property's quantifier names PLS, MLR, LDA - the three EPLS ensembles) through the hook-H1 gate,
     records every srand_ call, every store to / copy out of the generator word with the real values, every read of the wall clock
     (time() is interposed: the clock is a controlled input), and the result hash.  TLC validates the recording against TraceRng.tla:
     every value a thread reads is the value that thread wrote last, no draw on a word the thread did not seed, the result equals the
     sequential run bit for bit; implementation layer: the stream is the one the seed defines under the library's generator step
     (exact 32-bit arithmetic on 16-bit limbs).
     Every other routine that draws (mode direct): EPLS (bagging / fixed subspace / both), KMeans init 0 and 1, KMeansppCenters,
     KMeansRandomGroupsCV, KMeansJumpMethod, PCARankValidation, UPLSRandomGroupsCV, UPLSYScrambling, StochasticUniversalSample,
     RouletteWheelselection, train_test_split, random_kfold_group_generator, MatrixInitRandomInt/Float: hash of every output for thread
     counts 1..8 (where the routine takes one), repeated runs, a run after the caller's stream was disturbed, a run on a fresh thread, under
     an advancing clock - all must equal the first run; all of them draw on the calling thread only (their workers never touch the word),
     so the caller's recorded stream must be the seeded stream.  Also: y-scrambling with all RNG events of all threads, bit-identity across
     thread counts (bootstrap: dividing counts; LOO; k-fold), EPLS as CV learner for thread counts 1..8 (EXTRA).
"""
import os, random, shutil
from concurrent.futures import ThreadPoolExecutor
from vf import build, tlc, trace
from vf import run as hrun
from vf.core import InfraError

LEVEL = "model_checking"
READY = True
TECHNIQUE = ("TLC model checking of Rng.tla (all interleavings of seed/read/write steps for the orchestration shapes transcribed from the library: seed+draw workers, "
             "re-seeding EPLS workers, fork/join caller, unseeded workers; per-thread vs global word) + every TLC-generated schedule word (plus sampled long words) "
             "forced onto the real CV worker threads through the hook-H1 gate; recorded seeds, word values, wall-clock reads and result hashes of the CV schemes, "
             "y-scrambling and every other routine that draws (EPLS, KMeans/KMeans++, KMeans/PCA/UPLS random-group validation, selection operators, splitters, "
             "random matrix fill) validated by TLC (TraceRng.tla, exact 32-bit generator arithmetic)")
LEVEL_TEXT = ("All interleavings of the generator steps are explored in the model for 2 workers x 2 draws, 3 workers x 1 draw, re-seeding workers (2 and 3) and the fork/join "
              "caller; every complete schedule word TLC generates is then forced deterministically onto the real threads, so a stream shared between workers is exposed on "
              "the first schedule that lets one worker seed between another's seed and first draw - not 1 run in 20. TLC checks stream isolation on the real word values, "
              "that no thread draws from a word it did not seed (the library would take the wall clock, which the harness controls), and bit-identity of the result with "
              "the sequential run; y-scrambling, thread-count sweeps (1..8) and all 18 directly called drawing routines are validated by the same trace specification.")
LEVEL_NOTE = ("Trusts TLC and the H1 gate (points before-read / between read and write / after-write of the generator word) and the interposed time(). Only shared state "
              "observed by H1 is decided; unsynchronised access to other memory is outside this technique (no happens-before detector is used). Schedules are forced for "
              "the first Q generator steps of 2-3 workers (Q = 3..82); later steps run free (still recorded and validated). EPLS used as the learner inside the CV schemes "
              "is outside the property's quantifier (PLS, MLR, LDA): deviations there are EXTRA-FINDINGs, not verdicts. ICA (randDouble without seeding) is not driven: "
              "ica.c is debugging code (hard-wired data, sleep(2)).")

W = max(1, int(os.environ.get("VERIF_WORKERS", "8")))
ROUTINES = ["EPLS-bagging", "EPLS-subspace", "EPLS-bagging-subspace", "KMeans-random", "KMeans-pp", "KMeansppCenters", "KMeansRandomGroupsCV-random",
            "KMeansRandomGroupsCV-pp", "KMeansJumpMethod", "PCARankValidation", "UPLSRandomGroupsCV", "UPLSYScrambling", "StochasticUniversalSample",
            "RouletteWheelselection", "train_test_split", "random_kfold_group_generator", "MatrixInitRandomInt", "MatrixInitRandomFloat"]
RNG_ACTIONS = ["DoSeed", "DoClock", "DoRead", "DoWrite", "DoFork", "DoJoin"]


def _run_info(block):
    for e in block:
        if e.get("e") in ("Run", "Crash"):
            return e
    return {}


def _sig(ev, block):
    run = _run_info(block)
    mode, algo = run.get("mode", "?"), run.get("algo", "?")
    m0 = mode.split(":")[0]
    tag = mode if m0 == "eplscv" else m0 if m0 not in ("direct", "unseeded") else "%s:%s" % (m0, algo)
    e = ev.get("e")
    if e == "Crash":
        return "RNG:crash:%s:%s:rc%s" % (ev.get("mode"), ev.get("algo"), ev.get("rc")), "run died or hung: %s" % ev
    if e == "Read":
        return "RNG:isolation:%s" % tag, ("thread %s read generator word %s which it did not write last: the seeded stream of one thread is perturbed by another, or the thread "
                                           "never seeded (schedule %s, %s)" % (ev.get("w"), ev.get("v"), run.get("word"), algo))
    if e == "Clock":
        return "RNG:clock:%s" % tag, ("thread %s took the wall clock as generator state (draw on a word it never seeded, or a seed taken from the clock): the result is not a "
                                       "function of the inputs (%s, %s)" % (ev.get("w"), mode, algo))
    if e == "Result":
        return "RNG:result-differs:%s" % tag, "result differs from the sequential/reference run (%s, %s, schedule %s, threads %s, repetition %s, fresh thread %s)" % (
            mode, algo, run.get("word"), ev.get("nth", run.get("nw")), ev.get("rep"), ev.get("fresh"))
    return "RNG:trace:%s" % e, "unexpected event %s in %s" % (ev, run)


def _is_extra_block(run_):
    """blocks that exercise behaviour outside the statement/quantifier of C06: EPLS as the learner inside a CV scheme, calls without seeding"""
    mode = run_.get("mode", "")
    return mode.startswith("eplscv") or mode == "unseeded" or (mode == "sched" and str(run_.get("algo", "")).startswith("EPLS"))


def run(ctx):
    q = ctx.quick
    ctx.assumptions += [
        "only the generator word (observed by hook H1) and the wall clock (interposed time()) are decided; no generic data-race detector is used",
        "the gate forces the first Q generator steps of each of the first NW worker threads; workers are identified by order of arrival at srand_",
        "results are compared through a 64-bit FNV hash of the bytes of every output (bit-identity)",
        "bootstrap thread counts are restricted to divisors of the iteration count, as the property states (CvOrch.tla shows why)",
        "routines that do not seed themselves (EPLS subspace variants, KMeans, KMeansppCenters, KMeansJumpMethod) are called right after srand_(seed) by the caller - "
        "the statement's 'after seeding'; the same calls without seeding are reported as EXTRA only",
        "MatrixInitRandomInt/Float seed from the clock by contract: determinism is required for a fixed (interposed) clock",
        "UPLS tensors are built with as many y columns as orders (UPLSYPredictor indexes y columns by the order count: memory-safety defect outside C06)",
    ]
    # ---------------- (M)
    taken = set()
    pool = ThreadPoolExecutor(max(1, min(W, 6)))
    tw = 2 if W >= 4 else 1
    mc_jobs = [("MC_Rng_TRUE_2.cfg", "mc_rng_perthread_2x2", None), ("MC_Rng_TRUE_3.cfg", "mc_rng_perthread_3x1", None),
               ("MC_Rng_reseed_TRUE_2.cfg", "mc_rng_reseed_perthread_2x1", None), ("MC_Rng_reseed_TRUE_3.cfg", "mc_rng_reseed_perthread_3x1", None),
               ("MC_Rng_forkjoin_TRUE.cfg", "mc_rng_forkjoin_perthread_1+2x2", None), ("MC_Rng_FALSE_2.cfg", "mc_rng_global_2x2", "StreamIsolation"),
               ("MC_Rng_reseed_FALSE_2.cfg", "mc_rng_reseed_global_2x1", "StreamIsolation"), ("MC_Rng_forkjoin_FALSE.cfg", "mc_rng_forkjoin_global", "StreamIsolation"),
               ("MC_Rng_unseeded.cfg", "mc_rng_unseeded", "NoClock")]
    mc_fut = [pool.submit(tlc.run, "Rng", cfg, timeout=900, workers=tw) for cfg, label, expect in mc_jobs]
    orch_fut = pool.submit(tlc.run, "CvOrch", "MC_CvOrch_boot.cfg", timeout=600, workers=tw)

    def mc(cfg, label, expect, r):
        ctx.add_tlc(r, label)
        for a, (t, g) in r.coverage.items():
            if t > 0:
                taken.add(a)
        if expect is None:
            if not r.ok:
                raise InfraError("Rng.tla %s violates %s in the model:\n%s" % (cfg, r.violation, r.trace_text[:1200]))
        else:
            if r.ok or r.violation != expect:
                raise InfraError("Rng.tla %s: expected a counterexample to %s, got %s (model no longer discriminates)" % (cfg, expect, r.violation))
            ctx.steps[label]["expected_counterexample"] = r.violation
        return r
    # (GEN) runs are started now as well; their results are consumed below
    gen_specs = [("GEN_Rng_2_1.cfg", None), ("GEN_Rng_2_2.cfg", None), ("GEN_Rng_3_1.cfg", None), ("GEN_Rng_reseed_2_1.cfg", None),
                 ("GEN_Rng_sim_2.cfg", 12 if q else 400), ("GEN_Rng_sim_3.cfg", 6 if q else 250)]
    gen_fut = {}
    for cfg, sim in gen_specs:
        if sim:
            gen_fut[cfg] = pool.submit(tlc.run, "Rng", cfg, timeout=900, coverage=False, workers=1, simulate="num=%d" % sim, depth=400, seed=ctx.seed + 11)
        else:
            gen_fut[cfg] = pool.submit(tlc.run, "Rng", cfg, timeout=900, coverage=False, workers=tw)
    for (cfg, label, expect), f in zip(mc_jobs, mc_fut):
        mc(cfg, label, expect, f.result())
    missing = [a for a in RNG_ACTIONS if a not in taken]
    if missing:
        raise InfraError("Rng.tla actions never taken in any model-checking run: %s" % missing)
    r = orch_fut.result()
    ctx.add_tlc(r, "mc_orch_boot")
    if not r.ok:
        raise InfraError("CvOrch.tla: %s" % r.violation)
    # ---------------- (GEN) schedule words
    rnd = random.Random(ctx.seed)

    def gen(cfg, label, take, sim=None):
        r = gen_fut[cfg].result()
        ctx.add_tlc(r, label)
        if any(not e["isolated"] for e in r.emits):
            raise InfraError("%s: the per-thread model emitted a non-isolated behaviour" % cfg)
        words = sorted(set(tuple(e["sched"]) for e in r.emits))
        if not words:
            raise InfraError("no schedule words generated by %s" % cfg)
        total = len(words)
        if take and take < len(words):
            rnd.shuffle(words)
            words = words[:take]
        return words, total
    plans = []      # (label, nw, k, eplsset, words, total, sampled)
    for nw, k, take in ([(2, 1, None), (2, 2, 40), (3, 1, 40)] if q else [(2, 1, None), (2, 2, None), (3, 1, 600)]):
        words, total = gen("GEN_Rng_%d_%d.cfg" % (nw, k), "gen_sched_%dx%d" % (nw, k), take)
        plans.append(("%dx%d" % (nw, k), nw, k, 0, words, total, False))
        if (nw, k) == (2, 1):
            plans.append(("epls:2x1", nw, k, 1, words, total, False))
    words, total = gen("GEN_Rng_reseed_2_1.cfg", "gen_sched_reseed_2x1", 24 if q else None)
    plans.append(("epls:reseed2x1", 2, 1, 1, words, total, False))
    words, total = gen("GEN_Rng_sim_2.cfg", "gen_sched_sim_2x20", None, sim=12 if q else 400)
    plans.append(("epls:sim2x20", 2, 20, 1, words, total, True))
    words, total = gen("GEN_Rng_sim_3.cfg", "gen_sched_sim_3x10", None, sim=6 if q else 250)
    plans.append(("epls:sim3x10", 3, 10, 1, words, total, True))
    lib = build.build_lib("plain")
    exe = build.build_harness("c06", ["c06_drv.c"], lib)
    rd = tlc.rundir()
    try:
        jobs = []
        # y-scrambling and thread-count sweeps first: a repeating schedule violation must not hide them
        jobs.append([os.path.join(rd, "y.ndjson"), "yscr", ctx.seed, 2 if q else 8])
        for i in range(1 if q else 4):
            jobs.append([os.path.join(rd, "n%d.ndjson" % i), "counts", ctx.seed + i, 9 if q else 18])
        jobs.append([os.path.join(rd, "st.ndjson"), "stress", ctx.seed + 5, 40 if q else 600])
        nr = len(ROUTINES)
        for i in range(2 if q else 30):       # every routine once per job
            jobs.append([os.path.join(rd, "d%d.ndjson" % i), "direct", ctx.seed + 20 + i, nr, i * nr])
        for i in range(1 if q else 8):
            jobs.append([os.path.join(rd, "e%d.ndjson" % i), "eplscv", ctx.seed + 40 + i, 9 if q else 18])
        for label, nw, k, eplsset, words, total, sampled in plans:
            chunk = max(1, (len(words) + 5) // 6)
            for ci in range(0, len(words), chunk):
                tag = label.replace(":", "_")
                sf = os.path.join(rd, "s_%s_%d.txt" % (tag, ci))
                with open(sf, "w") as f:
                    for w in words[ci:ci + chunk]:
                        f.write(" ".join(map(str, w)) + "\n")
                jobs.append([os.path.join(rd, "t_%s_%d.ndjson" % (tag, ci)), "sched", ctx.seed + ci, sf, nw, k, eplsset])
        res = hrun.run_many(exe, jobs, timeout=2400, workers=min(W, 10))
        events = []
        for j, h in zip(jobs, res):
            ev = hrun.read_ndjson(j[0])
            if h.rc == 3 or any(e.get("e") == "Stuck" for e in ev):
                raise InfraError("schedule gate got stuck (no verdict): %s" % j[1:])
            if h.rc != 0:
                raise InfraError("c06 harness failed rc=%d %s: %s" % (h.rc, j[1:], h.err[-1200:]))
            if any(e.get("e") == "Overflow" for e in ev):
                raise InfraError("event recorder overflowed in %s" % j[1:])
            events += ev
        if not any(e["e"] == "Read" for e in events):
            raise InfraError("no Read events: hook H1 is not firing (hooks removed or guard off)")
        # routines that cannot be driven at all on this tree (crash on every input): outside the verdict, reported once
        for e in events:
            if e["e"] == "Broken":
                ctx.extra("RNG:broken:%s" % e["algo"], "%s dies on every input (child status %s; with the random-groups validation it hands r2x = NULL to UPLSRandomGroupsCV, which "
                          "dereferences it, upls.c:1448) - the drawing path of this routine cannot be driven; the leave-one-out path (which only seeds) is checked" % (e["algo"], e["rc"]))
        events = [e for e in events if e["e"] != "Broken"]
        blocks = tlc.split_blocks(events)
        main_blocks, extra_blocks = [], []
        for b in blocks:
            run_ = _run_info(b)
            crash = [e for e in b if e["e"] == "Crash"]
            if crash and (crash[0].get("mode") in ("direct", "unseeded", "eplscv") or _is_extra_block(run_)):
                # a routine that dies or hangs on an input is not a determinism verdict (other properties own that): report, leave out
                ctx.extra("RNG:crash:%s:%s" % (crash[0].get("mode"), crash[0].get("algo")), "run died or hung (status %s) and is left out of the verdict: %s" % (crash[0].get("rc"), run_ or crash[0]))
                continue
            (extra_blocks if _is_extra_block(run_) else main_blocks).append(b)
        # ---- vacuity of the new harness paths
        per = {}
        for b in main_blocks + extra_blocks:
            run_ = _run_info(b)
            key = (run_.get("mode", "").split(":")[0], run_.get("algo"))
            d = per.setdefault(key, dict(blocks=0, read=0, seed=0, clock=0, result=0, nonfinite=0, ts=run_.get("ts", 0)))
            d["blocks"] += 1
            for e in b:
                if e["e"] == "Read":
                    d["read"] += 1
                elif e["e"] == "Seed":
                    d["seed"] += 1
                elif e["e"] == "Clock":
                    d["clock"] += 1
                elif e["e"] == "Result":
                    d["result"] += 1
                elif e["e"] == "Seq" and e.get("num", 1) > 0 and 2 * e.get("fin", 1) < e.get("num", 1):
                    d["nonfinite"] += 1
        for rt in ROUTINES:
            d = per.get(("direct", rt))
            if not d or d["result"] == 0 or (d["seed"] == 0 and d["read"] == 0):      # what the events say is for TLC to judge; here only: were there any
                raise InfraError("direct routine %s produced no recorded run (blocks/seeds/reads/results: %s)" % (rt, d))
            if rt.startswith("MatrixInitRandom") and d["clock"] == 0:
                raise InfraError("no Clock event for %s: the time() interposer is not in effect" % rt)
            if d["nonfinite"] * 2 > d["blocks"]:
                raise InfraError("direct routine %s: most reference results are not finite (hash comparison would be vacuous)" % rt)
        for key, d in per.items():
            if key[0] in ("eplscv", "sched") and d["nonfinite"] * 2 > d["blocks"]:
                raise InfraError("%s: most reference results are not finite (hash comparison would be vacuous): %s" % (key, d))
        if not any(k[0] == "eplscv" and d["read"] > 0 for k, d in per.items()):
            raise InfraError("eplscv mode recorded no draws")
        # forced re-seeds: sampled long words must reach a worker's second srand_ inside the forced window
        reseed_forced = 0
        alternating = 0
        addr_classes = set()
        for b in main_blocks + extra_blocks:
            run_ = _run_info(b)
            word = tuple(run_.get("word", []))
            # non-trivial: some worker seeds between another worker's seed and that worker's first read
            nt = True
            if run_.get("mode") == "sched":
                first = {}
                seeds = {}
                for i, w in enumerate(word):
                    if w not in seeds:
                        seeds[w] = i
                    elif w not in first:
                        first[w] = i
                nt = any(seeds[a] < seeds[b2] < first.get(a, 10 ** 6) for a in seeds for b2 in seeds if a != b2)
                alternating += 1 if nt else 0
                qn = len(word) // max(1, run_.get("nw", 1))
                steps, nseed, hit = {}, {}, False
                for e in b:
                    if e["e"] == "Seed" and e["w"] >= 1:
                        nseed[e["w"]] = nseed.get(e["w"], 0) + 1
                        if nseed[e["w"]] == 2 and steps.get(e["w"], 0) < qn:
                            hit = True
                    elif e["e"] in ("Wrote", "Read") and e["w"] >= 1:
                        steps[e["w"]] = steps.get(e["w"], 0) + 1
                reseed_forced += 1 if hit else 0
            ctx.case((run_.get("mode"), run_.get("algo"), run_.get("n"), run_.get("p"), run_.get("nlv"), word, run_.get("nw")), nt)
            for e in b:
                if e["e"] == "Result" and e.get("addrs"):
                    addr_classes.add(e["addrs"])
        ctx.cov["schedule_words"] = {label: dict(generated=total, forced=len(words), sampled=sampled) for label, nw, k, es, words, total, sampled in plans}
        ctx.cov["exhaustive"] = all(total == len(words) for label, nw, k, es, words, total, sampled in plans if not sampled)
        ctx.cov["implemented_variant"] = "perThread" if addr_classes and max(addr_classes) > 1 else "global"
        ctx.cov["forced_reseeds"] = reseed_forced
        ctx.cov["routines_driven"] = {"%s:%s" % k: d for k, d in sorted(per.items(), key=lambda kv: str(kv[0]))}
        ctx.cov["rule"] = ("a case is one recorded run block: a TLC-generated schedule word forced on the real bootstrap CV (learner cycles PLS/MLR/LDA, and the three EPLS ensembles), "
                           "a y-scrambling run, a thread-count sweep, a directly called drawing routine (threads 1..8 x 2 repetitions + fresh thread), or EPLS as CV learner; "
                           "non-trivial schedule = some worker seeds between another worker's seed and its first draw (%d such words; %d words forced a re-seed)" % (alternating, reseed_forced))
        for b in main_blocks[:400]:
            run_ = _run_info(b)
            if run_.get("mode") in ("sched", "direct"):
                ctx.sample(dict(run=run_, events=[e for e in b if e["e"] in ("Seed", "Wrote", "Read")][:8]), 4)

        def small(block):
            rec = ("Seed", "Wrote", "Read", "Clock")
            return [e for e in block if e["e"] not in rec] + [e for e in block if e["e"] in rec][:60]

        def on_reject(ev, idx, block):
            sig, what = _sig(ev, block)
            known = any(v[0] == sig for v in ctx.violations) or sig in ctx.known_hits
            ctx.violation(sig, what, dict(kind="block", run=_run_info(block), event=ev, block=small(block)))
            return "dup" if known else None

        def on_reject_extra(ev, idx, block):
            sig, what = _sig(ev, block)
            run_ = _run_info(block)
            if run_.get("mode") == "unseeded":
                sig = "RNG:clock:unseeded-call"
                what = ("routines that draw from the caller's stream (EPLS subspace variants, KMeans, KMeansppCenters, KMeansJumpMethod) take the wall clock as generator state when "
                        "the caller never called srand_ on that thread (numeric.c:68): results then differ from run to run - by design of the fallback; first seen: %s" % run_.get("algo"))
            else:
                # group the findings of one cause: scheme x ensemble method
                sig = sig + ":" + str(run_.get("algo"))
                what += " [EPLS is outside the quantifier of C06 (PLS, MLR, LDA)]"
            ctx.extra(sig, what)
            return None
        main_events = [e for b in main_blocks for e in b]
        extra_events = [e for b in extra_blocks for e in b]
        trace.check_trace(ctx, "TraceRng", "Trace_Rng.cfg", "Trace_Rng_prop.cfg", main_events, on_reject, drop="block", max_rounds=60, label="trace_rng", xmx="8g")
        ctx.traces(len(main_blocks))
        if extra_blocks:
            # blocks outside the statement are EXPECTED to contain rejections (one TLC round each): validate the groups side by side, then merge in order
            groups = {}
            for b in extra_blocks:
                run_ = _run_info(b)
                groups.setdefault((run_.get("mode"), run_.get("algo")), []).extend(b)

            class Rec:
                def __init__(self):
                    self.calls = []

                def add_tlc(self, r, label=None):
                    self.calls.append(("tlc", r, label))

                def note(self, m):
                    self.calls.append(("note", m))

                def spec_drift(self, m):
                    self.calls.append(("drift", m))

            def one(key, evs):
                rec = Rec()

                def rej(ev, idx, block):
                    rec.calls.append(("rej", ev, block))
                    return None
                trace.check_trace(rec, "TraceRng", "Trace_Rng.cfg", "Trace_Rng_prop.cfg", evs, rej, drop="block", max_rounds=400, label="trace_rng_extra:%s:%s" % key, xmx="3g")
                return rec
            futs = [(key, pool.submit(one, key, evs)) for key, evs in sorted(groups.items(), key=lambda kv: str(kv[0]))]
            for key, f in futs:
                for c in f.result().calls:
                    if c[0] == "tlc":
                        ctx.add_tlc(c[1], None)
                        st = ctx.steps.setdefault("trace_rng_extra", dict(distinct=0, generated=0, wall_s=0.0, runs=0))
                        st["distinct"] += c[1].distinct
                        st["generated"] += c[1].generated
                        st["wall_s"] = round(st["wall_s"] + c[1].wall, 2)
                        st["runs"] += 1
                    elif c[0] == "note":
                        ctx.note(c[1])
                    elif c[0] == "drift":
                        ctx.spec_drift(c[1])
                    else:
                        on_reject_extra(c[1], 0, c[2])
            ctx.traces(len(extra_blocks))

        if reseed_forced == 0 and not ctx.violations:
            # (with a violation on record the run fails anyway: a change that removed the re-seed is then a verdict, not an infrastructure problem)
            raise InfraError("no forced schedule reached a worker's re-seed inside the forced window (EPLS learner): the reseed shape is not exercised on the code")
        # ---- binding self-tests: one corrupted field per event kind must be rejected
        def first_block(pred):
            for b in main_blocks:
                if pred(_run_info(b), b):
                    return b
            raise InfraError("binding self-test: no suitable block")

        def corrupt_field(kind, field, value, nth=0):
            def f(evs):
                k = 0
                for e in evs:
                    if e["e"] == kind:
                        if k == nth:
                            e[field] = value
                            return True
                        k += 1
                return False
            return f
        b_sched = first_block(lambda r, b: r.get("mode") == "sched" and any(e["e"] == "Read" for e in b))
        trace.binding_selftest(ctx, "TraceRng", "Trace_Rng.cfg", b_sched, corrupt_field("Read", "v", [1, 2345]), "binding_read")
        trace.binding_selftest(ctx, "TraceRng", "Trace_Rng.cfg", b_sched, corrupt_field("Seed", "s", [7, 7]), "binding_seed")
        b_dir = first_block(lambda r, b: r.get("mode") == "direct" and r.get("algo") == "KMeans-pp" and any(e["e"] == "Read" for e in b))
        trace.binding_selftest(ctx, "TraceRng", "Trace_Rng.cfg", b_dir, corrupt_field("Result", "h", [1, 2, 3], nth=3), "binding_result_direct")
        trace.binding_selftest(ctx, "TraceRng", "Trace_Rng.cfg", b_dir, corrupt_field("Read", "w", 5), "binding_caller_only")
        trace.binding_selftest(ctx, "TraceRng", "Trace_Rng.cfg", b_dir, corrupt_field("Wrote", "v", [3, 3], nth=2), "binding_wrote_gen")
        b_clk = first_block(lambda r, b: r.get("mode") == "direct" and r.get("ts") == 1 and any(e["e"] == "Clock" for e in b))
        trace.binding_selftest(ctx, "TraceRng", "Trace_Rng_prop.cfg", b_clk, corrupt_field("Run", "ts", 0), "binding_clock")
        if not any(e["e"] == "Clear" for e in b_dir):
            raise InfraError("no Clear event in a direct block")
    finally:
        pool.shutdown(wait=False)
        shutil.rmtree(rd, ignore_errors=True)


def replay(ctx, body):
    run(ctx)
