"""C06 - validation results are deterministic under every thread schedule and count.

(M)  Rng.tla: every process runs a program over {seed, draw, fork, join}; a draw is the code's two steps (read the word, write
     Gen(word) back, re-reading it); a draw on a word nobody seeded first stores the WALL CLOCK (numeric.c).  Orchestration shapes
     transcribed from the library:  seedDraw (bootstrap CV worker with PLS/MLR/LDA; every routine that seeds and draws on the calling
     thread), reseed (bootstrap CV worker with the EPLS learner: the group generator seeds, then every ensemble member re-seeds through
     train_test_split), forkjoin (y-scrambling: the caller seeds, starts and joins CV workers, then draws its shuffle; KMeans/KMeans++/
     EPLS called directly are the degenerate case with silent workers), unseeded (LeaveOneOut/KFoldCV worker with the EPLS random-subspace
     learner: fresh thread, no srand_).  All interleavings for 2 workers x 2 draws, 3 workers x 1 draw, reseed 2-3 workers, fork/join
     1 + 2.  With one word per thread StreamIsolation and NoClock hold; with the single global word TLC finds the counterexamples
     (B seeds, A seeds, B reads A's word; the caller's draw after the join reads a worker's word); the unseeded shape violates NoClock.
     CvOrch.tla (shared with C05): merged seed offsets and merge order are independent of the thread count when it divides the
     iteration count.
(C)  GEN: TLC emits every complete schedule word of the seedDraw and reseed models, and samples long words (simulation mode) whose forced
     window reaches the first re-seed.  c06_drv forces each word onto the real worker threads of BootstrapRandomGroupsCV (PLS / MLR / LDA,
     and - reported as EXTRA only, the property's quantifier names PLS, MLR, LDA - the three EPLS ensembles) through the hook-H1 gate,
     records every srand_ call, every store to / copy out of the generator word with the real values, every read of the wall clock
     (time() is interposed: the clock is a controlled input), and the result hash.  TLC validates the recording against TraceRng.tla:
     every value a thread reads is the value that thread wrote last, no draw on a word the thread did not seed, the result equals the
     sequential run bit for bit; implementation layer: the stream is the one the seed defines under the library's generator step
     (exact 32-bit arithmetic on 16-bit limbs).
     Every other routine that draws (mode direct): EPLS (bagging / fixed subspace / both), KMeans init 0 and 1, KMeansppCenters,
     KMeansRandomGroupsCV, KMeansJumpMethod, PCARankValidation, UPLSRandomGroupsCV, UPLSYScrambling, StochasticUniversalSample,
     RouletteWheelselection, train_test_split, random_kfold_group_generator, MatrixInitRandomInt/Float: hash of every output for thread
     counts 1..8 (where the routine takes one), repeated runs, a run after the caller's stream was disturbed, a run on a fresh thread, under
     an advancing clock - all must equal the first run; all of them draw on the calling thread only (their workers never touch the word),
     so the caller's recorded stream must be the seeded stream.  Also: y-scrambling with all RNG events of all threads, bit-identity across
     thread counts (bootstrap: dividing counts; LOO; k-fold), EPLS as CV learner for thread counts 1..8 (EXTRA).

Round 3 (input / history classes, clause audit, ThreadSanitizer block)

Clause table - every clause of the statement, the operator / trace action that decides it, the event that carries it:
  clause of the statement                                   decided by (TLA+)                                           carried by
  1 same inputs -> same results, bit-identical between      TraceRng!TResult: HashOf(Ev) = first[nth] (repeated run),   Seq / Result{h,nth,rep} of modes counts, classes, hist, direct,
    repeated runs                                           = ref                                                       dsched, yscr, eplscv, tsan (each call runs at least twice)
  2 equal to rounding across thread counts                  TraceRng!TResult / Rounding / TolRound(m) (property layer;   Result{nth,dq}: dq = largest relative difference to the 1-thread
                                                            implementation layer insists on bit-identity, which          reference in 1e-12 units (sched, counts, classes; processor counts
                                                            CvOrch!BootSameAsSequential explains)                        of PCARankValidation)
  3 regardless of the number of worker threads requested    CvOrch!BootSameAsSequential / BootExtraOtherwise /           thread-count sweeps 1..8 (bootstrap: iteration counts 4,5,6,7,8,10,12,14,16
    (bootstrap: counts dividing the iteration count)        GuardExactlyOnce; TraceRng!TCreate / TCalled (seeds of a     -> every count 1..8), Create{th,it,seed} / Called{iters,nth} from hook H5
                                                            call = base .. base+iters-1, implementation layer)
  4 regardless of how the OS interleaves the threads        Rng!StreamIsolation, EqualsSequential over ALL interleavings schedule words of Rng.tla forced on the real threads (hook-H1 gate):
                                                            (2x2, 3x1, 3x2, 4x1, 4x2, 5x1, reseed, forkjoin, foreign);   Seed / Wrote / Read of every thread, Result vs Seq
                                                            TraceRng!TSeed / TWrote / TRead on the recorded values
  5 regardless of what other library calls run concurrently Rng shape "foreign" (StreamIsolation, ForeignTwin: equal    disturber thread seeding with the first worker's seed: forced next to the CV
                                                            seeds on two threads stay independent)                       workers (plan dist:*), next to every directly called routine (dsched),
                                                                                                                         free-running in classes / tsan blocks; its Seed / Wrote / Read events
  6 the seeded stream of one worker is never perturbed      TraceRng!TRead (has[w] /\ v = last[w]), TClock (NoClock),    Read{w,v}, Wrote{w,v}, Clock{w}, Result{libc} (interposed rand/srand/random/
                                                            TResult (libc = 0)                                           drand48/lrand48/srand48)
  7 no two threads access shared mutable state without      RngState!ThreadPrivate / RaceCompatible, TraceRng!TRace,     Race{var,...}: ThreadSanitizer reports of the tsan build (hooks off), attributed
    synchronisation                                         Rng!WordPrivate                                              to a state class of RngState.tla
  8 a run with N threads equals the sequential run          Rng!EqualsSequential; TraceRng!TResult against the           Seq = 1-thread run, Result{nth = N}
                                                            1-thread reference

Input / history classes (INPUT-CLASSES.md), measured before -> after (coverage.classes):
  K1 tall only, ny 1/2, nlv 1/2 -> + wide (n < p), single column, ny = 3, nlv = rank, residual output        K6 threads 1,2,3,4,6,8, nproc 1, nobody else drawing -> + threads 5, 7, threads > items,
  K2 none deliberate -> LOO n = 16/15 (2*8, 2*8-1), k-fold 4/8/9 groups, n = 32/33                              inner processors 2/3/5 (PCARankValidation is the only drawing routine that reaches an MT_* kernel;
  K3 none -> offset 1e6; K4 none -> scale 1e6 / 1e-6; K5 none -> tied 0.1*k columns, 1e-3*k responses           PLS/MLR/LDA workers reach none on this tree), forced 3 workers x 2 draws, 4 workers, disturber
  K7 repeated calls with fresh outputs, fresh thread -> + reused outputs (other shape / other data),           K8 none -> duplicate rows, constant column (PLS)
     another fit in between, NEW DATA IN THE SAME MATRICES, refit at freed addresses (reuse measured)          K10 LDA labels {0,1} sorted -> 3 classes unsorted, 1-based labels
  K9 excluded: the statement does not speak about missing values.  KFoldCV with LDA excluded: the routine has no LDA branch (joins threads it never created; C05's finding).

Round 3, follow-up (two seeded changes)
  * A generator word that is PROCESS-WIDE but locked (every access of srand_/rand_/randInt/randDouble under one mutex) has no data race, yet the streams of concurrently
    running workers interleave.  The gate used to park a worker INSIDE the generator (after its store / copy): with the library's lock held there, the worker the word wanted
    next could never arrive and the run ended as an infrastructure failure.  Now: (a) a LOCK PROBE runs once per harness process - a thread is parked at each of the five hook
    points in turn while another thread seeds and draws; points at which the second thread does not finish are unsafe, the gate parks workers only at the safe ones (all safe =
    the fine-grained gate as designed; entry points only = whole calls are the schedule letters; none = no schedule can be forced, the runs are recorded un-gated); steps taken
    out of turn pull their letter forward, so the word keeps describing what happened; a gate that still gets stuck opens after 6 s, the run is judged as recorded;
    (b) mode `calls`: two application threads, srand_ + K draws each, interleaved by the harness at CALL boundaries under the words of Rng.tla projected onto calls - nobody is
    ever parked inside the library, so this choreography can be forced on ANY implementation; TLC's TRead rejects it deterministically when the word is shared;
    (c) class-table entries with 300 objects (group generation of concurrently started workers always overlaps under natural scheduling);
    (d) every failure a change of the library can provoke (gate, crashed / hung harness, silent hook, vacuity) is DEFERRED: un-gated blocks are validated first (calls, recorded
    y-scrambling, y-scrambling thread counts, sweeps, class table, histories), then the ThreadSanitizer block, then the forced words; the failure is raised at the very end and
    only if no verdict was reached.  A stream perturbation recorded on a library whose lock probe found a lock is reported as RNG:shared-word:lock-serialised.
  * mode `yscount`: YScrambling (BootstrapRGCV and LOO validation inside; PLS / MLR / LDA) for EVERY requested thread count 1..8, judged by TResult's rounding clause against
    the 1-thread run (TolRound over the 100 merged bootstrap terms).  The pipelines run their bootstrap with a fixed 100 iterations the caller cannot see, so the statement's
    "counts dividing the iteration count" does not apply to the caller's thread count: a pipeline that hands the caller's count to that bootstrap runs 102/105/104 iterations
    for 3, 6, 7, 8 threads (RNG:result-differs:yscount).  On the unchanged tree all counts are bit-identical.
"""
import os, random, shutil
from concurrent.futures import ThreadPoolExecutor
from vf import build, tlc, trace
from vf import run as hrun
from vf.core import InfraError
from checks import c06_race

LEVEL = "model_checking"
READY = True
TECHNIQUE = ("TLC model checking of Rng.tla (all interleavings of seed/read/write steps for the orchestration shapes transcribed from the library: seed+draw workers, "
             "re-seeding EPLS workers, fork/join caller, unseeded workers; per-thread vs global word) + every TLC-generated schedule word (plus sampled long words) "
             "forced onto the real CV worker threads through the hook-H1 gate; recorded seeds, word values, wall-clock reads and result hashes of the CV schemes, "
             "y-scrambling and every other routine that draws (EPLS, KMeans/KMeans++, KMeans/PCA/UPLS random-group validation, selection operators, splitters, "
             "random matrix fill) validated by TLC (TraceRng.tla, exact 32-bit generator arithmetic); round 3: a foreign caller (disturber thread) forced next to the CV workers and next to "
             "every directly called routine, 3 workers x 2 draws and 4 workers, stratified input/history classes K1..K10 (thread counts 1..8 incl. 5 and 7, inner processor counts, reused outputs, "
             "new data in the same matrices, offsets, magnitudes, ties, label alphabets), 'equal to rounding across thread counts' with a tolerance TolRound(m) defined in the specification, "
             "interposed libc generators, hook-H5 seed events, and a ThreadSanitizer build of the validation routines whose race reports are attributed to the state classes of RngState.tla and judged by TLC")
LEVEL_TEXT = ("All interleavings of the generator steps are explored in the model for 2 workers x 2 draws, 3 workers x 1 draw, re-seeding workers (2 and 3) and the fork/join "
              "caller; every complete schedule word TLC generates is then forced deterministically onto the real threads, so a stream shared between workers is exposed on "
              "the first schedule that lets one worker seed between another's seed and first draw - not 1 run in 20. TLC checks stream isolation on the real word values, "
              "that no thread draws from a word it did not seed (the library would take the wall clock, which the harness controls), and bit-identity of the result with "
              "the sequential run; y-scrambling, thread-count sweeps (1..8) and all 18 directly called drawing routines are validated by the same trace specification. Round 3 adds: all "
              "interleavings for 3 workers x 2 draws, 4 x 1 (4 x 2 and 5 x 1 in the thorough tier) and for a foreign caller that uses the generator next to the workers (equal seeds on two threads stay "
              "independent); the words of these models are forced onto the real CV with a disturber thread and onto every directly called routine; every clause of the statement has a deciding "
              "operator (clause table in the module docstring), including 'no two threads access shared mutable state without synchronisation': ThreadSanitizer reports on the real routines are "
              "bound to the thread-private state set of RngState.tla (a race on the generator word, a worker's slot, a worker's own memory, the caller's accumulators or the inputs is a violation; "
              "races on state the model does not speak about are EXTRA-FINDINGs).")
LEVEL_NOTE = ("Trusts TLC and the H1 gate (points before-read / between read and write / after-write of the generator word) and the interposed time(). Only shared state "
              "observed by H1 is decided; unsynchronised access to other memory is outside this technique (no happens-before detector is used). Schedules are forced for "
              "the first Q generator steps of 2-3 workers (Q = 3..82); later steps run free (still recorded and validated). EPLS used as the learner inside the CV schemes "
              "is outside the property's quantifier (PLS, MLR, LDA): deviations there are EXTRA-FINDINGs, not verdicts. ICA (randDouble without seeding) is not driven: "
              "ica.c is debugging code (hard-wired data, sleep(2)). Round 3: the ThreadSanitizer block is a sampled happens-before detector (schedules as they occur on 2-4 worker threads, 1-2 inner "
              "processors, with and without a disturber), its attribution of a report to a state class is plumbing (function names on the access / allocation stacks), the judgement is TLC's. "
              "Classes excluded because the statement does not cover them: K9 missing-value codes; KFoldCV with LDA (no such branch in the routine). K3/K4/K5/K8/K10 data classes are inside the "
              "quantifier ('same inputs') but no determinism defect is specific to them: they are emitted as a stratified handful. A crash of a routine on a history class (KFoldCV into an output "
              "of another shape frees the caller's matrix) is memory safety, reported as EXTRA-FINDING. PLS/MLR/LDA workers reach no MT_* kernel on this tree: inner processor counts > 1 only "
              "matter for PCARankValidation. Results across thread (and processor) counts are accepted when equal to rounding (TolRound(m) = (2 + m)e-12 relative, m merged terms); the code "
              "is bit-identical today, a difference within rounding is SPEC-DRIFT, not a violation. Follow-up: a lock probe decides at which hook points a worker may be parked (a library "
              "that serialises its generator calls with a lock keeps the fine-grained gate from working: the gate then works on whole calls, or not at all - the verdict then rests on the "
              "call-level choreography of two application threads, which needs no parking inside the library, on the recorded y-scrambling and on un-gated runs with 300 objects); every "
              "infrastructure failure a change of the library can provoke is raised only after all recorded runs were judged. YScrambling is swept over all thread counts 1..8 for both "
              "validation types and the three learners.")

W = max(1, int(os.environ.get("VERIF_WORKERS", "8")))
ROUTINES = ["EPLS-bagging", "EPLS-subspace", "EPLS-bagging-subspace", "KMeans-random", "KMeans-pp", "KMeansppCenters", "KMeansRandomGroupsCV-random",
            "KMeansRandomGroupsCV-pp", "KMeansJumpMethod", "PCARankValidation", "UPLSRandomGroupsCV", "UPLSYScrambling", "StochasticUniversalSample",
            "RouletteWheelselection", "train_test_split", "random_kfold_group_generator", "MatrixInitRandomInt", "MatrixInitRandomFloat"]
RNG_ACTIONS = ["DoSeed", "DoClock", "DoRead", "DoWrite", "DoFork", "DoJoin"]


def _run_info(block):
    for e in block:
        if e.get("e") in ("Run", "Crash"):
            return e
    return {}


def _sig(ev, block):
    run = _run_info(block)
    mode, algo = run.get("mode", "?"), run.get("algo", "?")
    m0 = mode.split(":")[0]
    tag = mode if m0 == "eplscv" else m0 if m0 not in ("direct", "unseeded") else "%s:%s" % (m0, algo)
    if m0 == "tsan" and mode != "tsan:direct":
        tag = "tsan:cv"
    elif mode == "tsan:direct":
        tag = "tsan:direct:%s" % algo
    e = ev.get("e")
    if e == "Crash":
        return "RNG:crash:%s:%s:rc%s" % (ev.get("mode"), ev.get("algo"), ev.get("rc")), "run died or hung: %s" % ev
    if e == "Read" and run.get("lock", 0):
        return "RNG:shared-word:lock-serialised", ("thread %s read generator word %s which another thread wrote: the generator word is shared by the threads and its accesses are serialised by a lock "
                                                   "(lock probe: a thread parked inside the generator keeps the others out at hook points mask %s) - no unsynchronised access, but one worker's srand_ / draws "
                                                   "land in the middle of another's stream, so results depend on the schedule (%s %s, schedule %s)" % (ev.get("w"), ev.get("v"), run.get("lock"), mode, algo, run.get("word")))
    if e == "Read":
        return "RNG:isolation:%s" % tag, ("thread %s read generator word %s which it did not write last: the seeded stream of one thread is perturbed by another, or the thread "
                                           "never seeded (schedule %s, %s)" % (ev.get("w"), ev.get("v"), run.get("word"), algo))
    if e == "Clock":
        return "RNG:clock:%s" % tag, ("thread %s took the wall clock as generator state (draw on a word it never seeded, or a seed taken from the clock): the result is not a "
                                       "function of the inputs (%s, %s)" % (ev.get("w"), mode, algo))
    if e == "Race":
        return "RNG:race:%s:%s" % (ev.get("var"), ev.get("name") or ev.get("f1")), (
            "ThreadSanitizer reports a %s on state the model says is never accessed by two threads without synchronisation: %s (%s '%s'; accesses in %s [%s] and %s [%s]%s) in %s %s, %s threads"
            % (ev.get("kind"), ev.get("var"), ev.get("loc"), ev.get("name"), ev.get("f1"), ev.get("t1"), ev.get("f2"), ev.get("t2"),
               "; allocated in %s" % ev.get("alloc") if ev.get("alloc") else "", mode, algo, run.get("nth")))
    if e == "Result" and ev.get("libc", 0) > 0:
        return "RNG:libc-generator:%s" % tag, ("the library drew from libc's process-wide generator (rand/srand/random/drand48: %s calls) during %s %s - state shared by every thread of the process, outside "
                                              "the seeded stream" % (ev.get("libc"), mode, algo))
    if e == "Result":
        return "RNG:result-differs:%s" % tag, "result differs from the sequential/reference run (%s, %s, schedule %s, threads %s, repetition %s, fresh thread %s)" % (
            mode, algo, run.get("word"), ev.get("nth", run.get("nw")), ev.get("rep"), ev.get("fresh"))
    return "RNG:trace:%s" % e, "unexpected event %s in %s" % (ev, run)


def _is_extra_block(run_):
    """blocks that exercise behaviour outside the statement/quantifier of C06: EPLS as the learner inside a CV scheme, calls without seeding"""
    mode = run_.get("mode", "")
    return mode.startswith("eplscv") or mode == "unseeded" or (mode == "sched" and str(run_.get("algo", "")).startswith("EPLS"))


def run(ctx):
    q = ctx.quick
    ctx.assumptions += [
        "only the generator word (observed by hook H1) and the wall clock (interposed time()) are decided; no generic data-race detector is used",
        "the gate forces the first Q generator steps of each of the first NW worker threads; workers are identified by order of arrival at srand_",
        "results are compared through a 64-bit FNV hash of the bytes of every output (bit-identity)",
        "bootstrap thread counts are restricted to divisors of the iteration count, as the property states (CvOrch.tla shows why)",
        "routines that do not seed themselves (EPLS subspace variants, KMeans, KMeansppCenters, KMeansJumpMethod) are called right after srand_(seed) by the caller - "
        "the statement's 'after seeding'; the same calls without seeding are reported as EXTRA only",
        "MatrixInitRandomInt/Float seed from the clock by contract: determinism is required for a fixed (interposed) clock",
        "UPLS tensors are built with as many y columns as orders (UPLSYPredictor indexes y columns by the order count: memory-safety defect outside C06)",
    ]
    # ---------------- (M)
    taken = set()
    pool = ThreadPoolExecutor(max(1, min(W, 6)))
    tw = 2 if W >= 4 else 1
    mc_jobs = [("MC_Rng_TRUE_2.cfg", "mc_rng_perthread_2x2", None), ("MC_Rng_TRUE_3.cfg", "mc_rng_perthread_3x1", None),
               ("MC_Rng_reseed_TRUE_2.cfg", "mc_rng_reseed_perthread_2x1", None), ("MC_Rng_reseed_TRUE_3.cfg", "mc_rng_reseed_perthread_3x1", None),
               ("MC_Rng_forkjoin_TRUE.cfg", "mc_rng_forkjoin_perthread_1+2x2", None), ("MC_Rng_FALSE_2.cfg", "mc_rng_global_2x2", "StreamIsolation"),
               ("MC_Rng_reseed_FALSE_2.cfg", "mc_rng_reseed_global_2x1", "StreamIsolation"), ("MC_Rng_forkjoin_FALSE.cfg", "mc_rng_forkjoin_global", "StreamIsolation"),
               ("MC_Rng_unseeded.cfg", "mc_rng_unseeded", "NoClock"),
               ("MC_Rng_TRUE_3x2.cfg", "mc_rng_perthread_3x2", None), ("MC_Rng_TRUE_4.cfg", "mc_rng_perthread_4x1", None),
               ("MC_Rng_foreign_TRUE.cfg", "mc_rng_foreign_perthread_2+1x1", None), ("MC_Rng_foreign_FALSE.cfg", "mc_rng_foreign_global", "StreamIsolation"),
               ("MC_Rng_FALSE_4.cfg", "mc_rng_global_4x1", "StreamIsolation")]
    if not q:
        mc_jobs += [("MC_Rng_TRUE_4x2.cfg", "mc_rng_perthread_4x2", None), ("MC_Rng_TRUE_5.cfg", "mc_rng_perthread_5x1", None),
                    ("MC_Rng_foreign_TRUE_2x2.cfg", "mc_rng_foreign_perthread_2+1x2", None)]
    # the harness jobs that need no schedule word (recorded y-scrambling, thread-count sweeps, class table, histories, direct routines ...) run next to the model checking
    lib = build.build_lib("plain")
    exe = build.build_harness("c06", ["c06_drv.c"], lib)
    rd = tlc.rundir()
    jobs_a = []
    jobs_a.append([os.path.join(rd, "y.ndjson"), "yscr", ctx.seed, 2 if q else 8])
    for i in range(1 if q else 4):
        jobs_a.append([os.path.join(rd, "n%d.ndjson" % i), "counts", ctx.seed + i, 9 if q else 18])
    jobs_a.append([os.path.join(rd, "st.ndjson"), "stress", ctx.seed + 5, 40 if q else 600])
    nr = len(ROUTINES)
    for i in range(2 if q else 30):       # every routine once per job
        jobs_a.append([os.path.join(rd, "d%d.ndjson" % i), "direct", ctx.seed + 20 + i, nr, i * nr])
    for i in range(1 if q else 8):
        jobs_a.append([os.path.join(rd, "e%d.ndjson" % i), "eplscv", ctx.seed + 40 + i, 9 if q else 18])
    for i in range(4 if q else 36):       # the class table (24 entries), 6 entries per job (thorough: 9 rounds over the table with other data and sizes)
        jobs_a.append([os.path.join(rd, "c%d.ndjson" % i), "classes", ctx.seed + 60 + i, 6, 6 * i])
    for i in range(1 if q else 8):
        jobs_a.append([os.path.join(rd, "h%d.ndjson" % i), "hist", ctx.seed + 80 + i, 9 if q else 18])
    for i in range(2 if q else 8):        # y-scrambling, every requested thread count 1..8, bootstrap and LOO validation inside, PLS / MLR / LDA
        jobs_a.append([os.path.join(rd, "yc%d.ndjson" % i), "yscount", ctx.seed + 100 + i // 2, 3, 3 * (i % 2)])
    jobs_a_fut = pool.submit(hrun.run_many, exe, jobs_a, timeout=1500, workers=2 if q else max(2, W // 2))
    # the ThreadSanitizer build and its cases run next to the model checking
    tsan_rd = tlc.rundir()
    # case index -> learner x scheme (15) x thread count 2..4 (x15) x inner processors 1..2 (x45) x disturber (x90); the quick tier takes one stratified case per learner x scheme
    tsan_cases = ([("selftest", 0, 0)] + [("cv", i, ctx.seed) for i in ([i + 15 * (i % 3) + 45 * ((i // 3) % 2) + 90 * ((i // 5) % 2) for i in range(15)] if q else range(180))]
                  + [("direct", i, ctx.seed) for i in ([i + 7 * (i % 3) + 21 * (i % 2) for i in range(7)] if q else range(42))])

    def tsan_job():
        exe_t = c06_race.build_tsan()
        return c06_race.run_cases(exe_t, tsan_rd, tsan_cases, timeout=600, workers=2 if q else max(2, min(W, 6)))
    tsan_fut = pool.submit(tsan_job)
    mc_fut = [pool.submit(tlc.run, "Rng", cfg, timeout=900, workers=tw) for cfg, label, expect in mc_jobs]
    orch_fut = pool.submit(tlc.run, "CvOrch", "MC_CvOrch_boot.cfg", timeout=600, workers=tw)

    def mc(cfg, label, expect, r):
        ctx.add_tlc(r, label)
        for a, (t, g) in r.coverage.items():
            if t > 0:
                taken.add(a)
        if expect is None:
            if not r.ok:
                raise InfraError("Rng.tla %s violates %s in the model:\n%s" % (cfg, r.violation, r.trace_text[:1200]))
        else:
            if r.ok or r.violation != expect:
                raise InfraError("Rng.tla %s: expected a counterexample to %s, got %s (model no longer discriminates)" % (cfg, expect, r.violation))
            ctx.steps[label]["expected_counterexample"] = r.violation
        return r
    # (GEN) runs are started now as well; their results are consumed below
    gen_specs = [("GEN_Rng_2_1.cfg", None), ("GEN_Rng_2_2.cfg", None), ("GEN_Rng_3_1.cfg", None), ("GEN_Rng_reseed_2_1.cfg", None),
                 ("GEN_Rng_sim_2.cfg", 12 if q else 400), ("GEN_Rng_sim_3.cfg", 6 if q else 250),
                 ("GEN_Rng_foreign_2_1.cfg", None), ("GEN_Rng_3_2.cfg", 14 if q else 4000), ("GEN_Rng_4_1.cfg", 10 if q else 2000)]
    gen_fut = {}
    for cfg, sim in gen_specs:
        if sim:
            gen_fut[cfg] = pool.submit(tlc.run, "Rng", cfg, timeout=900, coverage=False, workers=1, simulate="num=%d" % sim, depth=400, seed=ctx.seed + 11 + len(gen_fut))
        else:
            gen_fut[cfg] = pool.submit(tlc.run, "Rng", cfg, timeout=900, coverage=False, workers=tw)
    for (cfg, label, expect), f in zip(mc_jobs, mc_fut):
        mc(cfg, label, expect, f.result())
    missing = [a for a in RNG_ACTIONS if a not in taken]
    if missing:
        raise InfraError("Rng.tla actions never taken in any model-checking run: %s" % missing)
    r = orch_fut.result()
    ctx.add_tlc(r, "mc_orch_boot")
    if not r.ok:
        raise InfraError("CvOrch.tla: %s" % r.violation)
    # ---------------- (GEN) schedule words
    rnd = random.Random(ctx.seed)

    def gen(cfg, label, take, sim=None):
        r = gen_fut[cfg].result()
        if label:
            ctx.add_tlc(r, label)
        if any(not e["isolated"] for e in r.emits):
            raise InfraError("%s: the per-thread model emitted a non-isolated behaviour" % cfg)
        words = sorted(set(tuple(e["sched"]) for e in r.emits))
        if not words:
            raise InfraError("no schedule words generated by %s" % cfg)
        total = len(words)
        if take and take < len(words):
            rnd.shuffle(words)
            words = words[:take]
        return words, total
    plans = []      # (label, nw, k, eplsset, words, total, sampled)
    for nw, k, take in ([(2, 1, None), (2, 2, 28), (3, 1, 28)] if q else [(2, 1, None), (2, 2, None), (3, 1, None)]):
        words, total = gen("GEN_Rng_%d_%d.cfg" % (nw, k), "gen_sched_%dx%d" % (nw, k), take)
        plans.append(("%dx%d" % (nw, k), nw, k, 0, words, total, False))
        if (nw, k) == (2, 1):
            plans.append(("epls:2x1", nw, k, 1, words, total, False))
    words, total = gen("GEN_Rng_reseed_2_1.cfg", "gen_sched_reseed_2x1", 24 if q else None)
    plans.append(("epls:reseed2x1", 2, 1, 1, words, total, False))
    words, total = gen("GEN_Rng_sim_2.cfg", "gen_sched_sim_2x20", None, sim=12 if q else 400)
    plans.append(("epls:sim2x20", 2, 20, 1, words, total, True))
    words, total = gen("GEN_Rng_sim_3.cfg", "gen_sched_sim_3x10", None, sim=6 if q else 250)
    plans.append(("epls:sim3x10", 3, 10, 1, words, total, True))
    # round 3: three workers x two draws and four workers (sampled by simulation), a foreign caller (disturber) next to the CV workers
    words, total = gen("GEN_Rng_3_2.cfg", "gen_sched_sim_3x2", 12 if q else 2400, sim=True)
    plans.append(("3x2", 3, 2, 0, words, total, True))
    words, total = gen("GEN_Rng_4_1.cfg", "gen_sched_sim_4x1", 8 if q else 1200, sim=True)
    plans.append(("4x1", 4, 1, 0, words, total, True))
    words, total = gen("GEN_Rng_foreign_2_1.cfg", "gen_sched_foreign_2+1x1", 20 if q else None)
    plans.append(("dist:2+1x1", 3, 1, 2, words, total, False))
    words, total22 = gen("GEN_Rng_2_2.cfg", None, None)
    dwords = list(words)
    rnd.shuffle(dwords)
    plans.append(("dist:1+1x2", 2, 2, 2, dwords[:12] if q else dwords, total22, False))
    rnd.shuffle(dwords)
    dsched_words = dwords[:len(ROUTINES)] if q else dwords
    try:
        jobs = []
        cwords = dwords[:24] if q else dwords
        sf = os.path.join(rd, "calls.txt")
        with open(sf, "w") as f:
            for w in cwords:
                f.write(" ".join(map(str, w)) + "\n")
        jobs.append([os.path.join(rd, "calls.ndjson"), "calls", ctx.seed + 110, sf, 2])
        dchunk = max(1, (len(dsched_words) + 3) // 4)
        for ci in range(0, len(dsched_words), dchunk):
            sf = os.path.join(rd, "ds_%d.txt" % ci)
            with open(sf, "w") as f:
                for w in dsched_words[ci:ci + dchunk]:
                    f.write(" ".join(map(str, w)) + "\n")
            jobs.append([os.path.join(rd, "ds_%d.ndjson" % ci), "dsched", ctx.seed + 90 + ci, sf, 2, ci])
        for label, nw, k, eplsset, words, total, sampled in plans:
            chunk = max(1, (len(words) + 5) // 6)
            for ci in range(0, len(words), chunk):
                tag = label.replace(":", "_")
                sf = os.path.join(rd, "s_%s_%d.txt" % (tag, ci))
                with open(sf, "w") as f:
                    for w in words[ci:ci + chunk]:
                        f.write(" ".join(map(str, w)) + "\n")
                jobs.append([os.path.join(rd, "t_%s_%d.ndjson" % (tag, ci)), "sched", ctx.seed + ci, sf, nw, k, eplsset])
        # Every failure that a change of the library can provoke (gate that cannot force, crashed or hung harness, silent hook, missing events) is DEFERRED:
        # whatever was recorded is judged first; the failure is raised at the very end, and only if no verdict was reached.
        deferred = []

        def defer(msg):
            deferred.append(msg)
        ctx.note("models checked, %d schedule plans generated; running %d harness jobs" % (len(plans), len(jobs)))
        res = hrun.run_many(exe, jobs, timeout=1500, workers=min(W, 10))
        res = jobs_a_fut.result() + res
        jobs = jobs_a + jobs
        ctx.note("harness jobs done")
        events = []
        stuck_words = 0
        for j, h in zip(jobs, res):
            ev = hrun.read_ndjson(j[0])
            if h.rc != 0:
                defer("c06 harness ended with rc=%d %s: %s" % (h.rc, j[1:3], h.err[-400:]))
            if any(e.get("e") == "Overflow" for e in ev):
                defer("event recorder overflowed in %s" % j[1:3])
            stuck_words += sum(1 for e in ev if e.get("e") == "Stuck")
            ev = [e for e in ev if e.get("e") not in ("Stuck", "Overflow", "Abandon")]
            # only complete blocks are judged (a harness that died leaves a torn last block)
            for b in tlc.split_blocks(ev):
                if any(e.get("e") in ("End", "Crash") for e in b) or any(e.get("e") == "Broken" for e in b):
                    events += b
        if stuck_words:
            defer("the schedule gate gave up on %d forced words (a worker could not get its turn within 6 s); those runs went on un-gated and were judged as recorded" % stuck_words)
        if not any(e["e"] == "Read" for e in events):
            defer("no Read events: hook H1 is not firing (hooks removed or guard off)")
        # routines that cannot be driven at all on this tree (crash on every input): outside the verdict, reported once
        for e in events:
            if e["e"] == "Broken" and e["algo"].startswith("KFoldCV"):
                ctx.extra("CV:kfold:reused-output-freed", "KFoldCV handed a predicted_y matrix that already has ANOTHER shape frees it behind the caller's back (MatrixCopy(y_predicted, &predicted_y) "
                          "re-allocates through the address of the PARAMETER, modelvalidation.c:1207; LeaveOneOut and BootstrapRandomGroupsCV resize first): the caller's matrix is a dangling "
                          "pointer afterwards (child status %s; heap-use-after-free under ASan). Memory safety, outside the statement of C06; candidate repair: fixes/C05-kfoldcv-sized-output.diff (found independently by the C05 check; verified here: with it the probe returns the hash of a fresh output). "
                          "The check hands KFoldCV outputs of the right shape holding other data instead" % e["rc"])
            elif e["e"] == "Broken":
                ctx.extra("RNG:broken:%s" % e["algo"], "%s dies on every input (child status %s; with the random-groups validation it hands r2x = NULL to UPLSRandomGroupsCV, which "
                          "dereferences it, upls.c:1448) - the drawing path of this routine cannot be driven; the leave-one-out path (which only seeds) is checked" % (e["algo"], e["rc"]))
        events = [e for e in events if e["e"] != "Broken"]
        blocks = tlc.split_blocks(events)
        try:
            tsan_blocks, tsan_reports = tsan_fut.result()
        except (InfraError, build.BuildError) as ex:
            defer("ThreadSanitizer block failed: %s" % str(ex)[:400])
            tsan_blocks, tsan_reports = [], 0
        if tsan_blocks and not any(e["e"] == "Race" and e.get("name") == "racy_cell" for b in tsan_blocks for e in b):
            defer("ThreadSanitizer positive control: the deliberate race in the harness was not reported (TSan build not effective)")
        if sum(1 for b in tsan_blocks if any(e["e"] == "Result" for e in b)) < len(tsan_cases) - 2:
            defer("ThreadSanitizer block: only %d of %d cases completed" % (sum(1 for b in tsan_blocks if any(e["e"] == "Result" for e in b)), len(tsan_cases)))
        blocks += tsan_blocks
        ctx.cov["tsan"] = dict(cases=len(tsan_cases), reports=tsan_reports, races_by_class={})
        for b in tsan_blocks:
            for e in b:
                if e["e"] == "Race":
                    ctx.cov["tsan"]["races_by_class"][e["var"]] = ctx.cov["tsan"]["races_by_class"].get(e["var"], 0) + 1
        main_blocks, extra_blocks = [], []
        for b in blocks:
            run_ = _run_info(b)
            crash = [e for e in b if e["e"] == "Crash"]
            if crash and (crash[0].get("mode") in ("direct", "unseeded", "eplscv", "dsched", "tsan", "classes", "hist") or _is_extra_block(run_)):
                # a routine that dies or hangs on an input is not a determinism verdict (other properties own that): report, leave out
                ctx.extra("RNG:crash:%s:%s" % (crash[0].get("mode"), crash[0].get("algo")), "run died or hung (status %s) and is left out of the verdict: %s" % (crash[0].get("rc"), run_ or crash[0]))
                continue
            (extra_blocks if _is_extra_block(run_) else main_blocks).append(b)
        # ---- vacuity of the new harness paths
        per = {}
        for b in main_blocks + extra_blocks:
            run_ = _run_info(b)
            key = (run_.get("mode", "").split(":")[0], run_.get("algo"))
            d = per.setdefault(key, dict(blocks=0, read=0, seed=0, clock=0, result=0, nonfinite=0, ts=run_.get("ts", 0)))
            d["blocks"] += 1
            for e in b:
                if e["e"] == "Read":
                    d["read"] += 1
                elif e["e"] == "Seed":
                    d["seed"] += 1
                elif e["e"] == "Clock":
                    d["clock"] += 1
                elif e["e"] == "Result":
                    d["result"] += 1
                elif e["e"] == "Seq" and e.get("num", 1) > 0 and 2 * e.get("fin", 1) < e.get("num", 1):
                    d["nonfinite"] += 1
        vac = []      # vacuity findings are raised after the trace validation: a change of the library that silences a path must surface as its verdict (if it has one), not as an infrastructure failure
        for rt in ROUTINES:
            d = per.get(("direct", rt)) or dict(blocks=0, read=0, seed=0, clock=0, result=0, nonfinite=0)
            if d["result"] == 0 or (d["seed"] == 0 and d["read"] == 0):      # what the events say is for TLC to judge; here only: were there any
                vac.append("direct routine %s produced no recorded run (blocks/seeds/reads/results: %s)" % (rt, d))
            if rt.startswith("MatrixInitRandom") and d["clock"] == 0:
                vac.append("no Clock event for %s: the time() interposer is not in effect" % rt)
            if d["nonfinite"] * 2 > d["blocks"]:
                vac.append("direct routine %s: most reference results are not finite (hash comparison would be vacuous)" % rt)
        for key, d in per.items():
            if key[0] in ("eplscv", "sched") and d["nonfinite"] * 2 > d["blocks"]:
                vac.append("%s: most reference results are not finite (hash comparison would be vacuous): %s" % (key, d))
        if not any(k[0] == "eplscv" and d["read"] > 0 for k, d in per.items()):
            vac.append("eplscv mode recorded no draws")
        # round 3 paths: every new mode must have produced complete blocks with results (and, where recorded, generator events)
        for m0, need_reads in (("classes", False), ("hist", False), ("dsched", True), ("tsan", False), ("yscount", False), ("calls", True)):
            ds = [d for k, d in per.items() if k[0] == m0]
            if not ds or sum(d["result"] for d in ds) == 0 or (need_reads and sum(d["read"] for d in ds) == 0):
                vac.append("mode %s produced no recorded run (%s)" % (m0, ds))
            if sum(d["nonfinite"] for d in ds) * 2 > sum(d["blocks"] for d in ds):
                vac.append("mode %s: most reference results are not finite (hash comparison would be vacuous)" % m0)
        for rt in ROUTINES:
            if not q and not per.get(("dsched", rt)):
                vac.append("dsched: routine %s was never run next to the disturber" % rt)
        allev = [e for b in main_blocks for e in b]
        if not any(e["e"] == "Create" for e in allev) or not any(e["e"] == "Called" for e in allev):
            vac.append("no Create/Called events: hook H5 (libsci_verif_cv) is not firing in the bootstrap CV")
        gated_runs = [_run_info(b) for b in main_blocks + extra_blocks if _run_info(b).get("mode") in ("sched", "dsched")]
        lock_masks = sorted(set(r_.get("lock", 0) for r_ in gated_runs))
        ctx.cov["gate"] = dict(lock_masks=lock_masks, runs=len(gated_runs), ungated_runs=sum(1 for r_ in gated_runs if r_.get("gate", 1) == 0), words_given_up=stuck_words)
        if lock_masks and lock_masks != [0]:
            ctx.note("lock probe: a thread parked inside the generator keeps other threads out of it at hook points %s (bit mask(s)); the gate parks workers only at the remaining points%s"
                     % (lock_masks, " - NO point is left: schedules cannot be forced on this library, the verdict rests on the un-gated blocks and the call-level choreography" if 31 in lock_masks else ""))
        dist_forced = [e.get("forced", 0) for b in main_blocks if _run_info(b).get("dist") == 1 for e in b if e["e"] == "Result"]
        if (not dist_forced or max(dist_forced) == 0) and 31 not in lock_masks:
            vac.append("no forced step in any disturber run (gate not in effect)")
        hist_same = [e.get("addrsame", 0) for b in main_blocks if _run_info(b).get("mode", "").startswith("hist") for e in b if e["e"] == "Result"]
        ctx.cov["history_runs"] = dict(results=len(hist_same), with_address_reuse=sum(1 for x in hist_same if x > 0))
        # input / history classes (INPUT-CLASSES.md): measured per executed block - the tags the harness put on the case plus the ones read off the recorded run
        for b in main_blocks + extra_blocks:
            run_ = _run_info(b)
            tags = set(run_.get("cls") or [])
            n_, p_, ny_ = run_.get("n", 0), run_.get("p", 0), run_.get("ny", 0)
            m0 = run_.get("mode", "").split(":")[0]
            if m0 in ("sched", "counts", "classes", "hist", "yscr", "yscount", "tsan", "eplscv") and n_ and p_:
                tags.add("K1:tall" if n_ > p_ + 1 else "K1:wide" if n_ < p_ else "K1:n=p+-1")
                tags.add("K1:ny>1" if ny_ > 1 else "K1:ny=1")
            for e in b:
                if e["e"] == "Result" and e.get("nth"):
                    tags.add("K6:threads-%d" % e["nth"])
                if e["e"] == "Result" and e.get("addrsame", 0) > 0:
                    tags.add("K7:block-at-freed-address")
                if e["e"] == "Result" and e.get("fresh") == 1:
                    tags.add("K7:fresh-thread")
            if m0 in ("direct", "counts", "classes", "eplscv", "yscr", "yscount", "hist"):
                tags.add("K7:repeated-call-in-process")
            for t in sorted(tags):
                ctx.cls(t)
        # forced re-seeds: sampled long words must reach a worker's second srand_ inside the forced window
        reseed_forced = 0
        alternating = 0
        addr_classes = set()
        for b in main_blocks + extra_blocks:
            run_ = _run_info(b)
            word = tuple(run_.get("word", []))
            # non-trivial: some worker seeds between another worker's seed and that worker's first read
            nt = True
            if run_.get("mode") in ("sched", "dsched"):
                first = {}
                seeds = {}
                for i, w in enumerate(word):
                    if w not in seeds:
                        seeds[w] = i
                    elif w not in first:
                        first[w] = i
                nt = any(seeds[a] < seeds[b2] < first.get(a, 10 ** 6) for a in seeds for b2 in seeds if a != b2)
                alternating += 1 if nt else 0
                qn = len(word) // max(1, run_.get("nw", 1))
                steps, nseed, hit = {}, {}, False
                for e in b:
                    if e["e"] == "Seed" and e["w"] >= 1:
                        nseed[e["w"]] = nseed.get(e["w"], 0) + 1
                        if nseed[e["w"]] == 2 and steps.get(e["w"], 0) < qn:
                            hit = True
                    elif e["e"] in ("Wrote", "Read") and e["w"] >= 1:
                        steps[e["w"]] = steps.get(e["w"], 0) + 1
                reseed_forced += 1 if hit else 0
            ctx.case((run_.get("mode"), run_.get("algo"), run_.get("n"), run_.get("p"), run_.get("nlv"), word, run_.get("nw"), run_.get("nproc"), run_.get("nth"), run_.get("dist"),
                      tuple(run_.get("cls") or [])), nt)
            for e in b:
                if e["e"] == "Result" and e.get("addrs"):
                    addr_classes.add(e["addrs"])
        ctx.cov["schedule_words"] = {label: dict(generated=total, forced=len(words), sampled=sampled) for label, nw, k, es, words, total, sampled in plans}
        ctx.cov["exhaustive"] = all(total == len(words) for label, nw, k, es, words, total, sampled in plans if not sampled)
        ctx.cov["implemented_variant"] = "perThread" if addr_classes and max(addr_classes) > 1 else "global"
        ctx.cov["forced_reseeds"] = reseed_forced
        ctx.cov["routines_driven"] = {"%s:%s" % k: d for k, d in sorted(per.items(), key=lambda kv: str(kv[0]))}
        ctx.cov["rule"] = ("a case is one recorded run block: a TLC-generated schedule word forced on the real bootstrap CV (learner cycles PLS/MLR/LDA, and the three EPLS ensembles), "
                           "a y-scrambling run, a thread-count sweep, a directly called drawing routine (threads 1..8 x 2 repetitions + fresh thread), or EPLS as CV learner; "
                           "non-trivial schedule = some worker seeds between another worker's seed and its first draw (%d such words; %d words forced a re-seed)" % (alternating, reseed_forced))
        for b in main_blocks[:400]:
            run_ = _run_info(b)
            if run_.get("mode") in ("sched", "direct"):
                ctx.sample(dict(run=run_, events=[e for e in b if e["e"] in ("Seed", "Wrote", "Read")][:8]), 4)

        def small(block):
            rec = ("Seed", "Wrote", "Read", "Clock")
            return [e for e in block if e["e"] not in rec] + [e for e in block if e["e"] in rec][:60]

        def on_reject(ev, idx, block):
            sig, what = _sig(ev, block)
            known = any(v[0] == sig for v in ctx.violations) or sig in ctx.known_hits
            ctx.violation(sig, what, dict(kind="block", run=_run_info(block), event=ev, block=small(block)))
            return "dup" if known else None

        def on_reject_extra(ev, idx, block):
            sig, what = _sig(ev, block)
            run_ = _run_info(block)
            if run_.get("mode") == "unseeded":
                sig = "RNG:clock:unseeded-call"
                what = ("routines that draw from the caller's stream (EPLS subspace variants, KMeans, KMeansppCenters, KMeansJumpMethod) take the wall clock as generator state when "
                        "the caller never called srand_ on that thread (numeric.c:68): results then differ from run to run - by design of the fallback; first seen: %s" % run_.get("algo"))
            else:
                # group the findings of one cause: scheme x ensemble method
                sig = sig + ":" + str(run_.get("algo"))
                what += " [EPLS is outside the quantifier of C06 (PLS, MLR, LDA)]"
            ctx.extra(sig, what)
            return None
        def is_tsan(b):
            return _run_info(b).get("mode", "").startswith("tsan")

        def is_gated(b):
            return _run_info(b).get("mode") in ("sched", "dsched")
        # (the deterministic un-gated detectors first: call-level choreography, recorded y-scrambling, y-scrambling thread counts; a tree that fails them repeats the same
        # signatures in the sampled blocks behind them)
        prio = {"calls": 0, "yscr": 1, "yscount": 2}
        ncalls = [0]

        def prio_of(b):
            m = _run_info(b).get("mode", "").split(":")[0]
            if m == "calls":
                ncalls[0] += 1
                return 0 if ncalls[0] <= 3 else 4       # (a failing tree repeats one signature on every word: three words in front, the rest behind)
            return prio.get(m, 3)
        free_blocks = sorted([b for b in main_blocks if not is_tsan(b) and not is_gated(b)], key=prio_of)
        free_events = [e for b in free_blocks for e in b]
        gated_events = [e for b in main_blocks if is_gated(b) for e in b]
        tsan_events = [e for b in main_blocks if is_tsan(b) for e in b]
        extra_events = [e for b in extra_blocks for e in b]
        # 1. the un-gated blocks (natural scheduling, call-level choreography, y-scrambling, thread-count sweeps, histories): nothing the gate does can keep them from being judged
        if free_events:
            trace.check_trace(ctx, "TraceRng", "Trace_Rng.cfg", "Trace_Rng_prop.cfg", free_events, on_reject, drop="block", max_rounds=60, label="trace_rng_free", xmx="8g")
        # 2. the ThreadSanitizer block on its own: a tree that fails the forced schedules must still have its races attributed
        if tsan_events:
            trace.check_trace(ctx, "TraceRng", "Trace_Rng.cfg", "Trace_Rng_prop.cfg", tsan_events, on_reject, drop="block", max_rounds=40, label="trace_rng_tsan", xmx="3g")
        # 3. the forced schedules
        if gated_events:
            trace.check_trace(ctx, "TraceRng", "Trace_Rng.cfg", "Trace_Rng_prop.cfg", gated_events, on_reject, drop="block", max_rounds=60, label="trace_rng", xmx="8g")
        ctx.traces(len(main_blocks))
        ctx.note("recorded runs validated (%d blocks inside the statement, %d outside)" % (len(main_blocks), len(extra_blocks)))
        # data races TLC accepted: on state the model does not speak about (RngState.tla OutsideModel) - reported, never a verdict
        for b in tsan_blocks:
            for e in b:
                if e["e"] == "Race" and e.get("var") == "other" and e.get("name") != "racy_cell":
                    run_ = _run_info(b)
                    ctx.extra("RACE:other:%s:%s:%s" % (e.get("name") or e.get("loc"), e.get("f1"), e.get("f2")),
                              "ThreadSanitizer reports a %s outside the state of the C06 model (%s '%s', accesses in %s and %s) while running %s %s with %s threads, %s processors"
                              % (e.get("kind"), e.get("loc"), e.get("name"), e.get("f1"), e.get("f2"), run_.get("mode"), run_.get("algo"), run_.get("nth"), run_.get("nproc")))
        if extra_blocks:
            # blocks outside the statement are EXPECTED to contain rejections (one TLC round each): validate the groups side by side, then merge in order
            groups = {}
            for b in extra_blocks:
                run_ = _run_info(b)
                groups.setdefault((run_.get("mode"), run_.get("algo")), []).extend(b)

            class Rec:
                def __init__(self):
                    self.calls = []

                def add_tlc(self, r, label=None):
                    self.calls.append(("tlc", r, label))

                def note(self, m):
                    self.calls.append(("note", m))

                def spec_drift(self, m):
                    self.calls.append(("drift", m))

            def one(key, evs):
                rec = Rec()

                def rej(ev, idx, block):
                    rec.calls.append(("rej", ev, block))
                    return None
                # property layer only, own loop: these groups are EXPECTED to be rejected; one TLC start per rejection (+ one for the accepted rest)
                ev = list(evs)
                for _ in range(400):
                    ok, n, r = tlc.validate_trace("TraceRng", "Trace_Rng_prop.cfg", ev, xmx="3g")
                    rec.add_tlc(r, "trace_rng_extra:%s:%s" % key)
                    if ok or n >= len(ev):
                        break
                    lo, hi = trace._block_bounds(ev, n)
                    rej(ev[n], n, ev[lo:hi])
                    ev = ev[hi:]
                    if not ev:
                        break
                return rec
            futs = [(key, pool.submit(one, key, evs)) for key, evs in sorted(groups.items(), key=lambda kv: str(kv[0]))]
            for key, f in futs:
                for c in f.result().calls:
                    if c[0] == "tlc":
                        ctx.add_tlc(c[1], None)
                        st = ctx.steps.setdefault("trace_rng_extra", dict(distinct=0, generated=0, wall_s=0.0, runs=0))
                        st["distinct"] += c[1].distinct
                        st["generated"] += c[1].generated
                        st["wall_s"] = round(st["wall_s"] + c[1].wall, 2)
                        st["runs"] += 1
                    elif c[0] == "note":
                        ctx.note(c[1])
                    elif c[0] == "drift":
                        ctx.spec_drift(c[1])
                    else:
                        on_reject_extra(c[1], 0, c[2])
            ctx.traces(len(extra_blocks))

        ctx.note("blocks outside the statement validated")
        deferred += vac
        if deferred and ctx.violations:
            ctx.note("infrastructure trouble on this tree, reported after the verdict: %s" % "; ".join(deferred[:4]))
            ctx.assumptions.append("the run also met infrastructure trouble (judged after the verdict): %s" % "; ".join(deferred[:6])[:600])
            return
        if deferred:
            raise InfraError("; ".join(deferred[:4]))
        if reseed_forced == 0 and not ctx.violations and 31 not in lock_masks:
            # (with a violation on record the run fails anyway: a change that removed the re-seed is then a verdict, not an infrastructure problem)
            raise InfraError("no forced schedule reached a worker's re-seed inside the forced window (EPLS learner): the reseed shape is not exercised on the code")
        # ---- binding self-tests: one corrupted field per event kind must be rejected
        def first_block(pred):
            for b in main_blocks:
                if pred(_run_info(b), b):
                    return b
            raise InfraError("binding self-test: no suitable block")

        def corrupt_field(kind, field, value, nth=0):
            def f(evs):
                k = 0
                for e in evs:
                    if e["e"] == kind:
                        if k == nth:
                            e[field] = value
                            return True
                        k += 1
                return False
            return f
        # (the self-tests are independent TLC runs: side by side)
        bfut = []

        def bst(*a):
            bfut.append(pool.submit(trace.binding_selftest, ctx, *a))
        b_sched = first_block(lambda r, b: r.get("mode") == "sched" and any(e["e"] == "Read" for e in b))
        bst("TraceRng", "Trace_Rng.cfg", b_sched, corrupt_field("Read", "v", [1, 2345]), "binding_read")
        bst("TraceRng", "Trace_Rng.cfg", b_sched, corrupt_field("Seed", "s", [7, 7]), "binding_seed")
        b_dir = first_block(lambda r, b: r.get("mode") == "direct" and r.get("algo") == "KMeans-pp" and any(e["e"] == "Read" for e in b))
        bst("TraceRng", "Trace_Rng.cfg", b_dir, corrupt_field("Result", "h", [1, 2, 3], nth=3), "binding_result_direct")
        bst("TraceRng", "Trace_Rng.cfg", b_dir, corrupt_field("Read", "w", 5), "binding_caller_only")
        bst("TraceRng", "Trace_Rng.cfg", b_dir, corrupt_field("Wrote", "v", [3, 3], nth=2), "binding_wrote_gen")
        b_clk = first_block(lambda r, b: r.get("mode") == "direct" and r.get("ts") == 1 and any(e["e"] == "Clock" for e in b))
        bst("TraceRng", "Trace_Rng_prop.cfg", b_clk, corrupt_field("Run", "ts", 0), "binding_clock")
        if not any(e["e"] == "Clear" for e in b_dir):
            raise InfraError("no Clear event in a direct block")
        # round 3 event kinds and fields
        b_race = first_block(lambda r, b: r.get("mode") == "tsan:selftest" and any(e["e"] == "Race" for e in b))
        bst("TraceRng", "Trace_Rng_prop.cfg", b_race, corrupt_field("Race", "var", "XOR128_SEED"), "binding_race_private_state")
        bst("TraceRng", "Trace_Rng_prop.cfg", b_race, corrupt_field("Race", "var", "worker-slot"), "binding_race_worker_slot")
        b_cls = first_block(lambda r, b: r.get("mode") == "classes:boot" and any(e["e"] == "Create" for e in b) and sum(1 for e in b if e["e"] == "Result") >= 2)
        bst("TraceRng", "Trace_Rng_prop.cfg", b_cls, corrupt_field("Result", "libc", 1), "binding_libc_generator")

        def corrupt_rounding(evs):       # another thread count, result off by more than rounding
            for e in evs:
                if e["e"] == "Result" and e.get("nth", 1) != 1:
                    e["h"] = [1, 2, 3]
                    e["dq"] = 5000
                    return True
            return False
        bst("TraceRng", "Trace_Rng_prop.cfg", b_cls, corrupt_rounding, "binding_rounding_bound")

        def corrupt_repeat(evs):         # the second run with one thread count differs from the first although both are within rounding of the reference
            for e in evs:
                if e["e"] == "Result" and e.get("rep", 0) >= 1 and e.get("nth", 1) != 1:
                    e["h"] = [1, 2, 3]
                    e["dq"] = 0
                    return True
            return False
        bst("TraceRng", "Trace_Rng_prop.cfg", b_cls, corrupt_repeat, "binding_repeated_run")

        def rounding_only(evs):          # control of the tolerance clause itself: off by rounding with another thread count is accepted by the property layer, not by the implementation layer
            for e in evs:
                if e["e"] == "Result" and e.get("nth", 1) != 1:
                    e["h"] = [1, 2, 3]
                    e["dq"] = 1
            return True
        import copy
        evr = copy.deepcopy(b_cls)
        rounding_only(evr)
        fp = pool.submit(tlc.validate_trace, "TraceRng", "Trace_Rng_prop.cfg", evr)
        fi = pool.submit(tlc.validate_trace, "TraceRng", "Trace_Rng.cfg", copy.deepcopy(evr))
        okp, oki = fp.result()[0], fi.result()[0]
        if not okp or oki:
            raise InfraError("rounding clause of TResult: a result equal to rounding across thread counts must pass the property layer (%s) and fail the implementation layer (%s)" % (okp, not oki))
        ctx.steps["control_rounding_clause"] = dict(prop_accepts=okp, impl_rejects=not oki)

        def corrupt_create(evs):
            for e in evs:
                if e["e"] == "Create" and e["th"] == 0 and e["it"] > 0:
                    e["seed"] += 1
                    return True
            return False
        bst("TraceRng", "Trace_Rng.cfg", b_cls, corrupt_create, "binding_create_seed_formula")

        def drop_create(evs):
            for i, e in enumerate(evs):
                if e["e"] == "Create":
                    del evs[i]
                    return True
            return False
        bst("TraceRng", "Trace_Rng.cfg", b_cls, drop_create, "binding_called_seed_set")
        b_hist = first_block(lambda r, b: r.get("mode", "").startswith("hist") and any(e["e"] == "Result" for e in b))
        bst("TraceRng", "Trace_Rng_prop.cfg", b_hist, corrupt_field("Result", "h", [3, 2, 1], nth=1), "binding_history_result")
        b_ds = first_block(lambda r, b: r.get("mode") == "dsched" and sum(1 for e in b if e["e"] == "Read") >= 2)
        bst("TraceRng", "Trace_Rng_prop.cfg", b_ds, corrupt_field("Read", "v", [4, 4321], nth=1), "binding_disturbed_read")
        b_calls = first_block(lambda r, b: r.get("mode") == "calls" and sum(1 for e in b if e["e"] == "Read") >= 2)
        bst("TraceRng", "Trace_Rng_prop.cfg", b_calls, corrupt_field("Read", "v", [5, 4321], nth=1), "binding_call_level_read")
        b_yc = first_block(lambda r, b: r.get("mode", "").startswith("yscount") and sum(1 for e in b if e["e"] == "Result") >= 7)
        bst("TraceRng", "Trace_Rng_prop.cfg", b_yc, corrupt_rounding, "binding_yscrambling_thread_count")
        for f in bfut:
            f.result()
    finally:
        pool.shutdown(wait=False)
        shutil.rmtree(rd, ignore_errors=True)
        shutil.rmtree(tsan_rd, ignore_errors=True)


def replay(ctx, body):
    run(ctx)
