"""C20 - the Python bindings describe exactly the C structures and functions they call.

Translation validation of two descriptions of one ABI.  On every run, from the CURRENT tree (build.REPO):
  C side      clang JSON AST of src/*.h (records, typedefs resolved to canonical kinds, every prototype) and a generated
              program printing offsetof/sizeof of every field of every struct, compiled with the library's flags and run;
  Python side the real package imported with libscientific.loadlibrary replaced by a recording stub (argtypes/restype
              assignments, ctypes.Structure _fields_ with the offsets ctypes computes) + an AST walk listing every
              lsci.<name> the package references;
  symbols     nm -D of the fresh libsci.so.
The facts are written as the data module AbiData.tla and spec/Abi.tla decides, per declaration: LayoutRule (the spec's
System V layout rule reproduces the compiler's offsets for every C struct - binds the rule to the real ABI), StructsAgree
(SameStruct through an ESTABLISHED pairing), FuncsDeclared, FuncsCompatible.  One TLC run (-continue) lists every mismatch.
"""
import copy, json, os, shutil
from vf import build, tlc
from vf.core import InfraError
from vf_abi import facts as abifacts
from vf_abi import cside

LEVEL = "translation_validation"
READY = True
TECHNIQUE = ("TLC evaluation of Abi.tla (LP64 System V layout rule, SameStruct, Compatible, Declared) over a data module generated on every run "
             "from clang's JSON AST of src/*.h, the compiler's own offsetof/sizeof output, the real Python package imported under a recording "
             "loader stub plus an AST walk of every lsci.<name> reference, and nm -D of the fresh libsci.so")
LEVEL_TEXT = ("Every ctypes.Structure of the package is compared field by field (order, kind, offset, size) with the C struct it is paired with "
              "(pairing established by name, else by unique field signature), and every lsci.<function> the package references is compared with the C "
              "prototype (arity, every parameter kind, return kind, declared, exported), for all declarations of the current tree; the spec's layout "
              "rule is validated against the offsets the C compiler itself produced for every struct of the headers.")
LEVEL_NOTE = ("Trusts clang's AST and type printing, ctypes' own sizeof/offset computation, nm, and TLC. LP64 System V only (the platform of the build). "
              "A header declaration without prototype `f()` is taken as zero parameters. Field names are compared up to case and a pure rename is accepted "
              "(a permutation is not). Semantic misuse of a correctly declared function is out of scope (C20 is about the declarations).")

INVARIANTS = ["LayoutRule", "StructsAgree", "FuncsDeclared", "FuncsCompatible"]


# ------------------------------------------------------------------------------------------------ extraction + TLC
def _collect(rd):
    lib = build.build_lib("plain")
    try:
        return abifacts.collect(build.REPO, lib, rd)
    except cside.AbiError as e:
        raise InfraError("ABI fact extraction failed: %s" % e)


def _judge(facts, rd, only=None, tag="abi", quick=True):
    """write AbiData.tla for `facts`, run TLC on Abi.tla, return (verdicts by (t,name), TlcResult)"""
    d = os.path.join(rd, tag)
    os.makedirs(d, exist_ok=True)
    abifacts.write_tla(facts, os.path.join(d, "AbiData.tla"), only=only)
    shutil.copy(os.path.join(tlc.SPEC, "Abi.tla"), d)
    cfg = os.path.join(d, "Abi.cfg")
    shutil.copy(os.path.join(tlc.SPEC, "MC_Abi_%s.cfg" % ("quick" if quick else "thorough")), cfg)
    # -coverage is off: the statistics collector makes the recursive layout operators intractable (observed: >2 min vs 3 s)
    r = tlc.run("Abi", cfg, workers=1, cont=True, specdir=d, timeout=600, xmx="2g", coverage=False, deadlock=False)
    verdicts = {}
    for e in r.emits:
        key = (e["t"], e["name"])
        if key in verdicts:
            raise InfraError("declaration %s emitted twice by TLC" % (key,))
        verdicts[key] = e
    nbad = sum(1 for v in verdicts.values() if v["issues"])
    nviol = r.out.count(" is violated")
    if (nbad == 0) != r.ok or not (nbad <= nviol <= len(INVARIANTS) * nbad):
        raise InfraError("TLC verdicts inconsistent: %d declarations with issues in the printed verdicts, %d invariant violations reported, ok=%s"
                         % (nbad, nviol, r.ok))
    return verdicts, r


def _expected_keys(facts, only=None):
    if only:
        return {only}
    return ({("layout", s["name"]) for s in facts["cstructs"]} | {("struct", s["name"]) for s in facts["pystructs"]}
            | {("func", f["name"]) for f in facts["funcs"]})


# ------------------------------------------------------------------------------------------------ reporting
def _byname(seq, name):
    for x in seq:
        if x["name"] == name:
            return x
    return None


def _cdecl(f):
    if not f["hasproto"]:
        return "(no prototype in src/*.h)"
    return "%s %s(%s) [%s]" % (f["c_ret"], f["name"], ", ".join(f["c_args"]) or ("" if f["noproto"] else "void"), f["c_where"])


def _pydecl(f):
    a = "argtypes=[%s]" % ", ".join(f["py_args"]) if f["argset"] else "argtypes never set"
    r = "restype=%s" % f["py_ret"] if f["retset"] else "restype never set (ctypes default c_int)"
    where = (f["refs"]["decl"] or f["refs"]["call"] or f["refs"]["other"] or ["?"])[0]
    return "%s, %s [%s]" % (a, r, where)


def _describe(facts, v, issue):
    """-> (signature, text, replay case) of one issue of one declaration"""
    t, name, what, sub, i = v["t"], v["name"], issue["what"], issue.get("sub", ""), issue.get("i", 0)
    sh = abifacts.show
    case = dict(kind="decl", t=t, name=name, issue=issue)
    if t == "func":
        f = _byname(facts["funcs"], name)
        both = "C: %s | python: %s" % (_cdecl(f), _pydecl(f))
        case.update(c=_cdecl(f), python=_pydecl(f))
        if what == "param":
            return ("ABI:func:%s:param %d" % (name, i),
                    "parameter %d of %s: C `%s` (%s) but python declares `%s` (%s). %s" % (
                        i, name, f["c_args"][i - 1], sh(f["cargs"][i - 1]), f["py_args"][i - 1], sh(f["args"][i - 1]), both), case)
        if what == "arity":
            return ("ABI:func:%s:arity" % name, "%s takes %d parameter(s) in C but argtypes lists %d. %s" % (name, len(f["cargs"]), len(f["args"]), both), case)
        if what == "ret":
            return ("ABI:func:%s:ret" % name, "%s returns `%s` (%s) in C but python has %s (%s). %s" % (
                name, f["c_ret"], sh(f["cret"]), ("restype=%s" % f["py_ret"]) if f["retset"] else "no restype (ctypes default c_int)", sh(f["ret"]), both), case)
        if what == "undeclared":
            calls = (f["refs"]["call"] + f["refs"]["other"])[:3]
            return ("ABI:func:%s:undeclared" % name, "lsci.%s is used (%s) but its %s is never assigned. %s" % (
                name, ", ".join(calls) or "declared only", "argtypes/restype" if not f["retset"] else "argtypes", both), case)
        if what == "missing-symbol":
            return ("ABI:func:%s:missing-symbol" % name, "lsci.%s is referenced (%s) but the built libsci.so exports no such function%s" % (
                name, ", ".join((f["refs"]["call"] + f["refs"]["decl"] + f["refs"]["other"])[:3]),
                "" if f["hasproto"] else " and no header declares it"), case)
        if what == "no-prototype":
            return ("ABI:func:%s:no-prototype" % name, "lsci.%s is exported by the library but no header of src/ declares it: its parameters cannot be compared" % name, case)
    if t == "struct":
        p = _byname(facts["pystructs"], name)
        case.update(python=[(x["name"], x["py"], x["off"]) for x in p["fields"]])
        if what == "unpaired":
            return ("ABI:struct:%s:unpaired" % name, "python structure %s (%s.py) corresponds to no C struct: none has that name (any case) and not exactly one has its "
                    "field signature %s" % (name, p["module"], [(x["name"], sh(x["kind"]), x["off"]) for x in p["fields"]]), case)
        c = _byname(facts["cstructs"], v["pair"])
        case.update(c=[(x["name"], x["ctype"], x["off"]) for x in c["fields"]], c_name=c["name"])
        if sub == "count":
            return ("ABI:struct:%s:field" % name, "python %s has %d field(s) %s but C %s (%s) has %d: %s" % (
                name, len(p["fields"]), [x["name"] for x in p["fields"]], c["name"], c["file"], len(c["fields"]), [x["name"] for x in c["fields"]]), case)
        if sub == "sizeof":
            return ("ABI:struct:%s:field" % name, "sizeof differs: python %s = %d, C %s = %d" % (name, p["size"], c["name"], c["size"]), case)
        cf, pf = c["fields"][i - 1], p["fields"][i - 1]
        return ("ABI:struct:%s:field" % name, "field %d (%s mismatch): C %s.%s `%s` (%s) at offset %d size %d [%s] but python %s.%s `%s` (%s) at offset %d size %d" % (
            i, sub, c["name"], cf["name"], cf["ctype"], sh(cf["kind"]), cf["off"], cf["size"], c["file"], name, pf["name"], pf["py"], sh(pf["kind"]), pf["off"], pf["size"]), case)
    return ("ABI:%s:%s:%s" % (t, name, what), "%s %s: %s %s %s" % (t, name, what, sub, i), case)


def _report(ctx, facts, verdicts):
    """violations for struct/func issues; a LayoutRule failure is the spec's own rule not matching the compiler -> infrastructure"""
    lay = [(k, v) for k, v in verdicts.items() if k[0] == "layout" and v["issues"]]
    if lay:
        k, v = lay[0]
        c = _byname(facts["cstructs"], k[1])
        raise InfraError("spec layout rule does not reproduce the compiler's layout of C struct %s (%s): %s; fields %s - Abi.tla's Size/Align/Layout "
                         "needs extending (packed/aligned attribute, unsupported member kind?)" % (
                             k[1], c["file"], v["issues"], [(f["name"], f["ctype"], f["off"], f["size"]) for f in c["fields"]]))
    n = 0
    for key in sorted(verdicts):
        v = verdicts[key]
        for issue in v["issues"]:
            sig, text, case = _describe(facts, v, issue)
            ctx.violation(sig, text, case)
            n += 1
    return n


def _account(ctx, facts, verdicts):
    for (t, name), v in sorted(verdicts.items()):
        if t == "layout":
            ctx.case(("layout", name, json.dumps(_byname(facts["cstructs"], name)["fields"], sort_keys=True)), True)
        elif t == "struct":
            ctx.case(("struct", name, json.dumps(_byname(facts["pystructs"], name)["fields"], sort_keys=True)), True)
        else:
            f = _byname(facts["funcs"], name)
            ctx.case(("func", name, json.dumps([f["args"], f["ret"], f["cargs"], f["cret"]], sort_keys=True)), True)
    # samples: real declarations, both sides written out
    for s in [x for x in facts["pystructs"] if ("struct", x["name"]) in verdicts][:2]:
        v = verdicts.get(("struct", s["name"]))
        c = _byname(facts["cstructs"], v["pair"]) if v and v["pair"] != "?" else None
        ctx.sample(dict(e="Struct", name=s["name"], paired_with=v and v["pair"], paired_by=v and v["how"],
                        pyfields=[(x["name"], x["py"]) for x in s["fields"]], pyoffsets=[x["off"] for x in s["fields"]],
                        cfields=[(x["name"], x["ctype"]) for x in c["fields"]] if c else None, coffsets=[x["off"] for x in c["fields"]] if c else None,
                        issues=v and v["issues"]), 8)
    shown = 0
    for f in facts["funcs"]:
        v = verdicts.get(("func", f["name"]))
        if v is None:
            continue
        if v["issues"] or shown < 2:
            shown += 0 if v["issues"] else 1
            ctx.sample(dict(e="Func", name=f["name"], cproto=_cdecl(f), pyproto=_pydecl(f), ckinds=[abifacts.show(k) for k in f["cargs"]] + ["->" + abifacts.show(f["cret"])],
                            pykinds=[abifacts.show(k) for k in f["args"]] + ["->" + abifacts.show(f["ret"])], exported=f["exported"], issues=v["issues"]), 8)


# ------------------------------------------------------------------------------------------------ binding self-test
def _seed_disagreements(facts, verdicts):
    """a copy of the facts with realistic disagreements, each seeded into a different declaration that agrees on this tree.
    -> (mutated facts, list of (label, (t, name), expected issue `what`, expected sub or None))"""
    out = []
    used = set()
    m = copy.deepcopy(facts)          # ONE copy carrying all seeds, each in a different declaration
    all_s = [s for s in facts["pystructs"] if not verdicts[("struct", s["name"])]["issues"]]
    all_f = [f for f in facts["funcs"] if not verdicts[("func", f["name"])]["issues"] and f["hasproto"] and f["argset"]]

    class _Fresh:
        """iterate over the agreeing declarations that carry no seed yet"""
        def __init__(self, seq, t):
            self.seq, self.t = seq, t

        def __iter__(self):
            return iter([x for x in self.seq if (self.t, x["name"]) not in used])
    clean_s, clean_f = _Fresh(all_s, "struct"), _Fresh(all_f, "func")

    def mut(label, key, what, sub, fn):
        if key in used:
            return
        if fn(m):
            used.add(key)
            out.append((label, key, what, sub))

    # 1 header: two same-typed neighbouring members swapped (only the names reveal it)
    for s in clean_s:
        c = _byname(facts["cstructs"], verdicts[("struct", s["name"])]["pair"])
        idx = [i for i in range(len(c["fields"]) - 1) if c["fields"][i]["kind"] == c["fields"][i + 1]["kind"]]
        if idx:
            def swap(m, cn=c["name"], i=idx[0]):
                fl = _byname(m["cstructs"], cn)["fields"]
                fl[i]["name"], fl[i + 1]["name"] = fl[i + 1]["name"], fl[i]["name"]
                fl[i]["ctype"], fl[i + 1]["ctype"] = fl[i + 1]["ctype"], fl[i]["ctype"]
                return True
            mut("swap same-typed members of C %s" % c["name"], ("struct", s["name"]), "field", "name", swap)
            break
    # 2 header: a member removed at the end of a C struct (python still declares it)
    for s in clean_s:
        c = _byname(facts["cstructs"], verdicts[("struct", s["name"])]["pair"])
        if len(c["fields"]) >= 2 and verdicts[("struct", s["name"])]["how"] == "name":
            def drop(m, cn=c["name"]):
                cc = _byname(m["cstructs"], cn)
                last = cc["fields"].pop()
                cc["size"] = last["off"]
                return True
            mut("remove last member of C %s" % c["name"], ("struct", s["name"]), "field", "count", drop)
            break
    # 3 python: a pointer member declared with one level less
    for s in clean_s:
        idx = [i for i, f in enumerate(s["fields"]) if f["kind"]["d"] >= 2]
        if idx:
            def depth(m, pn=s["name"], i=idx[0]):
                _byname(m["pystructs"], pn)["fields"][i]["kind"]["d"] -= 1
                return True
            mut("pointer depth of python %s.%s" % (s["name"], s["fields"][idx[0]]["name"]), ("struct", s["name"]), "field", "kind", depth)
            break
    # 4 size_t <-> int in a C prototype
    for f in clean_f:
        idx = [i for i, k in enumerate(f["cargs"]) if k["k"] == "int" and k["d"] == 0 and k["w"] == 64]
        if idx:
            def narrow(m, fn=f["name"], i=idx[0]):
                _byname(m["funcs"], fn)["cargs"][i].update(w=32, sg="s")
                return True
            mut("size_t -> int in parameter %d of C %s" % (idx[0] + 1, f["name"]), ("func", f["name"]), "param", None, narrow)
            break
    # 5 a parameter dropped from a C prototype
    for f in clean_f:
        if len(f["cargs"]) >= 2:
            def droparg(m, fn=f["name"]):
                g = _byname(m["funcs"], fn)
                g["cargs"].pop()
                g["c_args"].pop()
                return True
            mut("drop last parameter of C %s" % f["name"], ("func", f["name"]), "arity", None, droparg)
            break
    # 6 restype line deleted for a double-returning function
    for f in clean_f:
        if f["cret"]["k"] == "float" and f["cret"]["d"] == 0:
            def unret(m, fn=f["name"]):
                g = _byname(m["funcs"], fn)
                g["retset"] = False
                g["ret"] = cside.kind("int", w=32, sg="s")
                return True
            mut("restype of %s left at the ctypes default" % f["name"], ("func", f["name"]), "ret", None, unret)
            break
    # 7 symbol not exported
    for f in clean_f:
        def unexp(m, fn=f["name"]):
            _byname(m["funcs"], fn)["exported"] = False
            return True
        mut("%s not exported" % f["name"], ("func", f["name"]), "missing-symbol", None, unexp)
        break
    # 8 signedness only: unsigned 64 declared signed 64 on the python side
    for f in clean_f:
        idx = [i for i, k in enumerate(f["args"]) if k["k"] == "int" and k["d"] == 0 and k["sg"] == "u"]
        if idx:
            def sign(m, fn=f["name"], i=idx[0]):
                _byname(m["funcs"], fn)["args"][i]["sg"] = "s"
                return True
            mut("signedness of python parameter %d of %s" % (idx[0] + 1, f["name"]), ("func", f["name"]), "param", None, sign)
            break
    # 9 the compiler's offset record corrupted: LayoutRule (the binding of the spec's rule to the real ABI) must notice
    seeded_c = {verdicts[k]["pair"] for k in used if k[0] == "struct"}
    for c in facts["cstructs"]:
        if len(c["fields"]) >= 2 and c["name"] not in seeded_c:
            def off(m, cn=c["name"]):
                _byname(m["cstructs"], cn)["fields"][1]["off"] += 4
                return True
            mut("compiler offset of C %s.%s corrupted" % (c["name"], c["fields"][1]["name"]), ("layout", c["name"]), "layout-rule", "field", off)
            break
    return m, out


def _selftest(ctx, facts, verdicts, rd):
    m, seeds = _seed_disagreements(facts, verdicts)
    if len(seeds) < 5:
        raise InfraError("binding self-test: only %d disagreements could be seeded (no agreeing declarations to seed into?)" % len(seeds))
    v2, r2 = _judge(m, rd, only=[key for _, key, _, _ in seeds], tag="seeded")
    ctx.add_tlc(r2, "abi_seeded")
    detected = []
    for label, key, what, sub in seeds:
        iss = v2.get(key, {}).get("issues", [])
        if not any(i["what"] == what and (sub is None or i.get("sub") == sub) for i in iss):
            raise InfraError("binding lost: seeded disagreement '%s' in %s was not reported by Abi.tla (issues: %s)" % (label, key, iss))
        detected.append(dict(seed=label, decl="%s:%s" % key, reported=iss))
        ctx.case(("seed", label), True)
    ctx.steps["binding_selftest"] = dict(seeded=len(seeds), detected=len(detected), seeds=detected)
    return len(detected)


# ------------------------------------------------------------------------------------------------ optional live cross-check
_LIVE = r'''
import sys, types, ctypes, json
bind, so = sys.argv[1], sys.argv[2]
sys.path.insert(0, bind); sys.dont_write_bytecode = True
lib = ctypes.CDLL(so)
stub = types.ModuleType("libscientific.loadlibrary"); stub.load_libscientific_library = lambda: lib
sys.modules["libscientific.loadlibrary"] = stub
out = []
def probe(name, fn):
    try:
        exp, got = fn()
        out.append(dict(probe=name, ok=(exp == got), expected=exp, got=got))
    except Exception as e:
        out.append(dict(probe=name, ok=False, error="%s: %s" % (type(e).__name__, str(e)[:200])))
    print(json.dumps(out[-1]), flush=True)
import libscientific.vector as V, libscientific.matrix as M, libscientific.tensor as T
def dv():
    v = V.new_dvector([1.5, -2.25, 3.0]); r = V.dvector_tolist(v); V.del_dvector(v); return [1.5, -2.25, 3.0], r
def uiv():
    v = V.new_uivector([1, 2, 2**40]); r = V.uivector_tolist(v); V.del_uivector(v); return [1, 2, 2**40], r
def iv():
    v = V.new_ivector([1, -2, 3]); r = V.ivector_tolist(v); V.del_ivector(v); return [1, -2, 3], r
def mx():
    m = M.new_matrix([[1.0, 2.0], [3.0, 4.0], [5.0, 6.0]]); r = M.matrix_to_list(m); M.del_matrix(m); return [[1.0, 2.0], [3.0, 4.0], [5.0, 6.0]], r
def tset():
    t = T.new_tensor([[[1.0, 2.0], [3.0, 4.0]]]); T.set_tensor_value(t, 0, 1, 1, 9.5); r = T.tensor_tolist(t); T.del_tensor(t); return [[[1.0, 2.0], [3.0, 9.5]]], r
for n, f in (("dvector round trip", dv), ("uivector round trip", uiv), ("ivector round trip (negative value)", iv), ("matrix round trip", mx), ("set_tensor_value", tset)):
    probe(n, f)
'''


def _live(ctx, rd):
    """thorough tier, supplementary only (never a verdict): container values written and read back through the package's own
    wrappers against the real libsci.so, in a child process; shows the run-time face of a declaration mismatch"""
    import subprocess, sys
    lib = build.build_lib("plain")
    script = os.path.join(rd, "live.py")
    open(script, "w").write(_LIVE)
    try:
        p = subprocess.run([sys.executable, "-B", script, os.path.join(build.REPO, "src", "python_bindings"), os.path.join(lib["dir"], "libsci.so")],
                           capture_output=True, text=True, timeout=120, cwd=rd)
        res = [json.loads(l) for l in p.stdout.splitlines() if l.startswith("{")]
        ctx.steps["live_roundtrips"] = dict(rc=p.returncode, probes=res, note="supplementary: not used for the verdict")
        for x in res:
            ctx.note("live: %s -> %s" % (x["probe"], "ok" if x["ok"] else (x.get("error") or "expected %s got %s" % (x["expected"], x["got"]))))
    except Exception as e:                                     # noqa - supplementary step
        ctx.steps["live_roundtrips"] = dict(error=str(e)[:300])


# ------------------------------------------------------------------------------------------------ entry points
def _assumptions(ctx):
    ctx.assumptions += [
        "clang's JSON AST and printed types of src/*.h (headers of the files listed in Scientific_C_SRCS) are the C side; typedefs are resolved to canonical kinds by the extractor",
        "ctypes' own sizeof/offset of the package's Structure classes and the argtypes/restype objects assigned at import are the Python side; every lsci.<name> is found by an AST walk over the package",
        "LP64 System V (the platform this check builds and runs on); offsets come from the C compiler (offsetof program compiled with the library's flags) and must be reproduced by the spec's layout rule",
        "a header declaration without prototype `f()` counts as zero parameters; an unset restype is ctypes' default c_int; an enum parameter agrees with a signed or unsigned integer of its width",
        "field names are compared up to case; a pure rename is accepted, a permutation of names is a mismatch",
        "TLC evaluates Abi.tla on the generated data module; a LayoutRule failure is reported as infrastructure (the spec's rule needs extending), never as a verdict on the bindings",
    ]


def run(ctx):
    _assumptions(ctx)
    rd = tlc.rundir()
    try:
        facts = _collect(rd)
        nst, nfn, ncs = len(facts["pystructs"]), len(facts["funcs"]), len(facts["cstructs"])
        if nst == 0 or nfn == 0 or ncs == 0:
            raise InfraError("extraction lost: %d python structures, %d referenced functions, %d C structs" % (nst, nfn, ncs))
        ctx.note("C side: %d prototypes, %d structs (%d fields measured by the compiler) in %d headers; python side: %d structures, %d referenced lsci names "
                 "(%d with argtypes, %d with restype); %d exported functions" % (
                     facts["n_protos"], ncs, facts["fields_measured"], len(facts["headers"]), nst, nfn,
                     sum(f["argset"] for f in facts["funcs"]), sum(f["retset"] for f in facts["funcs"]), facts["n_exported"]))
        if facts["skipped_bitfield_structs"]:
            ctx.note("C structs with bit-fields are outside the layout rule and skipped: %s" % facts["skipped_bitfield_structs"])
            if any(s.lower() in {p["name"].lower() for p in facts["pystructs"]} for s in facts["skipped_bitfield_structs"]):
                raise InfraError("a structure mirrored by python has bit-fields: Abi.tla does not model them")
        verdicts, r = _judge(facts, rd, quick=ctx.quick)
        ctx.add_tlc(r, "abi")
        want = _expected_keys(facts)
        if set(verdicts) != want:
            raise InfraError("TLC evaluated %d declarations, expected %d (missing %s)" % (len(verdicts), len(want), sorted(want - set(verdicts))[:5]))
        # vacuity: the comparisons must have had something to compare
        paired = [v for (t, _), v in verdicts.items() if t == "struct" and v["pair"] != "?"]
        withproto = [f for f in facts["funcs"] if f["hasproto"] and f["argset"]]
        if not paired or not withproto:
            raise InfraError("vacuous: %d paired structures, %d functions with prototype and argtypes" % (len(paired), len(withproto)))
        _account(ctx, facts, verdicts)
        nissues = _report(ctx, facts, verdicts)
        nseed = _selftest(ctx, facts, verdicts, rd)
        ctx.traces(1)        # the offsetof/sizeof program: one recorded run of compiled code, validated by LayoutRule
        ctx.cov["programs"] = nst + nfn
        ctx.cov["disagreements_checked"] = nissues + nseed
        ctx.cov["disagreements_found"] = nissues
        ctx.cov["seeded_disagreements_detected"] = nseed
        ctx.cov["c_structs_layout_validated"] = ncs
        ctx.cov["c_prototypes"] = facts["n_protos"]
        ctx.cov["python_structures"] = nst
        ctx.cov["python_functions_referenced"] = nfn
        ctx.cov["fields_compared"] = sum(len(s["fields"]) for s in facts["pystructs"])
        ctx.cov["parameters_compared"] = sum(min(len(f["args"]), len(f["cargs"])) for f in facts["funcs"])
        ctx.cov["pairing"] = {v["name"]: "%s (%s)" % (v["pair"], v["how"]) for (t, _), v in sorted(verdicts.items()) if t == "struct"}
        ctx.cov["exhaustive"] = True
        ctx.cov["rule"] = ("every ctypes.Structure of src/python_bindings/libscientific/*.py against its paired C struct, every lsci.<name> the package references "
                           "against the C prototype and the exported symbols, every C struct of src/*.h against the layout rule, all re-derived from the current tree; "
                           "a case is one declaration keyed by its name and extracted content (all are non-trivial); `programs` = python structures + referenced "
                           "functions; `disagreements_checked` = mismatches reported on the tree + seeded disagreements the spec had to detect (binding self-test)")
        if not ctx.quick:
            _live(ctx, rd)
    finally:
        shutil.rmtree(rd, ignore_errors=True)


def replay(ctx, body):
    case = body.get("case") or {}
    if case.get("kind") != "decl":
        return run(ctx)
    _assumptions(ctx)
    key = (case["t"], case["name"])
    rd = tlc.rundir()
    try:
        facts = _collect(rd)
        seq = dict(layout=facts["cstructs"], struct=facts["pystructs"], func=facts["funcs"])[key[0]]
        ctx.cov["programs"] = 1
        ctx.cov["disagreements_checked"] = 0
        ctx.cov["rule"] = "replay of one declaration (%s %s), re-extracted from the current tree" % key
        if _byname(seq, key[1]) is None:
            ctx.note("%s %s is no longer declared/referenced in the current tree: nothing to compare" % key)
            ctx.sample(dict(e="Gone", decl="%s:%s" % key))
            ctx.case(("replay-gone",) + key)
            ctx.case(("replay-gone2",) + key)
            return
        verdicts, r = _judge(facts, rd, only=key)
        ctx.add_tlc(r, "abi_replay")
        if set(verdicts) != {key}:
            raise InfraError("replay: TLC evaluated %s instead of %s" % (sorted(verdicts), key))
        _account(ctx, facts, verdicts)
        ctx.case(("replay",) + key)
        n = _report(ctx, facts, verdicts)
        ctx.cov["disagreements_checked"] = n
        if not ctx.cov["samples"]:
            ctx.sample(dict(e="Decl", decl="%s:%s" % key, issues=verdicts[key]["issues"]))
        ctx.note("replay %s %s: %d issue(s)" % (key[0], key[1], n))
    finally:
        shutil.rmtree(rd, ignore_errors=True)
