"""C03 - PLS (NIPALS) model satisfies its structural identities for every X, Y, scaling and LV count.

(M)  Layout.tla: Col(a,j) = ny*(a-1)+j is a bijection onto 0..ny*nlv-1 for all ny, nlv in bounds and the residual rule
     "column % ny" takes every column against its own response; the rule floor(column/nlv) is refuted by TLC (first at
     (ny,nlv) = (2,2)).  PlsStore.tla: the per-LV storage of scores / loadings / weights writes every cell whatever the
     relation objects <-> variables; the "one pass over the objects" variant is refuted by TLC (first at 6 objects, 7
     variables).  Pls.tla (structure scope): the ledger's step guards imply its invariants for tall, n = p+1, square,
     n = p-1 and wide shapes, rank at and below RankBound(n, p, xs) = min(p, n-1 | n), offsets below and above the
     representability threshold of the tolerance functions; theorem ThRank (tall <=> bound = p; objects <= variables and
     centred => bound = n-1 < p) is checked as an assumption of the module.
(C)  c03_drv fits real PLS models - X 6..40 x 1..12 of every shape relation (tall, n = p+1, square, n = p-1, wide) with the
     largest rank the shape allows, 1..4 correlated / differently scaled responses, scaling options -1..5 on both blocks,
     1..rank LVs, plus the input classes of INPUT-CLASSES.md inside the quantifier (block-size boundaries, offsets up to 1e8
     spreads on centred blocks, whole-block magnitudes 1e-6..1e4, tied non-representable grids, duplicate rows / tied
     responses, fit-A / fit-A' (same shape, other data) / fit-B (other shape) / fit-A histories in one process, predictor
     outputs that already hold other data); each fit in a child with iteration budget.  Every model is projected onto the
     ledger (stored centring = column means of this very data, score / weight orthogonality, X = TP' + E,
     re-projection through PLSScorePredictor with fewer / all / more LVs than the model has, PLSYPredictor from stored and
     re-projected scores at every LV count, PLSYPredictorAllLV with and without the score output, recalculated = back-
     transformed sum of b t q', residual column = recalculated - same response, located by value) and TLC validates every
     recorded event against TracePls.tla; for integer-valued cases TLC recomputes the residual table itself through the
     layout map.  Rank-deficient X (duplicate / constant predictor) and what the statement does not mention (xvarexp, bitwise
     repeatability of a fit, PLS() once more into the model object that already holds the fit) are modelled the same way but
     reported as EXTRA-FINDING only.
(V)  the residual rule inferred from the real residual columns is fed back as ResidualIndex into Layout.tla; the storage
     loop inferred from the rows of xloadings / xweights of real wide models is fed back as StoreLoop into PlsStore.tla.
"""
import copy, os, shutil
from concurrent.futures import ThreadPoolExecutor
from vf import build, tlc, trace, ledgerkit
from vf import run as hrun
from vf.core import InfraError
from checks.deferred import Deferred

LEVEL = "exploration"
READY = True
TECHNIQUE = ("TLC model checking of Layout.tla (column layout bijection, residual rule variants), PlsStore.tla (per-LV storage for every relation "
             "objects <-> variables, loop variants) and of the Pls.tla ledger (rank-aware quantifier, tolerance functions of the logged offsets); TLC trace "
             "validation (TracePls.tla) of residuals recorded from real PLS models of every shape relation and input class against independent oracles, "
             "with the residual table of integer-valued cases recomputed by TLC")
LEVEL_TEXT = ("Sampled exploration: seeded random PLS problems inside the property's quantifier - tall, n = p+1, square, n = p-1 and wide X with up to "
              "rank(X) = min(p, n-1 | n) latent variables, and the input classes K1-K5, K7, K8 of INPUT-CLASSES.md - are fitted by the real library and "
              "every model is projected onto the ledger of Pls.tla; TLC validates each recorded step (orthogonality, decomposition, re-projection with "
              "fewer / all / more LVs, responses from stored and re-projected scores, recalculated responses, residual columns through the layout map, "
              "stored centring against the data). "
              "The layout model is checked exhaustively for ny 1..4, nlv 1..12, the storage model for 6..40 objects x 1..12 variables x 1..4 responses.")
LEVEL_NOTE = ("Trusts TLC, the harness's double-precision residual evaluation and quantisation (self-tested by binding tests that corrupt one logged "
              "field per event kind), LAPACK dgesdd for the admission test (numerical rank / condition number). Inputs are sampled, not exhaustive; X is "
              "admitted with sigma_1/sigma_rank <= 1e3 after preprocessing and, for scaled blocks, scale factors away from the library's zero-scale "
              "guards (C10's business). Reading of the statement: 'full column rank' cannot hold for objects <= variables although the quantifier "
              "(6..40 x 1..12, nlv in 1..rank) contains such X; the ledger reads it shape-wise (rank = min(p, n-1 when centred, n otherwise)), every "
              "identity of the statement is evaluated there. Classes left out because the quantifier / statement excludes them: K6 (PLS, "
              "PLSScorePredictor, PLSYPredictor, PLSYPredictorAllLV reach no MT_* kernel and spawn no workers), K9 (the property does not mention "
              "missing values; values stay below 1e7, far from the MISSING code), K10 (no labels), constant response columns (statement: non-constant "
              "Y), K3 offsets on a block used uncentred (option -1: the offset is signal there, no input-computable bound holds; kept <= 0.5 spreads), "
              "K4 tiny units on a scaled block, units above 1e4 (entries would pass 1e7) and per-column unit systems 2^+-30 (zero-scale guards / "
              "cond > 1e3). Rank-deficient X, xvarexp, bitwise repeat-fit and a second PLS() into a used model object are outside the statement: "
              "EXTRA-FINDING only (the last one aborts under ASan/UBSan on the pinned tree: PLS:history:refit-into-used-model, candidate repair "
              "fixes/C03-pls-refit-used-model.diff).")

TOL = 10000
STRUCT = ("tortho", "wortho", "recon", "reproj")
IMPL = ("pnorm", "qnorm", "udefl", "binner")
EXTRA_EVENTS = ("VarExp", "Hist", "Refit")
CTX_FIELDS = ("n", "p", "ny", "nlv", "xs", "ys", "noise", "rank", "shape", "kind", "tag", "offx", "offy", "inst", "reuse")
KINDS = ("base", "wide", "int", "square", "wide1", "tall1", "offset", "intwide", "magn", "ties", "block", "degen", "hist", "widerank")
EVENT_KINDS = ("Fit", "Prep", "Lv", "Score", "YPred", "AllLv", "VarExp", "Col", "Resid", "Tab", "Hist", "Refit", "End")


def _tol_y(cx):
    """mirror of TolY / TolXfull / TolMeanY of Pls.tla, used ONLY to drop same-signature duplicates and to name the failed field (TLC decides)"""
    return TOL + cx.get("offy", 0) // 1000


def _tol_xfull(cx):
    return TOL + cx.get("n", 0) * (cx.get("offx", 0) // 4000)


def _tol_meany(cx):
    return TOL + cx.get("n", 0) * (cx.get("offy", 0) // 4000)


def _cls(cx):
    c = "ny%s:nlv%s" % (">1" if cx.get("ny", 1) > 1 else "1", ">1" if cx.get("nlv", 1) > 1 else "1")
    sh = cx.get("shape", "tall")
    return c if sh == "tall" else c + ":" + sh


def _sig(ev):
    """label for an event TLC rejected (TLC decided; this only names the failed identity)"""
    e, cx = ev.get("e"), ev.get("cx", {})
    c = _cls(cx)
    if e == "Lv":
        bad = [f for f in STRUCT if ev.get(f, 0) > TOL] or [f for f in IMPL if ev.get(f, 0) > TOL] or ["ledger"]
        return "PLS:%s:%s" % (bad[0], c), "LV %d of case %s %s: %s" % (ev["a"], ev.get("case"), cx, {f: ev[f] * 1e-12 for f in bad if f in ev})
    if e == "Col":
        if ev["found"] != ev["col"]:
            return "PLS:layout:%s" % c, "case %s %s: (a=%d,j=%d) expected in column %d of recalculated_y, found in column %d" % (ev.get("case"), cx, ev["a"], ev["j"], ev["col"], ev["found"])
        bad = "recalcErr" if ev["recalcErr"] > _tol_y(cx) else "allErr" if ev["allErr"] > _tol_y(cx) else "ledger"
        return "PLS:%s:%s" % (bad, c), "case %s %s: column %d (a=%d,j=%d) %s = %.3g (relative to |y_j - mean|)" % (ev.get("case"), cx, ev["col"], ev["a"], ev["j"], bad, ev.get(bad, 0) * 1e-12)
    if e == "Resid":
        return "PLS:residErr:%s" % c, ("case %s %s: recalc_residuals column %d (a=%d, response %d) is not recalculated - observed response %d: relative error >= %.3g; "
                                      "the stored column matches the residual against response %d") % (ev.get("case"), cx, ev["col"], ev["a"], ev["j"], ev["j"], ev["residErr"] * 1e-12, ev["against"])
    if e == "Tab":
        return "PLS:residTable:%s" % c, "case %s %s: TLC recomputed recalculated - observed over the logged integer tables through Col(a,j): the residual table differs" % (ev.get("case"), cx)
    if e == "End":
        return "PLS:xfull:%s" % c, "case %s %s: at nlv = rank X is not reproduced by T P' (relative %.3g) or counts differ: %s" % (ev.get("case"), cx, ev.get("xfull", 0) * 1e-12, ev)
    if e == "Prep":
        bad = "centring" if (ev["xavg"] > _tol_xfull(cx) or ev["yavg"] > _tol_meany(cx)) else "scale-definition"
        return "PLS:%s:%s" % (bad, c), ("case %s %s: stored preprocessing vectors against this data: x centring off by %.3g, y centring off by %.3g spreads (stored average vs column mean); "
                                        "scale factors off by %.3g (x) / %.3g (y) relative to the option's definition" % (ev.get("case"), cx, ev["xavg"] * 1e-12, ev["yavg"] * 1e-12, ev["xscl"] * 1e-12, ev["yscl"] * 1e-12))
    if e == "Score":
        return "PLS:scorePredictor:%s" % c, ("case %s %s: PLSScorePredictor asked for %d LVs returned %d columns (expected min(req, nlv)), worst column error %.3g against the training scores"
                                             % (ev.get("case"), cx, ev["req"], ev["got"], ev["err"] * 1e-12))
    if e == "YPred":
        return "PLS:yPredictor:%s" % c, ("case %s %s: PLSYPredictor(%s scores, %d LVs) differs from the back-transformed sum of b t q' over min(a, nlv) LVs by %.3g (relative to |y_j - mean|)"
                                         % (ev.get("case"), cx, "re-projected" if ev["src"] else "stored", ev["a"], ev["err"] * 1e-12))
    if e == "AllLv":
        return "PLS:allLvPredictor:%s" % c, ("case %s %s: PLSYPredictorAllLV with the score output: %d response columns (expected ny*nlv), %d score columns (expected nlv), score error %.3g, response error %.3g"
                                             % (ev.get("case"), cx, ev["cols"], ev["scols"], ev["scoreErr"] * 1e-12, ev["err"] * 1e-12))
    if e == "VarExp":
        return "PLS:xvarexp:%s" % c, "case %s %s: xvarexp[%d] differs from 100 t't / ss(X) by %.3g" % (ev.get("case"), cx, ev["a"], ev["err"] * 1e-12)
    if e == "Hist":
        return "PLS:history:refit-differs", "case %s %s: the same problem fitted again in the same process after %d other fit(s) does not return bitwise the same model" % (ev.get("case"), cx, ev["fits"] - 1)
    if e == "Refit":
        if ev["rc"] != 0:
            return "PLS:history:refit-into-used-model:abort:rc%d" % ev["rc"], ("case %s %s: PLS() called again with the same data into the model object that already holds the fit does not return "
                                                                             "(rc=%d: 99 AddressSanitizer abort, 98 UBSan, 1000+n signal): the vectors / tables of a used model are appended to, not rebuilt, "
                                                                             "and recalc_residuals is then written past its ny*nlv columns (pls.c 'compute residuals')" % (ev.get("case"), cx, ev["rc"]))
        return "PLS:history:refit-into-used-model", ("case %s %s: PLS() called again with the same data into the model object that already holds the fit returns %d coefficients b (model has %d LVs), "
                                                     "%d recalculated columns (ny*nlv = %d), %d explained variances; same numbers as before: %s - the vectors / tables of a used model are appended to, not rebuilt"
                                                     % (ev.get("case"), cx, ev["bsize"], cx.get("nlv", 0), ev["reccols"], cx.get("ny", 0) * cx.get("nlv", 0), ev["varexp"], "yes" if ev["same"] else "no"))
    if e == "Abort":
        return "PLS:fit:abort:rc%s" % ev.get("rc"), "case %s: the fit did not return (rc=%s: 97 iteration budget, 124 watchdog, 99/98 sanitizer, 1000+n signal)" % (ev.get("case"), ev.get("rc"))
    if e == "Shape":
        return "PLS:shape:%s" % c, "case %s %s: model tables have unexpected shapes %s" % (ev.get("case"), cx, ev)
    return "PLS:trace:%s" % e, "unexpected event %s" % ev


def infer_variant(events):
    """which response index does the code take residual column c against?  (located by value in the harness)"""
    mod_ok = div_ok = True
    discriminating = 0
    for ev in events:
        if ev.get("e") != "Resid" or "cx" not in ev:
            continue
        ny, nlv, c = ev["cx"]["ny"], ev["cx"]["nlv"], ev["col"]
        if c % ny != c // nlv:
            discriminating += 1
        mod_ok = mod_ok and ev["against"] == c % ny
        div_ok = div_ok and ev["against"] == c // nlv
    if discriminating == 0:
        return None, 0
    return ("mod_ny" if mod_ok else "div_nlv" if div_ok else "other"), discriminating


def infer_store(events):
    """which rows of xloadings / xweights hold a stored number in models with fewer objects than variables?"""
    wide = own = fused = 0
    for ev in events:
        if ev.get("e") != "Lv" or "cx" not in ev or "prows" not in ev:
            continue
        n, p = ev["cx"]["n"], ev["cx"]["p"]
        # integer / gridded / constant-column data can carry exact zeros in a weight or loading legitimately: generic real-valued kinds only
        if n >= p or ev["cx"].get("kind") in ("int", "intwide", "ties", "degen"):
            continue
        wide += 1
        if ev["prows"] > n or ev["wrows"] > n:
            own += 1
        if ev["prows"] <= n and ev["wrows"] <= n:
            fused += 1
    if wide == 0:
        return None, 0
    return ("own" if own == wide else "fused_objects" if fused == wide else "other"), wide


def model_part(ctx):
    cfg = "MC_Layout_quick.cfg" if ctx.quick else "MC_Layout_thorough.cfg"
    r = tlc.run("Layout", cfg, workers=4, timeout=600)
    ctx.add_tlc(r, "mc_layout_mod_ny")
    if not r.ok:
        raise InfraError("Layout.tla: %s fails for the rule column %% ny:\n%s" % (r.violation, r.trace_text[:1200]))
    ctx.note("Layout.tla: bijection and residual rule 'col %% ny' hold on %d (ny,nlv) pairs" % r.distinct)
    r = tlc.run("PlsStore", "MC_PlsStore.cfg" if ctx.quick else "MC_PlsStore_thorough.cfg", workers=2, timeout=600)
    ctx.add_tlc(r, "mc_plsstore_own")
    if not r.ok:
        raise InfraError("PlsStore.tla: %s fails for the own-length storage loops:\n%s" % (r.violation, r.trace_text[:1200]))
    ctx.note("PlsStore.tla: every cell stored with own-length loops on %d (objects, variables, responses) triples" % r.distinct)
    r = tlc.run("Pls", "MC_Pls_struct.cfg" if ctx.quick else "MC_Pls_struct_thorough.cfg", workers=4, timeout=1500)
    ctx.add_tlc(r, "mc_pls_struct")
    if not r.ok:
        raise InfraError("Pls.tla (structure scope): ledger invariant %s fails:\n%s" % (r.violation, r.trace_text[:1500]))
    z = ledgerkit.never_taken(r, ("MFitS", "PLv", "PCol", "PResid", "MScore", "MYPred", "MAllLv", "MVarExp", "MHist", "MRefit", "PEnd"))
    if z:
        raise InfraError("Pls.tla (structure scope): actions never taken: %s" % z)
    ctx.note("Pls.tla ledger (structure scope, all shape relations): %d states, invariants hold, every action taken" % r.distinct)


def variant_model(ctx, rd, variant):
    """(V) the rule the code implements, as a constant of Layout.tla"""
    cfg = tlc.write_cfg(os.path.join(rd, "MC_Layout_variant.cfg"), spec="LSpec", constants=dict(MaxNy=4, MaxNlv=12, ResidualIndex=variant),
                        invariants=["LayoutBijective", "ResidualAgainstOwnResponse"], deadlock=False)
    r = tlc.run("Layout", cfg, workers=2, timeout=300)
    ctx.add_tlc(r, "mc_layout_variant_%s" % variant)
    return r


def store_model(ctx, rd, variant):
    """(V) the storage loop the code implements, as a constant of PlsStore.tla"""
    cfg = tlc.write_cfg(os.path.join(rd, "MC_PlsStore_variant.cfg"), spec="SSpec", constants=dict(MaxN=40, MaxP=12, MaxNy=4, StoreLoop=variant),
                        invariants=["EveryCellStored", "ThLost", "ThFusedOnlyWide"], deadlock=False)
    r = tlc.run("PlsStore", cfg, workers=2, timeout=300)
    ctx.add_tlc(r, "mc_plsstore_variant_%s" % variant)
    return r


def _classes(ctx, f):
    """measured class counts (INPUT-CLASSES.md) of one executed case; shape / inst tags were re-derived by TLC (TFit)"""
    n, p, nlv, rank = f["n"], f["p"], f["nlv"], f["rank"]
    ctx.cls("K1:" + f["shape"])
    ctx.cls("K1:ny=1" if f["ny"] == 1 else "K1:ny>1")
    ctx.cls("K1:nlv=rank" if nlv == rank else "K1:nlv=1" if nlv == 1 else "K1:1<nlv<rank")
    if nlv == 1 and rank == 1:
        ctx.cls("K1:nlv=1")
    if p == 1:
        ctx.cls("K1:single-column")
    for nm, v in (("n", n), ("p", p)):
        if v % 32 == 0:
            ctx.cls("K2:%s=32k" % nm)
        elif v >= 31 and v % 32 in (1, 31):
            ctx.cls("K2:%s=32k+-1" % nm)
        if v % 4 == 0:
            ctx.cls("K2:%s=4k" % nm)
        elif v % 4 in (1, 3):
            ctx.cls("K2:%s=4k+-1" % nm)
    for nm in ("offx", "offy"):
        o = f.get(nm, 0)
        if o >= 1000:
            ctx.cls("K3:%s>=%s" % (nm, "1e6" if o >= 1000000 else "1e3"))
    for nm in ("lgx", "lgy"):
        g = f.get(nm, 0)
        if g:
            ctx.cls("K4:%s=1e%+d" % (nm[2], g))
    t = f.get("tag", "-")
    if t.startswith(("K5", "K7", "K8")):
        ctx.cls(t + ("" if f.get("inst", 1) else ":rank-deficient(extra)"))
    if f.get("reuse"):
        ctx.cls("K7:outputs-hold-other-data")


def conformance(ctx, total, parts, first=0, only=None, deferred=None):
    deferred = Deferred(ctx) if deferred is None else deferred
    lib = build.build_lib("san")
    exe = build.build_harness("c03", ["c03_drv.c"], lib)
    rd = tlc.rundir()
    try:
        if only is not None:
            events, maxima, results = [], {}, []
            h = hrun.run(exe, [os.path.join(rd, "r.ndjson"), only["seed"], only["idx"], only.get("count", 1)], timeout=600)
            events = hrun.read_ndjson(os.path.join(rd, "r.ndjson"))
            results = [([None, only["seed"], only["idx"], only.get("count", 1)], h)]
            seed = only["seed"]
        else:
            seed = ctx.seed
            events, maxima, results = ledgerkit.drive(ctx, exe, rd, "c03_", seed, total, parts, timeout=2400, workers=int(os.environ.get("VERIF_WORKERS", "8")))
        ledgerkit.sanitizer_reports(ctx, results, "PLS", lambda j: dict(kind="range", seed=j[1], first=j[2], count=j[3]))
        ledgerkit.annotate(events, CTX_FIELDS)
        fits = [e for e in events if e["e"] == "Fit"]
        if not fits:
            # a Fit event is written after PLS() returned: a tree on which every fit dies leaves Reset / Abort events only - they are still judged by TLC below
            deferred.add("c03 harness produced no Fit events")
        for f in fits:
            ctx.case((f["shape"], f["p"], f["ny"], f["nlv"], f["xs"], f["ys"], f["kind"]), f["ny"] > 1 and f["nlv"] > 1)
            _classes(ctx, f)
        # the harness always logs every LV and every (a,j); anything else is its own fault, not a verdict
        blocks = tlc.split_blocks(events)
        for b in blocks:
            f = [e for e in b if e["e"] == "Fit"]
            if not f or any(e["e"] in ("Abort", "Shape") for e in b):
                continue
            f = f[0]
            cnt = {k: sum(1 for e in b if e["e"] == k) for k in ("Prep", "Lv", "Col", "Resid", "End", "YPred", "AllLv", "VarExp")}
            want = dict(Prep=1, Lv=f["nlv"], Col=f["ny"] * f["nlv"], Resid=f["ny"] * f["nlv"], End=1, YPred=f["nlv"] + 2, AllLv=1, VarExp=f["nlv"])
            if cnt != want or sum(1 for e in b if e["e"] == "Score") not in (2, 3):
                raise InfraError("c03 harness logged an incomplete block for case %s: %s (expected %s)" % (b[0].get("case"), cnt, want))
        if only is None:
            # vacuity: every input class of the schedule and every event kind really occurred
            # (judged after the trace validation: fits that die on a changed tree write no Fit event and empty these classes)
            kinds = {k: sum(1 for f in fits if f["kind"] == k) for k in KINDS}
            if min(kinds.values()) == 0:
                deferred.add("c03 generator lost an input class: %s" % kinds)
            evk = {k: sum(1 for e in events if e["e"] == k) for k in EVENT_KINDS}
            if min(evk.values()) == 0:
                deferred.add("c03 harness no longer emits every event kind: %s" % evk)
            shapes = {s: sum(1 for f in fits if f["shape"] == s and f["inst"] and f["nlv"] == f["rank"] and f["ny"] > 1) for s in ("tall", "tall1", "square", "wide1", "wide")}
            if min(shapes.values()) == 0:
                deferred.add("c03 generator lost a shape class at nlv = rank with several responses: %s" % shapes)
            ctx.cov["kinds"] = kinds
            ctx.cov["skipped_draws"] = sum(1 for e in events if e["e"] == "Skip")
        for b in blocks:
            f = [e for e in b if e["e"] == "Fit"]
            if f and f[0]["ny"] > 1 and f[0]["nlv"] > 1 and len(b) < 60 and f[0]["shape"] in ("wide", "wide1", "square"):
                ctx.sample(dict(case=b[0].get("case"), seed=seed, events=b[:14]), 3)
        ctx.cov["rule"] = ("seeded random PLS problems, input class by case index % 16: 3/16 tall (n 6..40, p 1..min(12,n-2)), wide (n 6..10 < p-1), square, n = p-1, "
                           "n = p+1, wide/square at nlv = rank with 2..4 responses, integer-valued tall and integer-valued square/wide (tables handed to TLC), offsets "
                           "1e2..1e8 spreads on centred blocks, whole-block units 1e-6..1e4, grids of 0.1 / (1/3) / 1e-3, block-size boundaries, duplicate rows / "
                           "duplicate or constant predictor / tied responses, fit-A fit-A' fit-B fit-A histories; ny 1..4, scaling options -1..5 on X and on Y, noise "
                           "0/5%/70%/600%, nlv 1..rank(X) = min(p, n-1 | n) (every third case nlv = rank); preprocessed X admitted with sigma_1/sigma_rank <= 1e3; "
                           "a case = one fitted model; distinct key = (shape, p, ny, nlv, xscaling, yscaling, class); non-trivial iff ny > 1 and nlv > 1")
        ctx.cov["observed_max"] = dict(ctx.cov.get("observed_max", {}), **{k: v for k, v in maxima.items()})
        ctx.cov["tolerance"] = dict(TolAlg=1e-8, TolY="1e-8 + 1e-15 * floor(offy/1000)*1000", TolXfull="1e-8 + n * 1e-12 * floor(offx/4000)")

        def on_reject(ev, idx, block):
            sig, what = _sig(ev)
            if ev.get("e") == "Fit":
                raise InfraError("c03 generator / class tags left the ledger's quantifier (machinery, not a verdict): %s" % ev)
            stated = ev.get("cx", {}).get("inst", 1) == 1 and ev.get("e") not in EXTRA_EVENTS
            ctx.cov.setdefault("rejected_event_kinds", [])
            if ev.get("e") not in ctx.cov["rejected_event_kinds"]:
                ctx.cov["rejected_event_kinds"].append(ev.get("e"))
            if stated:
                ctx.violation(sig, what, dict(kind="case", seed=seed, idx=ev.get("case"), event=ev))
            else:
                # behaviour the specification models but the statement does not cover (rank below the shape's bound; xvarexp; repeat fit)
                ctx.extra(sig + ("" if ev.get("e") in EXTRA_EVENTS else ":rank-deficient"), what)
            return lambda e: _sig(e)[0] == sig and e.get("e") == ev.get("e") and _would_fail(e)
        # the refit-into-a-used-model events (extra layer) are validated as a small trace of their own: Reset, Fit, Refit per history case
        main = [e for e in events if e["e"] != "Refit"]
        side = []
        for b in blocks:
            if any(e["e"] == "Refit" for e in b):
                side += [e for e in b if e["e"] in ("Reset", "Fit", "Refit")]
        ledgerkit.check(ctx, "TracePls", "Trace_Pls.cfg", "Trace_Pls_prop.cfg", main, on_reject, "trace_pls")
        if side:
            ledgerkit.check(ctx, "TracePls", "Trace_Pls.cfg", "Trace_Pls_prop.cfg", side, on_reject, "trace_pls_refit")
        ctx.traces(len(fits))
        # (V) variant agreement
        variant, nd = infer_variant(events)
        if variant is not None:
            ctx.cov["residual_rule_inferred"] = dict(variant=variant, discriminating_columns=nd)
            if variant in ("mod_ny", "div_nlv"):
                r = variant_model(ctx, rd, variant)
                ctx.note("(V) residual rule inferred from %d discriminating residual columns of real models: %s; Layout.tla with that rule: %s"
                         % (nd, variant, "holds" if r.ok else "violates %s" % r.violation))
                if (variant == "mod_ny") != r.ok:
                    raise InfraError("variant agreement broken: rule %s but model says ok=%s" % (variant, r.ok))
                if not r.ok and not ctx.violations:
                    raise InfraError("the implemented rule violates the layout model but no real run was rejected: binding lost")
            else:
                ctx.note("(V) residual columns follow neither col %% ny nor floor(col / nlv)")
        elif only is None:
            deferred.add("no residual column discriminates the two rules: generator lost its ny>1, nlv>1 cases")
        store, nw = infer_store(events)
        if store is not None:
            ctx.cov["storage_loop_inferred"] = dict(variant=store, wide_latent_variables=nw)
            if store in ("own", "fused_objects"):
                r = store_model(ctx, rd, store)
                ctx.note("(V) storage loop inferred from %d latent variables of real models with fewer objects than variables: %s; PlsStore.tla with that loop: %s"
                         % (nw, store, "holds" if r.ok else "violates %s" % r.violation))
                if (store == "own") != r.ok:
                    raise InfraError("variant agreement broken: storage loop %s but model says ok=%s" % (store, r.ok))
                if not r.ok and not ctx.violations:
                    raise InfraError("the implemented storage loop violates the storage model but no real run was rejected: binding lost")
            else:
                ctx.note("(V) rows of xloadings / xweights beyond the objects are written for some wide models and not for others")
        elif only is None:
            deferred.add("no model with fewer objects than variables: generator lost its wide cases")
        return events
    finally:
        shutil.rmtree(rd, ignore_errors=True)


def _would_fail(e, impl=True):
    """same-signature duplicates are dropped only when they fail the same way (keeps the rest of the trace under check)"""
    k, cx = e.get("e"), e.get("cx", {})
    if k == "Lv":
        return any(e.get(f, 0) > TOL for f in (STRUCT + IMPL if impl else STRUCT))
    if k == "Col":
        return e["found"] != e["col"] or e["recalcErr"] > _tol_y(cx) or e["allErr"] > _tol_y(cx)
    if k == "Resid":
        return e["residErr"] > TOL or e["against"] != e["j"]
    if k == "Tab":
        return True
    if k == "End":
        return e.get("xfull", 0) > _tol_xfull(cx)
    if k == "Prep":
        return e["xavg"] > _tol_xfull(cx) or e["yavg"] > _tol_meany(cx) or (impl and (e["xscl"] > _tol_xfull(cx) or e["yscl"] > _tol_meany(cx)))
    if k == "Score":
        return e["err"] > TOL or e["got"] != min(e["req"], cx.get("nlv", 0))
    if k == "YPred":
        return e["err"] > _tol_y(cx)
    if k == "AllLv":
        return e["scoreErr"] > TOL or e["err"] > _tol_y(cx) or e["cols"] != cx.get("ny", 0) * cx.get("nlv", 0) or e["scols"] != cx.get("nlv", 0)
    if k == "VarExp":
        return e["err"] > TOL
    if k == "Hist":
        return e["same"] != 1
    if k == "Refit":
        return e["rc"] != 0 or e["bsize"] != cx.get("nlv") or e["reccols"] != cx.get("ny", 0) * cx.get("nlv", 0) or e["varexp"] != cx.get("nlv") or e["same"] != 1
    return True


def selftests(ctx, events):
    # the div_nlv rule and the fused storage loop must be refuted by the models (the invariants are not vacuous)
    rd = tlc.rundir()
    try:
        r = variant_model(ctx, rd, "div_nlv")
        if r.ok or r.violation != "ResidualAgainstOwnResponse":
            raise InfraError("Layout.tla no longer refutes the rule floor(col / nlv)")
        ctx.note("Layout.tla refutes the rule floor(col / nlv): %s" % " ".join(r.trace_text.split()[8:16]))
        r = store_model(ctx, rd, "fused_objects")
        if r.ok or r.violation not in ("EveryCellStored", "ThLost"):
            raise InfraError("PlsStore.tla no longer refutes the storage pass fused over the objects")
        ctx.note("PlsStore.tla refutes the storage pass fused over the objects: %s" % " ".join(r.trace_text.split()[8:20]))
    finally:
        shutil.rmtree(rd, ignore_errors=True)
    # binding: one corrupted field per event kind must be rejected by the property layer
    good = [b for b in tlc.split_blocks(events) if not any(e["e"] in ("Abort", "Shape", "Skip") for e in b)]
    pick = good[:10] + [b for b in good[10:] if any(e["e"] in ("Hist", "Tab") for e in b)][:4] + \
        [b for b in good[10:] if any(e["e"] == "Fit" and e["shape"] in ("wide", "wide1") and e["nlv"] == e["rank"] for e in b)][:3]
    ev = [e for b in pick for e in b]
    ev = [e for e in ev if not ((e["e"] in ("Prep", "Resid", "Col", "Lv", "End", "Tab", "Score", "YPred", "AllLv", "VarExp", "Hist", "Refit")) and _would_fail(e, impl=False))]    # validated with the property layer only

    def bump(kind, field, cond=lambda e: True):
        def f(evs):
            for e in evs:
                if e["e"] == kind and cond(e):
                    e[field] = min(2000000000, max(1, e[field]) * 1000000)
                    return True
            return False
        return kind, f

    def setv(kind, field, fn, cond=lambda e: True):
        def f(evs):
            for e in evs:
                if e["e"] == kind and cond(e):
                    e[field] = fn(e)
                    return True
            return False
        return kind, f
    wide = lambda e: e.get("cx", {}).get("shape") in ("wide", "wide1")
    tests = [
        ("binding_tortho_x1e6", bump("Lv", "tortho", lambda e: e["a"] >= 2)),
        ("binding_wortho_wide_x1e6", bump("Lv", "wortho", lambda e: e["a"] >= 2 and wide(e))),
        ("binding_residErr_x1e6", bump("Resid", "residErr")),
        ("binding_prep_ycentring_x1e6", bump("Prep", "yavg")),
        ("binding_score_err_x1e6", bump("Score", "err")),
        ("binding_score_columns", setv("Score", "got", lambda e: e["got"] + 1, lambda e: e["req"] > e.get("cx", {}).get("nlv", 99))),
        ("binding_ypred_err_x1e6", bump("YPred", "err", lambda e: e["src"] == 1)),
        ("binding_ypred_overask_x1e6", bump("YPred", "err", lambda e: e["a"] > e.get("cx", {}).get("nlv", 99))),
        ("binding_alllv_scores_x1e6", bump("AllLv", "scoreErr")),
        ("binding_alllv_columns", setv("AllLv", "cols", lambda e: e["cols"] + 1)),
        ("binding_varexp_x1e6", bump("VarExp", "err")),
        ("binding_hist_differs", setv("Hist", "same", lambda e: 0)),
        ("binding_xfull_wide_x1e6", bump("End", "xfull", lambda e: e["full"] == 1 and wide(e))),
        ("binding_end_full_flag", setv("End", "full", lambda e: 0, lambda e: e["full"] == 1)),
        ("binding_fit_shape_tag", setv("Fit", "shape", lambda e: "tall", lambda e: e["shape"] in ("wide", "wide1"))),
        ("binding_fit_rank_above_bound", setv("Fit", "rank", lambda e: e["rank"] + 1, lambda e: e["inst"] == 1)),
        ("binding_fit_nlv_above_rank", setv("Fit", "nlv", lambda e: e["rank"] + 1)),
        ("binding_fit_inst_flag", setv("Fit", "inst", lambda e: 1 - e["inst"])),
        ("binding_refit_bsize", setv("Refit", "bsize", lambda e: e["bsize"] + 1)),
    ]
    # an event kind whose recorded events were rejected in this very run (reported above) may leave nothing acceptable to corrupt:
    # its rejection IS the evidence of the binding; every other kind must offer a field
    rejected = set(ctx.cov.get("rejected_event_kinds", []))
    todo = []
    for label, (kind, corrupt) in tests:
        if not corrupt(copy.deepcopy(ev)):
            if kind in rejected:
                ctx.note("%s: every recorded %s event of the sample was rejected by TLC in this run; nothing left to corrupt" % (label, kind))
                continue
            raise InfraError("binding self-test could not find a field to corrupt (%s)" % label)
        todo.append((label, corrupt))
    with ThreadPoolExecutor(max_workers=min(4, int(os.environ.get("VERIF_WORKERS", "4")))) as ex:      # one JVM start each: run a few side by side
        for f in [ex.submit(trace.binding_selftest, ctx, "TracePls", "Trace_Pls_prop.cfg", ev, corrupt, label) for label, corrupt in todo]:
            f.result()
    ctx.note("binding self-tests: %d corrupted traces, all rejected by TLC" % len(todo))


def run(ctx):
    ctx.assumptions += [
        "the numeric residuals are evaluated by the harness in double precision against its own preprocessing / deflation / back-transform and logged as integers (1e-12 units, saturating); TLC decides every comparison and the layout arithmetic",
        "sampled inputs (seeded), each model's trace validated by TLC; TolAlg = 1e-8 relative (DESIGN section 0) plus the representability terms of Pls.tla (0 below 1000 spreads of offset), worst values observed on this run are recorded under coverage.observed_max",
        "inputs are admitted inside the quantifier only: numerical rank of the preprocessed X (LAPACK dgesdd, gap 1e3) equal to the largest rank its shape allows with sigma_1/sigma_rank <= 1e3 (rank-deficient X: extra layer), non-constant responses, scale factors >= 0.05 on scaled blocks (zero-scale guards are C10's business), nlv <= rank",
        "every fit runs in a child process with one processor (hook H2), a NIPALS iteration budget (hook H4) and a watchdog; a fit that does not return is reported as a violation with its case",
        "ASan/UBSan build: any sanitizer report during a fit is a violation",
    ]
    model_part(ctx)
    deferred = Deferred(ctx)
    events = conformance(ctx, 800 if ctx.quick else 32000, 8 if ctx.quick else 16, deferred=deferred)
    try:
        if not deferred:
            selftests(ctx, events)
    except InfraError as e:
        if not ctx.violations:
            raise
        ctx.note("binding self-test not conclusive on a trace that already carries violations: %s" % e)
    deferred.settle()


def replay(ctx, body):
    case = body.get("case") or {}
    if case.get("kind") == "case" and case.get("idx") is not None:
        conformance(ctx, 1, 1, only=dict(seed=case.get("seed", body.get("seed", ctx.seed)), idx=case["idx"]))
        ctx.case(("replay", case["idx"]))
        ctx.case(("replay2", case["idx"]))
    elif case.get("kind") == "range":
        conformance(ctx, 1, 1, only=dict(seed=case["seed"], idx=case["first"], count=case.get("count", 1)))
        ctx.case(("replay", case["first"]))
        ctx.case(("replay2", case["first"]))
    else:
        run(ctx)
