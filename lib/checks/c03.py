"""C03 - PLS (NIPALS) model satisfies its structural identities for every X, Y, scaling and LV count.

(M)  Layout.tla: Col(a,j) = ny*(a-1)+j is a bijection onto 0..ny*nlv-1 for all ny, nlv in bounds and the residual rule
     "column % ny" takes every column against its own response; the rule floor(column/nlv) is refuted by TLC (first at
     (ny,nlv) = (2,2)).  Pls.tla (structure scope): the ledger's step guards imply its invariants.
(C)  c03_drv fits real PLS models (X 6..40 x 1..12 of full column rank, 1..4 correlated / differently scaled responses,
     scaling options -1..5 on both blocks, 1..rank LVs; each fit in a child with iteration budget), projects every model
     onto the ledger (score / weight orthogonality, X = TP' + E, re-projection, recalculated = back-transformed sum of
     b t q', residual column = recalculated - same response, located by value) and TLC validates every recorded event
     against TracePls.tla; for integer-valued cases TLC recomputes the residual table itself through the layout map.
(V)  the residual rule inferred from the real residual columns is fed back as ResidualIndex into Layout.tla.
"""
import os, shutil
from vf import build, tlc, trace, ledgerkit
from vf import run as hrun
from vf.core import InfraError

LEVEL = "exploration"
READY = True
TECHNIQUE = ("TLC model checking of Layout.tla (column layout bijection, residual rule variants) and of the Pls.tla ledger; TLC trace validation "
             "(TracePls.tla) of residuals recorded from real PLS models against independent oracles, with the residual table of integer-valued "
             "cases recomputed by TLC")
LEVEL_TEXT = ("Sampled exploration: seeded random PLS problems inside the property's quantifier are fitted by the real library and every model is "
              "projected onto the ledger of Pls.tla; TLC validates each recorded step (orthogonality, decomposition, re-projection, recalculated "
              "responses, residual columns through the layout map). The layout model itself is checked exhaustively for ny 1..4, nlv 1..12.")
LEVEL_NOTE = ("Trusts TLC, the harness's double-precision residual evaluation and quantisation (self-tested by a binding test that corrupts one logged "
              "residual), LAPACK dgesdd for the admission test (rank / condition number). Inputs are sampled, not exhaustive; X is admitted with "
              "condition number <= 1e3 after preprocessing and scale factors away from the library's zero-scale guards (C10's business).")

TOL = 10000
STRUCT = ("tortho", "wortho", "recon", "reproj")
IMPL = ("pnorm", "qnorm", "udefl", "binner")


def _cls(cx):
    return "ny%s:nlv%s" % (">1" if cx.get("ny", 1) > 1 else "1", ">1" if cx.get("nlv", 1) > 1 else "1")


def _sig(ev):
    """label for an event TLC rejected (TLC decided; this only names the failed identity)"""
    e, cx = ev.get("e"), ev.get("cx", {})
    c = _cls(cx)
    if e == "Lv":
        bad = [f for f in STRUCT if ev.get(f, 0) > TOL] or [f for f in IMPL if ev.get(f, 0) > TOL] or ["ledger"]
        return "PLS:%s:%s" % (bad[0], c), "LV %d of case %s %s: %s" % (ev["a"], ev.get("case"), cx, {f: ev[f] * 1e-12 for f in bad if f in ev})
    if e == "Col":
        if ev["found"] != ev["col"]:
            return "PLS:layout:%s" % c, "case %s %s: (a=%d,j=%d) expected in column %d of recalculated_y, found in column %d" % (ev.get("case"), cx, ev["a"], ev["j"], ev["col"], ev["found"])
        bad = "recalcErr" if ev["recalcErr"] > TOL else "allErr" if ev["allErr"] > TOL else "ledger"
        return "PLS:%s:%s" % (bad, c), "case %s %s: column %d (a=%d,j=%d) %s = %.3g (relative to |y_j - mean|)" % (ev.get("case"), cx, ev["col"], ev["a"], ev["j"], bad, ev.get(bad, 0) * 1e-12)
    if e == "Resid":
        return "PLS:residErr:%s" % c, ("case %s %s: recalc_residuals column %d (a=%d, response %d) is not recalculated - observed response %d: relative error >= %.3g; "
                                      "the stored column matches the residual against response %d") % (ev.get("case"), cx, ev["col"], ev["a"], ev["j"], ev["j"], ev["residErr"] * 1e-12, ev["against"])
    if e == "Tab":
        return "PLS:residTable:%s" % c, "case %s %s: TLC recomputed recalculated - observed over the logged integer tables through Col(a,j): the residual table differs" % (ev.get("case"), cx)
    if e == "End":
        return "PLS:xfull:%s" % c, "case %s %s: at full rank X is not reproduced by T P' (relative %.3g) or counts differ: %s" % (ev.get("case"), cx, ev.get("xfull", 0) * 1e-12, ev)
    if e == "Abort":
        return "PLS:fit:abort:rc%s" % ev.get("rc"), "case %s: the fit did not return (rc=%s: 97 iteration budget, 124 watchdog, 99/98 sanitizer, 1000+n signal)" % (ev.get("case"), ev.get("rc"))
    if e == "Shape":
        return "PLS:shape:%s" % c, "case %s %s: model tables have unexpected shapes %s" % (ev.get("case"), cx, ev)
    if e == "Fit":
        return "PLS:quantifier", "generated case outside the ledger's quantifier: %s" % ev
    return "PLS:trace:%s" % e, "unexpected event %s" % ev


def infer_variant(events):
    """which response index does the code take residual column c against?  (located by value in the harness)"""
    mod_ok = div_ok = True
    discriminating = 0
    for ev in events:
        if ev.get("e") != "Resid" or "cx" not in ev:
            continue
        ny, nlv, c = ev["cx"]["ny"], ev["cx"]["nlv"], ev["col"]
        if c % ny != c // nlv:
            discriminating += 1
        mod_ok = mod_ok and ev["against"] == c % ny
        div_ok = div_ok and ev["against"] == c // nlv
    if discriminating == 0:
        return None, 0
    return ("mod_ny" if mod_ok else "div_nlv" if div_ok else "other"), discriminating


def model_part(ctx):
    cfg = "MC_Layout_quick.cfg" if ctx.quick else "MC_Layout_thorough.cfg"
    r = tlc.run("Layout", cfg, workers=4, timeout=600)
    ctx.add_tlc(r, "mc_layout_mod_ny")
    if not r.ok:
        raise InfraError("Layout.tla: %s fails for the rule column %% ny:\n%s" % (r.violation, r.trace_text[:1200]))
    ctx.note("Layout.tla: bijection and residual rule 'col %% ny' hold on %d (ny,nlv) pairs" % r.distinct)
    r = tlc.run("Pls", "MC_Pls_struct.cfg", workers=4, timeout=600)
    ctx.add_tlc(r, "mc_pls_struct")
    if not r.ok:
        raise InfraError("Pls.tla (structure scope): ledger invariant %s fails:\n%s" % (r.violation, r.trace_text[:1500]))
    z = ledgerkit.never_taken(r, ("PFit", "PLv", "PCol", "PResid", "PEnd"))
    if z:
        raise InfraError("Pls.tla (structure scope): actions never taken: %s" % z)
    ctx.note("Pls.tla ledger (structure scope): %d states, invariants hold, every action taken" % r.distinct)


def variant_model(ctx, rd, variant):
    """(V) the rule the code implements, as a constant of Layout.tla"""
    cfg = tlc.write_cfg(os.path.join(rd, "MC_Layout_variant.cfg"), spec="LSpec", constants=dict(MaxNy=4, MaxNlv=12, ResidualIndex=variant),
                        invariants=["LayoutBijective", "ResidualAgainstOwnResponse"], deadlock=False)
    r = tlc.run("Layout", cfg, workers=2, timeout=300)
    ctx.add_tlc(r, "mc_layout_variant_%s" % variant)
    return r


def conformance(ctx, total, parts, first=0, only=None):
    lib = build.build_lib("san")
    exe = build.build_harness("c03", ["c03_drv.c"], lib)
    rd = tlc.rundir()
    try:
        if only is not None:
            events, maxima, results = [], {}, []
            h = hrun.run(exe, [os.path.join(rd, "r.ndjson"), only["seed"], only["idx"], only.get("count", 1)], timeout=600)
            events = hrun.read_ndjson(os.path.join(rd, "r.ndjson"))
            results = [([None, only["seed"], only["idx"], only.get("count", 1)], h)]
            seed = only["seed"]
        else:
            seed = ctx.seed
            events, maxima, results = ledgerkit.drive(ctx, exe, rd, "c03_", seed, total, parts, timeout=2400)
        ledgerkit.sanitizer_reports(ctx, results, "PLS", lambda j: dict(kind="range", seed=j[1], first=j[2], count=j[3]))
        ledgerkit.annotate(events)
        fits = [e for e in events if e["e"] == "Fit"]
        if not fits:
            raise InfraError("c03 harness produced no Fit events")
        for f in fits:
            ctx.case((f["p"], f["ny"], f["nlv"], f["xs"], f["ys"]), f["ny"] > 1 and f["nlv"] > 1)
        # the harness always logs every LV and every (a,j); anything else is its own fault, not a verdict
        blocks = tlc.split_blocks(events)
        for b in blocks:
            f = [e for e in b if e["e"] == "Fit"]
            if not f or any(e["e"] in ("Abort", "Shape") for e in b):
                continue
            f = f[0]
            cnt = {k: sum(1 for e in b if e["e"] == k) for k in ("Lv", "Col", "Resid", "End")}
            if cnt != dict(Lv=f["nlv"], Col=f["ny"] * f["nlv"], Resid=f["ny"] * f["nlv"], End=1):
                raise InfraError("c03 harness logged an incomplete block for case %s: %s" % (b[0].get("case"), cnt))
        for b in blocks:
            f = [e for e in b if e["e"] == "Fit"]
            if f and f[0]["ny"] > 1 and f[0]["nlv"] > 1 and len(b) < 40:
                ctx.sample(dict(case=b[0].get("case"), seed=seed, events=b[:14]), 3)
        ctx.cov["rule"] = ("seeded random PLS problems: n 6..40, p 1..min(12,n-2), ny 1..4, scaling options -1..5 on X and on Y, noise 0/5%/70%/600%, nlv 1..rank "
                           "(every third case nlv = rank; every fifth case integer-valued with the tables handed to TLC); preprocessed X admitted with cond <= 1e3; "
                           "a case = one fitted model; distinct key = (p, ny, nlv, xscaling, yscaling); non-trivial iff ny > 1 and nlv > 1")
        ctx.cov["observed_max"] = dict(ctx.cov.get("observed_max", {}), **{k: v for k, v in maxima.items()})
        ctx.cov["tolerance"] = dict(TolAlg=1e-8)

        def on_reject(ev, idx, block):
            sig, what = _sig(ev)
            ctx.violation(sig, what, dict(kind="case", seed=seed, idx=ev.get("case"), event=ev))
            return lambda e: _sig(e)[0] == sig and e.get("e") == ev.get("e") and _would_fail(e)
        ledgerkit.check(ctx, "TracePls", "Trace_Pls.cfg", "Trace_Pls_prop.cfg", events, on_reject, "trace_pls")
        ctx.traces(len(fits))
        # (V) variant agreement
        variant, nd = infer_variant(events)
        if variant is not None:
            ctx.cov["residual_rule_inferred"] = dict(variant=variant, discriminating_columns=nd)
            if variant in ("mod_ny", "div_nlv"):
                r = variant_model(ctx, rd, variant)
                ctx.note("(V) residual rule inferred from %d discriminating residual columns of real models: %s; Layout.tla with that rule: %s"
                         % (nd, variant, "holds" if r.ok else "violates %s" % r.violation))
                if (variant == "mod_ny") != r.ok:
                    raise InfraError("variant agreement broken: rule %s but model says ok=%s" % (variant, r.ok))
                if not r.ok and not ctx.violations:
                    raise InfraError("the implemented rule violates the layout model but no real run was rejected: binding lost")
            else:
                ctx.note("(V) residual columns follow neither col %% ny nor floor(col / nlv)")
        elif only is None:
            raise InfraError("no residual column discriminates the two rules: generator lost its ny>1, nlv>1 cases")
        return events
    finally:
        shutil.rmtree(rd, ignore_errors=True)


def _would_fail(e, impl=True):
    """same-signature duplicates are dropped only when they fail the same way (keeps the rest of the trace under check)"""
    k = e.get("e")
    if k == "Lv":
        return any(e.get(f, 0) > TOL for f in (STRUCT + IMPL if impl else STRUCT))
    if k == "Col":
        return e["found"] != e["col"] or e["recalcErr"] > TOL or e["allErr"] > TOL
    if k == "Resid":
        return e["residErr"] > TOL or e["against"] != e["j"]
    if k == "Tab":
        return True
    if k == "End":
        return e.get("xfull", 0) > TOL
    return True


def selftests(ctx, events):
    # the div_nlv rule must be refuted by the model (the invariant is not vacuous)
    rd = tlc.rundir()
    try:
        r = variant_model(ctx, rd, "div_nlv")
        if r.ok or r.violation != "ResidualAgainstOwnResponse":
            raise InfraError("Layout.tla no longer refutes the rule floor(col / nlv)")
        ctx.note("Layout.tla refutes the rule floor(col / nlv): %s" % " ".join(r.trace_text.split()[8:16]))
    finally:
        shutil.rmtree(rd, ignore_errors=True)
    # binding: one logged residual multiplied by 1e6 must be rejected
    blocks = [b for b in tlc.split_blocks(events) if not any(e["e"] in ("Abort", "Shape") for e in b)][:12]
    ev = [e for b in blocks for e in b]
    ev = [e for e in ev if not ((e["e"] in ("Resid", "Col", "Lv", "End", "Tab")) and _would_fail(e, impl=False))]    # validated with the property layer only

    def corrupt_lv(evs):
        for e in evs:
            if e["e"] == "Lv" and e["a"] >= 2:
                e["tortho"] = min(2000000000, max(1, e["tortho"]) * 1000000)
                return True
        return False

    def corrupt_resid(evs):
        for e in evs:
            if e["e"] == "Resid":
                e["residErr"] = min(2000000000, max(1, e["residErr"]) * 1000000)
                return True
        return False
    trace.binding_selftest(ctx, "TracePls", "Trace_Pls_prop.cfg", ev, corrupt_lv, "binding_tortho_x1e6")
    trace.binding_selftest(ctx, "TracePls", "Trace_Pls_prop.cfg", ev, corrupt_resid, "binding_residErr_x1e6")


def run(ctx):
    ctx.assumptions += [
        "the numeric residuals are evaluated by the harness in double precision against its own preprocessing / deflation / back-transform and logged as integers (1e-12 units, saturating); TLC decides every comparison and the layout arithmetic",
        "sampled inputs (seeded), each model's trace validated by TLC; TolAlg = 1e-8 relative (DESIGN section 0), worst values observed on this run are recorded under coverage.observed_max",
        "inputs are admitted inside the quantifier only: full column rank with cond(preprocessed X) <= 1e3 (LAPACK dgesdd), non-constant responses, scale factors >= 0.05 (zero-scale guards are C10's business), nlv <= rank",
        "every fit runs in a child process with one processor (hook H2), a NIPALS iteration budget (hook H4) and a watchdog; a fit that does not return is reported as a violation with its case",
        "ASan/UBSan build: any sanitizer report during a fit is a violation",
    ]
    model_part(ctx)
    events = conformance(ctx, 400 if ctx.quick else 40000, 8 if ctx.quick else 16)
    try:
        selftests(ctx, events)
    except InfraError as e:
        if not ctx.violations:
            raise
        ctx.note("binding self-test not conclusive on a trace that already carries violations: %s" % e)


def replay(ctx, body):
    case = body.get("case") or {}
    if case.get("kind") == "case" and case.get("idx") is not None:
        conformance(ctx, 1, 1, only=dict(seed=case.get("seed", body.get("seed", ctx.seed)), idx=case["idx"]))
        ctx.case(("replay", case["idx"]))
        ctx.case(("replay2", case["idx"]))
    elif case.get("kind") == "range":
        conformance(ctx, 1, 1, only=dict(seed=case["seed"], idx=case["first"], count=case.get("count", 1)))
        ctx.case(("replay", case["first"]))
        ctx.case(("replay2", case["first"]))
    else:
        run(ctx)
