"""C19 - spline, trapezoid area and simplex minimiser meet their numerical contracts.

(M)  Spline.tla: exact natural cubic spline by rational tridiagonal solve for 3..5 integer knots (Interpolates, Smooth, Natural, straight
     lines reproduced, trapezoid area exact and additive - theorems on every knot set; Theorems2: the value does not depend on the unit
     of x (k = 2, 3, 10), ordinates a y + b give a S + b (magnitude / offset), area additive over splits BETWEEN vertices, C0); the piece
     lookup of cubic_spline_predict with LookupTol in {"abs1e-2", "exact"}: with an absolute tolerance TLC shows a chosen piece outside
     PieceOf(x) at scales <= 1e-2.  SplineHist.tla: the caller-owned coefficient table over several fits (Policy "resize" | "keep"):
     TableIsCurrent (one row per piece, every row and the LAST row written by the current fit) holds for "resize" and is refuted for "keep".
     NMTie.tla: EXACT model of NelderMeadSimplex in two dimensions (Gao-Han parameters are dyadic for n = 2: integer arithmetic in units of
     2^-10, MatrixSort's exchange sort, all five moves) on integer quadratics x integer starts x integer steps; Rule "strict" (f1 < fr, the
     pinned tree) is refuted by NoStall (a reflection that TIES with the best vertex fires no branch: the iteration repeats for ever);
     StopRule "values" (stop when the vertex values agree, the pinned tree) is refuted by NoFalseStop (three distinct vertices on one level
     curve); Rule "textbook" (f1 <= fr) with StopRule "values+size" satisfies NoStall / NoFalseStop / BestNeverWorse / PrecisionOK on the
     whole family; TLC prints every start of the family and the real routine is run on each of them (start class 10), judged by the
     ordinary contract.
(R)  c19_spline replay: every TLC-emitted knot set evaluated at scales 1e-4..1e4; predictions at knots/midpoints against TLC's rational
     value (rel 1e-9), the piece actually used identified from the public S table; curve_area against TLC's exact area.
(V)  c19_spline ledger: 3..40 knots, uniform / irregular spacings 1e-4..1e4: interpolation, C1/C2, natural ends, linear reproduction,
     the one-call form interpolate() (shape, increasing abscissae over the knot range, value = two-call form, first point, lines),
     unit independence, trapezoid exactness/additivity, validated by TLC against TraceSpline.tla.
     c19_cls SESSIONS (INPUT-CLASSES K2 K3 K4 K5 K7 K8): one coefficient table, one interpolate() output and one prediction vector live
     through several fits (N1 knots, then fewer, more, the same number with other data; tables / outputs that are already sized and
     hold other data); after EVERY fit all clauses are judged again by TLC (SFit / SInt / SArea of TraceSpline.tla; the table a call
     found must be the table the previous call left).  Data classes per fit: spacing uniform / irregular / two decades / EXTREME mix of
     1e-4 and 1e4 in one knot set / wide / graded; ordinate magnitudes 1e-6..1e6, ordinate offsets 1e6 x magnitude, abscissa offsets
     1e6 x spacing, straight lines; queries at knots, midpoints, ONE ULP left and right of every knot, quarter points of the first and the
     last piece; tolerances are TLA+ functions of the logged spacing decades (Span, Rep).  Sent: queries at which the spline takes the
     value of the MISSING code.  Outside the statement (EXTRA-FINDING only): curve_area(xy, np > 0), descending abscissae, extrapolation.
     c19_nm: objective-callback traces of NelderMeadSimplex on strictly convex quadratics (2..6 dims, cond <= 100): TraceNM.tla infers the
     unlogged move of every evaluation (Gao-Han automaton = Impl layer); TraceNMProp.tla (flat) holds the result contract.  Start classes:
     generic, FLAT start (all n+1 initial values equal: exactly for separable and non-separable integer quadratics, to 1e-12 for general
     ones; flatness is verified by TLC on the logged evaluations), start AT the minimiser, start 1e3 away, step decades 1e-3..1e3,
     cond = 100 exactly, the same minimisation twice in one process, result vector already sized; all dimensions 2..6 in both layers.

CLAUSE TABLE (statement of C19 -> what decides it -> event that carries it)
  spline passes through every point ........ Spline!Theorems (Interpolates); TVal (exact value), TLedger.interp, TSFit.interp ........ Val, Ledger, SFit
    ... also one ulp beside every knot ..... TSFit.ulpv <= TolRep(Rep, Span), TSFit.ulpw = 0 ............................... SFit
    ... also after a refit into a used table  SplineHist!TableIsCurrent; TSFit (prev = rows left, rows = nk - 1, cols = 5) ........ Reset, SFit
    ... also where the value is 99999999 ... TSent (err <= TolVal) .................................................................... Sent
  piece that holds the abscissa is used .... Spline!LookupRight; TPiece (chosen /\ PieceOfSeq # {}); TLedger.lookup = 0, TSFit.lookup ... Piece, Ledger, SFit
  C1 / C2 at interior knots ................ Spline!Theorems (Smooth); TLedger.c1 .c2, TSFit.c1 .c2 <= TolAmp(Span) ................... Ledger, SFit
  zero second derivative at both ends ...... Spline!Theorems (Natural); TLedger.nat, TSFit.nat ....................................... Ledger, SFit
  straight lines reproduced ................ Spline!Theorems (Linear); TLedger.lin, TInterp.lin, TSFit.lin, TSInt.lin ................ Ledger, Interp, SFit, SInt
  independent of the units of x ............ Spline!Theorems2 (ScaleX); replay at nine decades (TVal); TLedger.unit; TSFit.unit .unit2 .. Val, Ledger, SFit
  (value independent of the other queries).. TLedger.ord, TSFit.ord (one call, other order, already sized result vector) ............. Ledger, SFit
  interpolate() = the same spline .......... TInterp, TSInt (shape np x 2 whatever the output held, increasing, value, first point, ends) Interp, SInt
  trapezoid area = exact integral .......... Spline!Theorems (Area = Integral); TArea.err, TAreaL.exact, TSArea.exact ................. Area, AreaL, SArea
  area additive over sub-ranges ............ Spline!Theorems (additive), Theorems2 (between vertices); TArea.add, TAreaL.add, TSArea.add .addb Area, AreaL, SArea
  simplex: reported value = f(point) ....... TraceNM!Check / TraceNMProp!TCheck (V = ret) ............................................ Return, Check
  never worse than best initial vertex ..... TraceNM!Return, BestNeverWorse / TraceNMProp!TReturn (Le(V, best0)) ...................... Eval, InitBest, Return
  terminates within the iteration limit .... TReturn (n + 1 <= evals <= cap) ......................................................... Reset, Return
  converges on strictly convex quadratics .. TQuad / Quad (judge = 1 => dist <= MinTol; offset class: adist <= AbsBound(R)) for EVERY
                                             start class; flat classes verified on the trace (TReset fs, InitEval V = buf[1]);
                                             NMTie!NoStall, NoFalseStop (exact 2-D model, both acceptance / stop rules), family replayed (sc = 10) ....... Reset, Eval, Quad
"""
import json, os, shutil, threading, copy
from concurrent.futures import ThreadPoolExecutor
from vf import build, tlc, trace
from vf import run as hrun
from vf.core import InfraError
from checks.deferred import Deferred, crash_signal

LEVEL = "exploration"
READY = True
TECHNIQUE = ("TLC as exact rational oracle for tiny natural cubic splines and polyline areas (Spline.tla: theorems incl. unit / affine-ordinate / "
             "between-vertex laws + exhaustive lookup model; SplineHist.tla: the caller-owned coefficient table over several fits) replayed into "
             "cubic_spline_interpolation/cubic_spline_predict/curve_area at nine scales; TLC trace validation of sampled ledgers (3..40 knots), of "
             "class-scheduled in-process SESSIONS (refits into used tables / outputs, spacings mixing 1e-4 and 1e4, ordinate magnitudes 1e-6..1e6 and "
             "offsets 1e6, queries one ulp beside the knots; tolerances are TLA+ functions of the logged spacing decades) and of Nelder-Mead "
             "objective-callback traces against a move-inferring automaton (TraceNM.tla) and a flat contract spec (TraceNMProp.tla) over start "
             "classes (flat start, at the minimiser, 1e3 away, step decades 1e-3..1e3, 2..6 dimensions); an exact integer model of the 2-D routine "
             "(NMTie.tla) model-checked for both reflection-acceptance rules and its whole start family replayed through the real routine")
LEVEL_TEXT = ("Sampled and class-scheduled inputs inside the property's quantifier (knot counts 3..40 - every count in the thorough tier, 3 4 5 39 40 "
              "and a sample in the quick tier -, spacing decades 1e-4..1e4 alone and mixed in one knot set, ordinate magnitudes / offsets, several fits "
              "into the same objects; quadratics 2..6 dims cond <= 100 over nine start classes), each recorded execution accepted or rejected by TLC; the "
              "lookup / exact-spline / area core is exhaustive over all integer knot sets of the stated small scope and replayed at every scale decade; "
              "the table-history model is exhaustive over 4 fits of 5 knot counts x 9 initial tables; the exact Nelder-Mead model covers 5 integer "
              "quadratics x 25 (49) starts x 16 step pairs for 5 iterations, and each of those 2,000 (3,920) starts is minimised by the real routine.")
LEVEL_NOTE = ("Trusts TLC, the harness's double-precision residual evaluation and quantisation, the identification of the piece used through the public "
              "S table (tolerance 1e-9), the 3-limb order-preserving encoding of doubles; ledger / session inputs are sampled, not exhaustive. Tolerances: "
              "1e-8 (TolLedger) for every class the ledger had before (spacing span <= 2 decades), TolAmp = max(1e-8, 1e-12 * 10^Span) for knot sets whose "
              "spacings span more decades (amplification of the natural spline; worst observed / bound 0.008 over 72,000 fits), TolRep adds 1e-15 * 10^(Rep+1) "
              "for queries one ulp beside a knot, unit change by 1000 judged while Rep + Span <= 10 (the exact rescaling by 1024 always). Classes NOT emitted "
              "because the quantifier or the code excludes them: K1 shape relations other than the knot count / dimension (a spline has one column pair); "
              "K6 processor counts (interpolate.c, numeric.c curve_area and optimization.c reach no MT_* kernel and spawn no worker); K9 MISSING ordinates "
              "as such (an ordinate EQUAL to 99999999 is the library's missing code, not an 'arbitrary ordinate' - only spline VALUES that pass through "
              "the code between ordinary ordinates are generated); K10 labels (none); knots closer than 1e-4 or wider than 1e4, < 3 or > 40 knots, "
              "non-increasing abscissae (N.B. in interpolate.h), condition numbers > 100, non-quadratic objectives; curve_area(xy, np > 0), descending "
              "abscissae and extrapolation are outside the statement (EXTRA-FINDING only).")

PAR = int(os.environ.get("VERIF_WORKERS") or os.environ.get("VERIF_PAR") or "12")


class _Locked:
    """ctx proxy: the parts of this check run in threads; every ctx method is called under one lock"""
    def __init__(self, ctx):
        object.__setattr__(self, "_c", ctx)
        object.__setattr__(self, "_l", threading.RLock())

    def __getattr__(self, k):
        v = getattr(self._c, k)
        if callable(v):
            def f(*a, **kw):
                with self._l:
                    return v(*a, **kw)
            return f
        return v

    def __setattr__(self, k, v):
        setattr(self._c, k, v)


def dec_name(e):
    return "1e%d" % e


def _died(ctx, h, base, name, case, events):
    """the harness of one part ended with rc != 0 without a sanitizer report (the library runs inside the harness process).  A crash signal is reported like the
    sanitizer reports of this module: attributed to the part and to the input that follows / produces the last recorded event (the inputs are generated
    deterministically, the replay runs the part again); a timeout is deferred (a hang cannot be told from machine load); anything else is the machinery's"""
    sg = crash_signal(h.rc)
    last = events[-1] if events else None
    if sg:
        ctx.violation("%s:crash:%s" % (base, sg), "%s: the harness process died (%s) inside a library call, on the input at / after the last recorded event %s:\n%s" % (
            name, sg, json.dumps(last)[:400], h.err[-600:]), dict(case, after=last))
    elif h.timed_out and getattr(ctx, "_deferred", None) is not None:
        ctx._deferred.add("%s timed out after event %s" % (name, json.dumps(last)[:200]))
    else:
        raise InfraError("%s failed rc=%s: %s" % (name, h.rc, h.err[-800:]))


def _vac(ctx, died, msg):
    """a vacuity finding: immediate when the harness ran to its end; when it died early (reported / deferred by _died) the finding is a consequence: deferred"""
    if not died or getattr(ctx, "_deferred", None) is None:
        raise InfraError(msg)
    ctx._deferred.add(msg)


# ---------------------------------------------------------------- spline: model + replay
def spline_model(ctx):
    if ctx.quick:
        cfgs = [("MC_Spline_quick_3.cfg", 4), ("MC_Spline_quick_4.cfg", 4), ("MC_Spline_quick_5.cfg", 4)]
    else:
        cfgs = [("MC_Spline_thorough_3.cfg", 2), ("MC_Spline_thorough_4.cfg", 6), ("MC_Spline_thorough_5.cfg", 8)]
    with ThreadPoolExecutor(3) as ex:
        rs = list(ex.map(lambda c: tlc.run("Spline", c[0], workers=min(c[1], max(2, PAR)), timeout=1700, coverage=False, xmx="4g"), cfgs))
    recs, seen = [], set()
    for (c, _), r in zip(cfgs, rs):
        ctx.add_tlc(r, "mc_" + c[3:-4].lower())
        if not r.ok:
            raise InfraError("Spline.tla (%s): %s fails in the model itself (exact lookup):\n%s" % (c, r.violation, r.trace_text[:1200]))
        for e in r.emits:
            k = (tuple(e["xs"]), tuple(e["ys"]))
            if k not in seen:
                seen.add(k)
                recs.append(e)
    if not recs:
        raise InfraError("Spline.tla emitted no knot set")
    ctx.note("model: Interpolates/Smooth/Natural/Linear/Area theorems, Theorems2 (units, affine ordinates, between-vertex additivity) and LookupRight(exact) hold on %d integer knot sets" % len(recs))
    r = tlc.run("Spline", "MC_Spline_abs.cfg", workers=2, timeout=600, coverage=False)
    ctx.add_tlc(r, "mc_spline_abs1e-2")
    if r.violation != "LookupRight":
        raise InfraError("Spline.tla with LookupTol = abs1e-2: expected LookupRight to be refuted, got %s" % r.violation)
    ctx.note("model: with the absolute 1e-2 tolerance LookupRight is refuted (chosen piece outside PieceOf(x))")
    ctx.steps["lookup_counterexample"] = r.trace_text[:400]
    return recs


def hist_model(ctx):
    """SplineHist.tla: the coefficient table over several fits; 'resize' holds, 'keep' (reallocate only when too small) is refuted"""
    r = tlc.run("SplineHist", "MC_SplineHist_resize.cfg", workers=2, timeout=600)
    ctx.add_tlc(r, "mc_splinehist_resize")
    if not r.ok:
        raise InfraError("SplineHist.tla (resize): %s fails in the model itself:\n%s" % (r.violation, r.trace_text[:1200]))
    if r.zero_actions():
        raise InfraError("SplineHist.tla: actions never taken: %s" % r.zero_actions())
    k = tlc.run("SplineHist", "MC_SplineHist_keep.cfg", workers=2, timeout=600)
    ctx.add_tlc(k, "mc_splinehist_keep")
    if k.violation != "TableIsCurrent":
        raise InfraError("SplineHist.tla with Policy = keep: expected TableIsCurrent to be refuted, got %s" % k.violation)
    ctx.steps["table_history_counterexample"] = k.trace_text[-500:]
    ctx.note("model: the coefficient table is current after every fit for Policy = resize (%d states); Policy = keep is refuted (stale last row after a fit with fewer knots)" % r.distinct)


def _sig_spline(ev):
    e = ev.get("e")
    if e == "Piece":
        return "SPLINE:lookup:%s" % dec_name(ev["E"]), "knots %s apart: value returned at t=%s/2 is reproduced by piece(s) %s of the S table, none of which contains the point" % (
            dec_name(ev["E"]), ev["t2"], ev["chosen"])
    if e == "Val":
        return "SPLINE:interp:%s" % dec_name(ev["E"]), "value at t=%s/2 differs from the exact spline value by %s (1e-12 units, relative)" % (ev["t2"], ev["err"])
    if e == "Area":
        k = "exact" if ev["err"] > 1000 else "additive"
        return "AREA:%s:%s" % (k, dec_name(ev["E"])), "curve_area: error %s, additivity defect %s (1e-12 units)" % (ev["err"], ev["add"])
    if e == "AreaL":
        k = "exact" if ev["exact"] > 1000 else "additive"
        return "AREA:%s:%s" % (k, dec_name(ev["dec"])), "curve_area on %d knots: error %s, additivity defect %s (1e-12 units)" % (ev["nk"], ev["exact"], ev["add"])
    if e == "Ledger":
        T = 10000
        order = [("lookup", ev["lookup"] > 0), ("interp", ev["interp"] > T), ("smooth", ev["c1"] > T or ev["c2"] > T), ("natural", ev["nat"] > T),
                 ("linear", ev["lin"] > T), ("unit", ev["unit"] > T), ("query-order", ev.get("ord", 0) > T)]
        k = next((n for n, bad in order if bad), "ledger")
        return "SPLINE:%s:%s" % (k, dec_name(ev["dec"])), "%d knots, spacing decade %s, irregular=%s: %s" % (ev["nk"], dec_name(ev["dec"]), ev["irr"], ev)
    if e == "Interp":
        T = 10000
        order = [("shape", ev["dims"] != 1 or ev["mono"] != 1), ("value", ev["val"] > T), ("first-point", ev["first"] > T), ("range", ev["ends"] > T), ("linear", ev["lin"] > T)]
        k = next((n for n, bad in order if bad), "ledger")
        return "SPLINE:interpolate:%s:%s" % (k, dec_name(ev["dec"])), "interpolate() on %d knots, %d points, spacing decade %s: %s" % (ev["nk"], ev["np"], dec_name(ev["dec"]), ev)
    if e == "Knots":
        return "SPLINE:table:%s" % dec_name(ev["E"]), "coefficient table has %s rows for %s knots" % (ev.get("rows"), ev.get("nk"))
    return "SPLINE:trace:%s" % e, "unexpected event %s" % ev


def _validate_spline(ctx, events, label, replay_info):
    def on_reject(ev, idx, block):
        sig, what = _sig_spline(ev)
        ctx.violation(sig, what, dict(kind=replay_info, event=ev))
        return lambda e: _sig_spline(e)[0] == sig
    return trace.check_trace(ctx, "TraceSpline", "Trace_Spline.cfg", None, events, on_reject, drop="event", max_rounds=10, label=label, timeout=1500, xmx="6g")


def spline_replay(ctx, recs, exe, rd):
    lines = []
    for i, e in enumerate(recs):
        t = [i, e["nk"]] + e["xs"] + e["ys"] + [len(e["pts"])]
        for p in e["pts"]:
            t += [p["t2"], p["v"][0], p["v"][1]]
        t += [e["area"][0], e["area"][1], e["line"]]
        lines.append(" ".join(str(v) for v in t))
    nproc = max(1, min(PAR, len(lines) // 100 + 1))
    jobs = []
    for k in range(nproc):
        cf = os.path.join(rd, "knots%d.txt" % k)
        open(cf, "w").write("\n".join(lines[k::nproc]) + "\n")
        jobs.append(["replay", cf, os.path.join(rd, "rp%d.ndjson" % k)])
    res = hrun.run_many(exe, jobs, timeout=1500, workers=PAR)
    events = []
    died = False
    for j, h in zip(jobs, res):
        ev = hrun.read_ndjson(j[2])
        if h.rc != 0:
            died = True
            if h.san:
                ctx.violation("SPLINE:replay:%s" % h.san, "sanitizer report while replaying knot sets:\n%s" % h.err[:1500], dict(kind="spline_replay"))
            else:
                _died(ctx, h, "SPLINE:replay", "c19_spline replay", dict(kind="spline_replay"), ev)
        events += ev
    if not events:
        _vac(ctx, died, "c19_spline replay produced no events")
        return
    # group by scale decade: one TLC validation per decade (a rejected decade is re-validated alone)
    bydec, cur = {}, None
    wrong_dec = set()
    for ev in events:
        if ev["e"] == "Knots":
            cur = ev["E"]
            gaps = [b - a for a, b in zip(ev["xs"], ev["xs"][1:])]
            ctx.case(("replay", ev["nk"], ev["E"], tuple(ev["xs"])), ev["E"] != 0 or len(set(gaps)) > 1)
            ctx.cls("K4:xscale=%s" % dec_name(ev["E"]))
            ctx.cls("K2:nk=%d" % ev["nk"])
        bydec.setdefault(cur, []).append(ev)
    for ev in events:
        if ev["e"] == "Knots" and ev["E"] == -3 and len(set(b - a for a, b in zip(ev["xs"], ev["xs"][1:]))) > 1:
            ctx.sample(ev, 2)
    decs = sorted(bydec)
    with ThreadPoolExecutor(3) as ex:
        rej = list(ex.map(lambda d: _validate_spline(ctx, bydec[d], "trace_spline_replay_%s" % dec_name(d), "spline_replay"), decs))
    wrong_dec = set(d for d, n in zip(decs, rej) if n)
    ctx.traces(sum(1 for ev in events if ev["e"] == "Knots"))
    ctx.steps["replay"] = dict(knot_sets=len(recs), scales=9, events=len(events), rejected_decades=sorted(wrong_dec))
    if wrong_dec:
        ctx.note("variant implemented by the code: absolute lookup tolerance (wrong pieces at decades %s) - the model refutes LookupRight for that variant" % sorted(wrong_dec))


def spline_ledger(ctx, exe, rd, count):
    out = os.path.join(rd, "ledger.ndjson")
    h = hrun.run(exe, ["ledger", out, ctx.seed, count], timeout=1500)
    if h.rc != 0:
        if h.san:
            ctx.violation("SPLINE:ledger:%s" % h.san, "sanitizer report in the spline ledger run:\n%s" % h.err[:1500], dict(kind="spline_ledger", count=count))
        else:
            _died(ctx, h, "SPLINE:ledger", "c19_spline ledger", dict(kind="spline_ledger", count=count), hrun.read_ndjson(out))
    events = hrun.read_ndjson(out)
    died = h.rc != 0
    if not events:
        _vac(ctx, died, "c19_spline ledger produced no events")
        return
    for ev in events:
        if ev["e"] == "Ledger":
            ctx.case(("ledger", ev["nk"], ev["dec"], ev["irr"]), True)
            ctx.cls("K2:nk=%d" % ev["nk"])
            ctx.cls("K4:xscale=%s" % dec_name(ev["dec"]))
            ctx.cls("K4:mesh=%s" % ("uniform", "irregular", "two-decades")[ev["irr"]])
        if ev["e"] == "Interp":
            ctx.case(("interpolate", ev["nk"], ev["dec"], ev["np"]), ev["np"] > 2)
            ctx.cls("K7:interpolate-out=sized-3x5")
    if not any(ev["e"] == "Interp" for ev in events):
        _vac(ctx, died, "c19_spline ledger recorded no interpolate() call")
    ctx.sample(events[0], 5)
    ctx.sample(events[len(events) // 2], 6)
    _validate_spline(ctx, events, "trace_spline_ledger", "spline_ledger")
    ctx.traces(sum(1 for ev in events if ev["e"] == "Ledger"))
    if not ctx.quick and not died:
        # binding self-test: one logged residual multiplied by 1e6 must turn acceptance into rejection
        def corrupt(ev):
            for e in ev:
                if e["e"] == "Ledger":
                    e["c2"] = min(2000000000, (e["c2"] + 1) * 1000000)
                    return True
            return False
        trace.binding_selftest(ctx, "TraceSpline", "Trace_Spline.cfg", events[:100], corrupt, "binding_ledger")


# ---------------------------------------------------------------- spline: class-scheduled sessions (c19_cls.c)
TOLLEDGER, TOLAREA, TOLVAL = 10000, 1000, 1000
MESH = ("uniform", "irregular", "two-decades", "extreme-mix-1e-4-and-1e4", "wide", "graded")


def _hist(prev, want):
    return "fresh" if prev == 0 else "shrink" if prev > want else "grow" if prev < want else "same"


def _p10(k):
    return 1 if k <= 0 else 10 ** k


def _tols(hd, xe):
    """python mirror of TolAmp / TolRep / TolUnit of TraceSpline.tla - used ONLY to word a violation TLC has already decided"""
    sp, rp = max(hd) - min(hd), xe - min(hd)
    amp = TOLLEDGER if sp <= 2 else max(TOLLEDGER, _p10(sp))
    rep = amp + (_p10(9 if rp > 11 else rp - 2) if rp >= 2 else 0)
    unit = max(TOLLEDGER, _p10(rp + sp - 2)) if rp + sp + 1 <= 11 else 2000000000
    return sp, rp, amp, rep, unit


def _sig_session(ev, block):
    e = ev.get("e")
    if e == "SFit":
        want, h = ev["nk"] - 1, _hist(ev["prev"], ev["nk"] - 1)
        where = "%d knots fitted into a table that held %d rows (%s)" % (ev["nk"], ev["prev"], h)
        if ev["rows"] != want or ev["cols"] != 5:
            return "SPLINE:table:%s" % h, "%s: the table has %d x %d afterwards, one row per piece would be %d x 5; cubic_spline_predict takes rows-1 as the number of pieces and the last row as the last piece" % (
                where, ev["rows"], ev["cols"], want)
        sp, rp, amp, rep, unit = _tols(ev["hd"], ev["xe"])
        order = [("lookup", ev["lookup"] > 0), ("interp", ev["interp"] > amp), ("smooth", ev["c1"] > amp or ev["c2"] > amp), ("natural", ev["nat"] > amp),
                 ("linear", ev["line"] == 1 and ev["lin"] > amp), ("unit", ev["unit2"] > amp or ev["unit"] > unit), ("query-order", ev["ord"] > TOLLEDGER),
                 ("lookup:ulp", ev["ulpw"] > 0), ("interp:ulp", ev["ulpv"] > rep)]
        k = next((n for n, bad in order if bad), "history")
        return "SPLINE:%s:%s" % (k, h), "%s, mesh %s (span %d decades), ordinates of magnitude 1e%d%s: %s" % (where, MESH[ev["sp"]], sp, ev["ym"], " with an offset 1e6 times larger" if ev["yo"] else "", {
            q: ev[q] for q in ("interp", "c1", "c2", "nat", "lin", "unit", "unit2", "ord", "lookup", "ulpw", "ulpv", "prev", "rows")})
    if e == "SInt":
        h = "fresh" if ev["prow"] == 0 else "same" if (ev["prow"], ev["pcol"]) == (ev["np"], 2) else "cols" if ev["pcol"] != 2 else "shrink" if ev["prow"] > ev["np"] else "grow"
        where = "interpolate() of %d knots at %d points into an output that was %d x %d (%s)" % (ev["nk"], ev["np"], ev["prow"], ev["pcol"], h)
        if ev["rows"] != ev["np"] or ev["cols"] != 2 or ev["mono"] != 1:
            return "SPLINE:interpolate:shape:%s" % h, "%s: result is %d x %d, increasing=%d" % (where, ev["rows"], ev["cols"], ev["mono"])
        k = next((n for n in ("val", "first", "ends", "lin") if ev[n] > TOLLEDGER), "history")
        return "SPLINE:interpolate:%s:%s" % (k, h), "%s: %s" % (where, ev)
    if e == "SArea":
        k = "exact" if ev["exact"] > TOLAREA else "additive" if ev["add"] > TOLAREA else "additive-between-vertices"
        return "AREA:%s" % k, "curve_area(xy, 0) on %d points: error %s, additivity defect at vertices %s, between vertices %s (1e-12 units)" % (ev["nk"], ev["exact"], ev["add"], ev["addb"])
    return "SPLINE:trace:%s" % e, "unexpected event %s" % ev


def _accept_reject(ctx, label, good, bad):
    """binding self-test on synthetic lines: the good ones must be accepted, the corrupted one rejected"""
    ok, n, r = tlc.validate_trace("TraceSpline", "Trace_Spline.cfg", good)
    if not ok:
        raise InfraError("binding self-test %s: reference line rejected at %d" % (label, n))
    ok, n, r = tlc.validate_trace("TraceSpline", "Trace_Spline.cfg", bad)
    if ok:
        raise InfraError("binding lost: corrupted %s line accepted by TraceSpline" % label)
    ctx.steps[label] = dict(rejected_at=n, ok=True)


def spline_sessions(ctx, exe, rd, nsess, every):
    out = os.path.join(rd, "sessions.ndjson")
    h = hrun.run(exe, [out, ctx.seed, nsess, every], timeout=1500)
    if h.rc != 0:
        if h.san:
            ctx.violation("SPLINE:sessions:%s" % h.san, "sanitizer report in the spline session run (refits into used tables / outputs):\n%s" % h.err[:1500],
                          dict(kind="spline_sessions", nsess=nsess))
        else:
            _died(ctx, h, "SPLINE:sessions", "c19_cls", dict(kind="spline_sessions", nsess=nsess, every=every), hrun.read_ndjson(out))
    events = hrun.read_ndjson(out)
    died = h.rc != 0
    main = [e for e in events if e["e"] in ("Reset", "SFit", "SInt", "SArea")]
    sent = [e for e in events if e["e"] == "Sent"]
    extra = [e for e in events if e["e"] in ("XArea", "Extrap")]
    if not main or not sent or not extra:
        _vac(ctx, died, "c19_cls: a stream is empty (main %d, sentinel %d, extra %d)" % (len(main), len(sent), len(extra)))
    need = set(["K7:S=%s" % k for k in ("fresh", "shrink", "grow", "same", "presized-larger", "presized-other-width")] +
               ["K7:interpolate-out=%s" % k for k in ("fresh", "shrink", "grow", "same", "cols")] +
               ["K4:mesh=%s" % m for m in MESH] + ["K4:ymag=1e%d" % k for k in (-6, -3, 0, 3, 6)] +
               ["K3:yoffset=1e6", "K3:xoffset=1e6", "K8:collinear", "K5:query=knot+-1ulp", "K7:result-vector=sized"] + ["K2:nk=%d" % k for k in (3, 4, 5, 39, 40)])
    if every:
        need |= set("K2:nk=%d" % k for k in range(3, 41))
    got = set()
    pre = 0
    for ev in main:
        if ev["e"] == "Reset":
            pre = ev["pre"]
        if ev["e"] == "SFit":
            hcls = _hist(ev["prev"], ev["nk"] - 1)
            tags = ["K7:S=%s" % hcls, "K4:mesh=%s" % MESH[ev["sp"]], "K4:ymag=1e%d" % ev["ym"], "K2:nk=%d" % ev["nk"], "K5:query=knot+-1ulp", "K7:result-vector=sized"]
            if ev["k"] == 0 and pre == 1:
                tags.append("K7:S=presized-larger")
            if ev["k"] == 0 and pre == 2:
                tags.append("K7:S=presized-other-width")
            if ev["yo"]:
                tags.append("K3:yoffset=1e6")
            if ev["xo"]:
                tags.append("K3:xoffset=1e6")
            if ev["line"]:
                tags.append("K8:collinear")
            if ev["sp"] <= 2:
                tags.append("K4:xscale=%s" % dec_name(ev["dec"]))
            for t in tags:
                ctx.cls(t)
                got.add(t)
            ctx.case(("sfit", ev["nk"], hcls, ev["sp"], ev["ym"], ev["yo"], ev["xo"], ev["line"]), True)
        elif ev["e"] == "SInt":
            hc = "fresh" if ev["prow"] == 0 else "same" if (ev["prow"], ev["pcol"]) == (ev["np"], 2) else "cols" if ev["pcol"] != 2 else "shrink" if ev["prow"] > ev["np"] else "grow"
            ctx.cls("K7:interpolate-out=%s" % hc)
            got.add("K7:interpolate-out=%s" % hc)
            ctx.case(("sint", ev["nk"], ev["np"], hc), True)
        elif ev["e"] == "SArea":
            ctx.case(("sarea", ev["nk"]), True)
    for ev in sent:
        ctx.cls("K9:value-passes-through-MISSING-code")
        ctx.case(("sent", ev["nk"], ev["piece"]), ev["found"] == 1)
    if not any(ev["found"] == 1 for ev in sent):
        _vac(ctx, died, "c19_cls: no query at the MISSING-code level was constructed")
    missing = sorted(need - got)
    if missing:
        _vac(ctx, died, "c19_cls: input classes not emitted: %s" % missing)
    if not died:
        ctx.sample(next(e for e in main if e["e"] == "SFit" and e["prev"] > e["nk"] - 1), 8)
        ctx.sample(next(e for e in main if e["e"] == "SFit" and e["sp"] == 3), 9)

    def on_reject(ev, idx, block):
        sig, what = _sig_session(ev, block)
        ctx.violation(sig, what, dict(kind="spline_sessions", nsess=nsess, every=every, session=block[0] if block else None, event=ev))

    # sessions are independent blocks: validate in chunks (a rejected session is dropped, the rest is still judged)
    blocks = tlc.split_blocks(main)
    per = 250
    chunks = [[e for b in blocks[i:i + per] for e in b] for i in range(0, len(blocks), per)]
    with ThreadPoolExecutor(3) as ex:
        list(ex.map(lambda t: trace.check_trace(ctx, "TraceSpline", "Trace_Spline.cfg", None, t[1], on_reject, drop="block", max_rounds=12,
                                                label="trace_spline_sessions_%d" % t[0], timeout=1500, xmx="6g"), list(enumerate(chunks))))
    ctx.traces(len(blocks))

    # queries at the level of the MISSING code: own stream, so that a rejection does not hide the session it belongs to
    def on_sent(ev, idx, block):
        ctx.violation("SPLINE:lookup:missing-code", ("%d knots with ordinates around 99999999 (none equal to it): at an abscissa inside piece %d of %d where the spline takes the "
                      "value 99999999 +- 1e-2, cubic_spline_predict returns the value of another polynomial (relative deviation %s e-12): the result of the piece search is "
                      "recognised by comparing y with the MISSING code") % (ev["nk"], ev["piece"], ev["last"] + 1, ev["err"]), dict(kind="spline_sessions", nsess=nsess, every=every, event=ev))
        return lambda e: e["e"] == "Sent"
    if sent:
        trace.check_trace(ctx, "TraceSpline", "Trace_Spline.cfg", None, sent, on_sent, drop="event", max_rounds=4, label="trace_spline_sentinel", timeout=900)

    # outside the statement: deviations are EXTRA-FINDINGs
    def on_extra(ev, idx, block):
        if ev["e"] == "Extrap":
            sig = "SPLINE:extrapolation:%s" % ("left" if ev["lok"] != 1 else "right" if ev["rok"] != 1 else "non-finite")
            what = ("cubic_spline_predict half a spacing %s of the knot range does not continue the end piece (left of the first knot the polynomial of the LAST piece is evaluated)" %
                    ("left" if ev["lok"] != 1 else "right"))
        else:
            sp, rp, amp, rep, unit = _tols(ev["hd"], ev["xe"])
            k = "one-point" if ev["one"] != 0 else "two-points" if ev["two"] > rep else "sampled" if ev["samp"] > TOLAREA else "descending"
            sig, what = "AREA:intervals:%s" % k, "curve_area(xy, np > 0) / descending abscissae on %d points: %s" % (ev["nk"], {q: ev[q] for q in ("np", "one", "two", "samp", "desc")})
        ctx.extra(sig, what)
        return lambda e: e["e"] == ev["e"] and (e["e"] != "Extrap" or (e["lok"], e["rok"], e["fin"]) == (ev["lok"], ev["rok"], ev["fin"]))
    if extra:
        trace.check_trace(_NoDrift(ctx), "TraceSpline", "Trace_Spline.cfg", None, extra, on_extra, drop="event", max_rounds=8, label="trace_spline_outside_statement", timeout=900)
    for ev in extra:
        ctx.case(("extra", ev["e"], ev["nk"]), False)
    if died:
        return          # (the recorded sessions were judged above; the binding self-tests and the statistics need a complete recording)

    # binding self-tests for the new event kinds (small traces; a corrupted field must be rejected)
    first = blocks[0]

    def corrupt_field(kind, field, delta):
        def c(evs):
            for e in evs:
                if e["e"] == kind:
                    e[field] = min(2000000000, e[field] + delta)
                    return True
            return False
        return c
    tests = [("binding_sfit_rows", "SFit", "rows", 1), ("binding_sfit_history", "SFit", "prev", 1), ("binding_sint_history", "SInt", "prow", 1), ("binding_sarea", "SArea", "addb", 2000000000)]
    if not ctx.quick:
        tests += [("binding_sfit_c2", "SFit", "c2", 2000000000), ("binding_session_reset", "Reset", "srow", 1), ("binding_sfit_ulp", "SFit", "ulpw", 1), ("binding_sint_shape", "SInt", "cols", 1)]
    g = dict(e="Sent", sid=0, k=0, nk=6, piece=2, last=4, found=1, err=1)
    x = dict(e="XArea", sid=0, k=0, nk=4, np=4, xe=1, hd=[0, 0, 0], one=0, two=1, samp=1, desc=1)
    xg = dict(e="Extrap", sid=0, k=0, nk=4, lok=1, rok=1, fin=1)
    with ThreadPoolExecutor(3) as ex:
        futs = [ex.submit(trace.binding_selftest, ctx, "TraceSpline", "Trace_Spline.cfg", first, corrupt_field(kind, field, delta), lab) for lab, kind, field, delta in tests]
        futs += [ex.submit(_accept_reject, ctx, "binding_sent", [g, x, xg], [g, x, dict(g, err=TOLVAL + 1)]),
                 ex.submit(_accept_reject, ctx, "binding_xarea", [x], [dict(x, samp=TOLAREA + 1)]),
                 ex.submit(_accept_reject, ctx, "binding_extrap", [xg], [dict(xg, lok=0)])]
        for fu in futs:
            fu.result()
    ctx.steps["sessions"] = dict(sessions=len(blocks), fits=sum(1 for e in main if e["e"] == "SFit"), interpolate_calls=sum(1 for e in main if e["e"] == "SInt"),
                                 sentinel_queries=len(sent), outside_statement_events=len(extra),
                                 worst_interp_1e12=max(e["interp"] for e in main if e["e"] == "SFit"), worst_c1_1e12=max(e["c1"] for e in main if e["e"] == "SFit"))
    ctx.note("sessions: %d sessions, %d fits into used / fresh tables, %d interpolate() calls into used outputs, %d MISSING-level queries" % (
        len(blocks), ctx.steps["sessions"]["fits"], ctx.steps["sessions"]["interpolate_calls"], len(sent)))


class _NoDrift:
    """ctx view for the outside-the-statement stream: nothing there may become a verdict or a drift line"""
    def __init__(self, ctx):
        self._c = ctx

    def __getattr__(self, k):
        if k == "spec_drift":
            return lambda what: None
        return getattr(self._c, k)


# ---------------------------------------------------------------- Nelder-Mead
SCNAME = {0: "generic", 2: "flat-start-exact-separable", 3: "flat-start-exact-nonseparable", 4: "flat-start-1e-12", 5: "start-at-minimiser", 6: "start-1e3-away",
          7: "step-decade", 9: "repeat-previous-minimisation"}
SCNAME_ALL = dict(SCNAME)
SCNAME_ALL[10] = "integer-family-of-NMTie.tla"
SCSIG = {0: "", 2: ":flat-start", 3: ":flat-start", 4: ":flat-start", 5: ":start-at-minimiser", 6: ":far-start", 7: ":step-decade", 9: ":repeat", 10: ":model-family"}


def _sig_nm(ev, block):
    e = ev.get("e")
    head = block[0] if block and block[0].get("e") == "Reset" else {}
    if e == "Return":
        if ev.get("evals", 0) > head.get("cap", 1 << 60):
            return "NM:diverge", "dimension %s, iteration limit %s: %s objective evaluations exceed the cap %s" % (head.get("n"), head.get("maxit"), ev.get("evals"), head.get("cap"))
        return "NM:worse", "dimension %s, iteration limit %s: reported value is worse than the best vertex of the initial simplex (or the evaluation count is inconsistent): %s" % (
            head.get("n"), head.get("maxit"), ev)
    if e == "Check":
        return "NM:value", "dimension %s: the objective at the returned point is not the value NelderMeadSimplex reported" % head.get("n")
    if e == "Quad" and ev.get("cls") == 1 and ev.get("dist", 0) <= 1000000:
        return "NM:minimiser:offset", ("strictly convex quadratic dim %s cond %s with a minimum value of large magnitude (resolution decade 1e%s): absolute distance to the true "
                                       "minimiser %s (1e-9 units) exceeds 30 sqrt(1e%s): the stop test is no longer the documented absolute one") % (ev.get("dim"), ev.get("cond"), ev.get("R"), ev.get("adist"), ev.get("R"))
    if e == "Quad":
        sc = ev.get("sc", 0)
        stall = ev.get("conv") == 0
        return "NM:minimiser%s%s" % (":stall" if stall else "", SCSIG.get(sc, "")), (
            "strictly convex quadratic dim %s cond %s, start class %s%s: distance to the true minimiser %s (1e-9 units, relative)%s" % (
                ev.get("dim"), ev.get("cond"), SCNAME_ALL.get(sc, sc), " (step decade 1e%s)" % head.get("sd") if sc == 7 else
                (" f = %s x^2 + 2*%s xy + %s y^2, start %s, steps %s" % (tuple(head.get("q", "???")) + (head.get("x0"), head.get("s"))) if sc == 10 else ""), ev.get("dist"),
                "; the iteration limit %s was exhausted without progress" % head.get("maxit") if stall else "; it stopped after %s evaluations" % next(
                    (b.get("evals") for b in block if b.get("e") == "Return"), "?")))
    if e == "Reset" or e == "Eval":
        raise InfraError("c19_nm: a run announced as flat start is not flat, or the Reset line is malformed: %s" % (head or ev))
    return "NM:trace:%s" % e, "event does not fit the contract: %s" % ev


def nm_check(ctx, rd, nfull, nlight):
    lib = build.build_lib("san")
    exe = build.build_harness("c19n", ["c19_nm.c"], lib)
    out = os.path.join(rd, "nm.ndjson")
    h = hrun.run(exe, [out, ctx.seed, nfull, nlight], timeout=1500)
    if h.rc != 0:
        if h.san:
            ctx.violation("NM:%s" % h.san, "sanitizer report in NelderMeadSimplex:\n%s" % h.err[:1500], dict(kind="nm", nfull=nfull, nlight=nlight))
        else:
            ev_ = hrun.read_ndjson(out)
            run_ = next((e for e in reversed(ev_) if e.get("e") == "Reset"), None)
            _died(ctx, h, "NM", "c19_nm", dict(kind="nm", nfull=nfull, nlight=nlight, run=run_), ([run_] if run_ else []))
    events = hrun.read_ndjson(out)
    died = h.rc != 0
    blocks = tlc.split_blocks(events)
    if died and blocks and blocks[-1][-1].get("e") != "Quad":
        blocks = blocks[:-1]              # the minimisation that was running when the process ended
        events = [e for b in blocks for e in b]
    if not blocks or not any(e["e"] == "Eval" for e in events):
        _vac(ctx, died, "c19_nm: no objective evaluations recorded")
        return
    got, judged = set(), {}
    for b in blocks:
        r0, q = b[0], b[-1]
        ctx.case(("nm", r0["n"], r0["maxit"], r0["full"], r0["sc"], r0["id"]), True)
        tags = ["K1:dim=%d%s" % (r0["n"], ":callback-trace" if r0["full"] else ""), "K8:start=%s" % SCNAME[r0["sc"]], "K7:many-minimisations-in-one-process"]
        if r0["sc"] == 7:
            tags.append("K4:step=1e%d" % r0["sd"])
        if r0["c100"]:
            tags.append("K5:cond=100-exactly")
        if not r0["st"]:
            tags.append("K8:step=NULL(default)")
        if r0["id"] % 3 == 1:
            tags.append("K7:result-vector=sized")
        if q.get("e") == "Quad" and q.get("cls") == 1:
            tags.append("K3:fmin-offset")
        for t in tags:
            ctx.cls(t)
            got.add(t)
        if q.get("e") == "Quad" and q.get("judge") == 1:
            judged[r0["sc"]] = judged.get(r0["sc"], 0) + 1
    need = set(["K1:dim=%d" % d for d in range(2, 7)] + ["K1:dim=%d:callback-trace" % d for d in range(2, 7)] + ["K8:start=%s" % v for v in SCNAME.values()] +
               ["K4:step=1e%d" % k for k in ((-3, -2, -1) if ctx.quick else (-3, -2, -1, 1, 2, 3))] + ["K5:cond=100-exactly", "K8:step=NULL(default)", "K7:result-vector=sized"])
    if nlight >= 72 and (need - got or any(judged.get(sc, 0) == 0 for sc in SCNAME)):
        _vac(ctx, died, "c19_nm: start classes not emitted / not judged: %s %s" % (sorted(need - got), {SCNAME[s]: judged.get(s, 0) for s in SCNAME}))
    full = [e for b in blocks if b[0]["full"] for e in b]
    light = [e for b in blocks if not b[0]["full"] for e in b]
    ctx.sample(dict(run=blocks[0][0], first_events=blocks[0][1:6], last_events=blocks[0][-3:]), 6)

    def on_reject(ev, idx, block):
        sig, what = _sig_nm(ev, block)
        ctx.violation(sig, what, dict(kind="nm", nfull=nfull, nlight=nlight, run=block[0] if block else None, event=ev))

    # Impl layer: the move automaton; on rejection the flat property spec decides between violation and drift
    if not full:
        ok = True           # (only after an early end of the harness: no callback trace was completed)
    else:
        ok, n, r = tlc.validate_trace("TraceNM", "Trace_NM.cfg", full, timeout=1500, xmx="6g")
        ctx.add_tlc(r, "trace_nm_automaton")
    if not full:
        pass
    elif ok:
        if r.distinct != len(full) + 1:
            ctx.note("automaton accepted with %d states for %d events (move inference not unique)" % (r.distinct, len(full)))
    else:
        rej = trace.check_trace(ctx, "TraceNMProp", "Trace_NMProp.cfg", None, full, on_reject, drop="block", max_rounds=8, label="trace_nm_prop_full")
        if rej == 0:
            bad = full[n] if n < len(full) else None
            ctx.spec_drift("Nelder-Mead: the Gao-Han move automaton (TraceNM.tla) no longer matches the objective-callback trace at event %d %s; "
                           "the result contract (TraceNMProp.tla) accepts every run" % (n, bad))
    if light:
        trace.check_trace(ctx, "TraceNMProp", "Trace_NMProp.cfg", None, light, on_reject, drop="block", max_rounds=8, label="trace_nm_prop_light")
    ctx.traces(len(blocks))
    if died:
        return          # (the completed minimisations were judged above; binding self-tests and statistics need a complete recording)
    # binding self-tests for the new fields: a flat class whose announced spread is not flat, a judged distance beyond the bound
    flatb = next((b for b in blocks if b[0]["sc"] == 2 and not b[0]["full"]), None)
    if flatb:
        def corrupt_fs(ev):
            ev[0]["fs"] = 5
            return True
        trace.binding_selftest(ctx, "TraceNMProp", "Trace_NMProp.cfg", flatb, corrupt_fs, "binding_nm_flat_spread")
    flatf = next((b for b in blocks if b[0]["sc"] in (2, 3) and b[0]["full"]), None)
    if flatf:
        def corrupt_eval(ev):
            ev[2]["v"][2] = (ev[2]["v"][2] + 1) % 4000000
            return True
        trace.binding_selftest(ctx, "TraceNM", "Trace_NM.cfg", flatf, corrupt_eval, "binding_nm_flat_eval")
    if not ctx.quick:
        def corrupt_nm(ev):
            for e in ev:
                if e["e"] == "Check":
                    e["v"][2] = (e["v"][2] + 1) % 4000000
                    return True
            return False
        trace.binding_selftest(ctx, "TraceNMProp", "Trace_NMProp.cfg", [e for b in blocks[:3] for e in b], corrupt_nm, "binding_nm")
    q = [e for e in events if e["e"] == "Quad" and e["judge"]]
    qo = [e for e in q if e.get("cls") == 1]
    bound = {-12: 30000, -11: 94868, -10: 300000, -9: 948683, -8: 3000000, -7: 9486833}
    ctx.steps["nm"] = dict(full_runs=nfull, light_runs=nlight, judged=len(q), converged=sum(e["conv"] for e in q),
                           judged_by_start_class={SCNAME[s]: judged.get(s, 0) for s in SCNAME},
                           worst_dist_1e9=max([e["dist"] for e in q] or [0]), automaton_accepted=bool(ok),
                           offset_class_runs=len(qo), offset_class_worst_over_bound=round(max([e["adist"] / bound.get(e["R"], 30000000) for e in qo if e["conv"]] or [0]), 4))
    if not qo and nlight >= 12:
        raise InfraError("c19_nm: no run of the offset class was judged")
    ctx.note("Nelder-Mead: %d callback traces through the move automaton (%s), %d summary runs; worst distance to the minimiser %.2e (bound 1e-3)" % (
        nfull, "accepted" if ok else "REJECTED", nlight, ctx.steps["nm"]["worst_dist_1e9"] * 1e-9))


def nm_family(ctx, rd):
    """NMTie.tla: exact 2-D model of the routine on integer quadratics; both acceptance rules model-checked; every start of the family
    replayed through the real routine and judged by the ordinary contract (TraceNMProp.tla)"""
    rs = tlc.run("NMTieBox", "MC_NMTie_strict.cfg", workers=2, timeout=900)
    ctx.add_tlc(rs, "mc_nmtie_strict")
    if rs.violation != "NoStall":
        raise InfraError("NMTie.tla with Rule = strict: expected NoStall to be refuted, got %s" % rs.violation)
    ctx.steps["nm_tie_counterexample"] = rs.trace_text[:900]
    rf = tlc.run("NMTieBox", "MC_NMTie_falsestop.cfg", workers=2, timeout=900)
    ctx.add_tlc(rf, "mc_nmtie_falsestop")
    if rf.violation != "NoFalseStop":
        raise InfraError("NMTie.tla with StopRule = values: expected NoFalseStop to be refuted, got %s" % rf.violation)
    ctx.steps["nm_false_stop_counterexample"] = rf.trace_text[:900]
    rt = tlc.run("NMTieBox", "MC_NMTie_textbook.cfg" if ctx.quick else "MC_NMTie_textbook_deep.cfg", workers=2, timeout=1500)
    ctx.add_tlc(rt, "mc_nmtie_textbook")
    if not rt.ok:
        raise InfraError("NMTie.tla with Rule = textbook, StopRule = values+size: %s fails in the model itself:\n%s" % (rt.violation, rt.trace_text[:1500]))
    if rt.zero_actions():
        raise InfraError("NMTie.tla: actions never taken: %s" % rt.zero_actions())
    rg = tlc.run("NMTieBox", "MC_NMTie_gen.cfg" if ctx.quick else "MC_NMTie_gen_wide.cfg", workers=1, timeout=600, coverage=False)
    ctx.add_tlc(rg, "gen_nmtie")
    if not rg.emits:
        raise InfraError("NMTie.tla emitted no start")
    ctx.note("model NMTie: acceptance rule f1 < fr refuted by NoStall, stop test on values alone refuted by NoFalseStop, f1 <= fr with values+size holds on %d states; %d starts emitted (%d flat)" % (
        rt.distinct, len(rg.emits), sum(e["flat"] for e in rg.emits)))
    cf, out = os.path.join(rd, "family.txt"), os.path.join(rd, "family.ndjson")
    open(cf, "w").write("".join("%d %d %d %d %d %d %d %d\n" % (e["a"], e["b"], e["c"], e["x0"], e["y0"], e["s1"], e["s2"], e["flat"]) for e in rg.emits))
    lib = build.build_lib("san")
    exe = build.build_harness("c19n", ["c19_nm.c"], lib)
    h = hrun.run(exe, ["family", cf, out], timeout=1500)
    if h.rc != 0:
        if h.san:
            ctx.violation("NM:%s" % h.san, "sanitizer report in NelderMeadSimplex (integer family):\n%s" % h.err[:1500], dict(kind="nm"))
        else:
            ev_ = hrun.read_ndjson(out)
            run_ = next((e for e in reversed(ev_) if e.get("e") == "Reset"), None)
            _died(ctx, h, "NM", "c19_nm family", dict(kind="nm", run=run_), ([run_] if run_ else []))
    events = hrun.read_ndjson(out)
    died = h.rc != 0
    blocks = tlc.split_blocks(events)
    if died and blocks and blocks[-1][-1].get("e") != "Quad":
        blocks = blocks[:-1]
    if len(blocks) != len(rg.emits):
        _vac(ctx, died, "c19_nm family: %d runs for %d starts" % (len(blocks), len(rg.emits)))
        if not blocks:
            return
    for b in blocks:
        ctx.case(("nm-family", tuple(b[0]["q"]), tuple(b[0]["x0"]), tuple(b[0]["s"])), True)
        ctx.cls("K8:start=integer-family(TLC-enumerated)")
        if b[0]["mflat"]:
            ctx.cls("K8:start=flat-start-exact(model)")

    def on_reject(ev, idx, block):
        sig, what = _sig_nm(ev, block)
        ctx.violation(sig, what, dict(kind="nm", run=block[0] if block else None, event=ev))
    # two traces, grouped by how the run ENDED (on its tolerance / on the iteration limit): a tree with both defects shows both signatures
    for lab, grp in (("stopped", [e for b in blocks if b[-1]["conv"] == 1 for e in b]), ("exhausted", [e for b in blocks if b[-1]["conv"] == 0 for e in b])):
        if grp:
            trace.check_trace(ctx, "TraceNMProp", "Trace_NMProp.cfg", None, grp, on_reject, drop="block", max_rounds=2, label="trace_nm_prop_family_%s" % lab, timeout=1500, xmx="6g")
    ctx.traces(len(blocks))
    if died:
        return
    stalls = [b for b in blocks if b[-1]["conv"] == 0]
    ctx.steps["nm_family"] = dict(starts=len(blocks), flat=sum(b[0]["mflat"] for b in blocks), exhausted_iteration_limit=len(stalls),
                                  worst_dist_1e9=max(b[-1]["dist"] for b in blocks))
    fb = blocks[0]

    def corrupt_mflat(ev):
        ev[0]["mflat"] = 1 - ev[0]["mflat"]
        return True
    trace.binding_selftest(ctx, "TraceNMProp", "Trace_NMProp.cfg", fb, corrupt_mflat, "binding_nm_family_flat")


def run(ctx, parts=("spline", "ledger", "sessions", "nm")):
    ctx.assumptions += [
        "TLC computes the exact natural spline / polyline area only for 3..5 integer knots in a small box; those knot sets are replayed at nine scale decades",
        "the piece used by cubic_spline_predict is identified from the public S table: a piece counts as used when its polynomial reproduces the returned value within 1e-9 relative",
        "ledger residuals (interpolation, C1/C2 jumps, end curvature, linear reproduction, unit independence, trapezoid sums) are computed by the harness in double / long double and compared by TLC with 1e-8 (spline) and 1e-9 (area, replayed values)",
        "session residuals: the same, with tolerances that TLC computes from the logged spacing decades of the knot set (TolAmp, TolRep, TolUnit of TraceSpline.tla); spacings are logged as floor(log10 h)",
        "Nelder-Mead: doubles are logged as order-preserving 3-limb integer codes; the stop test is unobservable, Return is accepted after any completed iteration; distance bound 1e-3 relative (survey worst 2.3e-5)",
        "ASan/UBSan build",
    ]
    lib = build.build_lib("san")
    exe = build.build_harness("c19s", ["c19_spline.c"], lib)
    exc = build.build_harness("c19c", ["c19_cls.c"], lib)
    rd = tlc.rundir()
    lctx = _Locked(ctx)
    ctx._deferred = Deferred(lctx)

    def part_spline():
        recs = spline_model(lctx)
        spline_replay(lctx, recs, exe, rd)

    def part_ledger():
        spline_ledger(lctx, exe, rd, 300 if ctx.quick else 20000)

    def part_sessions():
        hist_model(lctx)
        spline_sessions(lctx, exc, rd, 64 if ctx.quick else 3040, 0 if ctx.quick else 1)

    def part_nm():
        if ctx.quick:
            nm_check(lctx, rd, 60, 180)
        else:
            nm_check(lctx, rd, 120, 6000)
        nm_family(lctx, rd)
    jobs = [f for name, f in (("spline", part_spline), ("ledger", part_ledger), ("sessions", part_sessions), ("nm", part_nm)) if name in parts]
    try:
        with ThreadPoolExecutor(len(jobs)) as ex:
            futs = [ex.submit(f) for f in jobs]
            errs = []
            for fu in futs:
                try:
                    fu.result()
                except Exception as e:       # noqa: BLE001 - re-raised below, infrastructure errors first
                    errs.append(e)
        for e in errs:
            if isinstance(e, (InfraError, tlc.TlcInfraError, build.BuildError)):
                raise e
        if errs:
            raise errs[0]
        ctx._deferred.settle()
        ctx.cov["rule"] = ("replay: every integer knot set TLC enumerated (3..5 knots) x 9 scale decades, keyed (knot count, decade, knot set), non-trivial = decade # 1e0 or "
                           "irregular gaps; ledger: seeded random knot sets keyed (knot count 3..40, spacing decade, uniform/irregular class); sessions: class-scheduled fits keyed "
                           "(knot count, history class of the table, mesh class, ordinate magnitude, ordinate offset, abscissa offset, collinear), interpolate() calls keyed (knot count, "
                           "points, history class of the output); Nelder-Mead: seeded strictly convex quadratics keyed (dimension, iteration limit, callback-trace?, start class, run id)")
    finally:
        shutil.rmtree(rd, ignore_errors=True)


def replay(ctx, body):
    kind = (body.get("case") or {}).get("kind", "")
    ctx.seed = body.get("seed", ctx.seed)
    ctx.tier, ctx.quick = body.get("tier", ctx.tier), body.get("tier", ctx.tier) == "quick"
    if kind == "nm":
        run(ctx, parts=("nm",))
    elif kind == "spline_ledger":
        run(ctx, parts=("ledger",))
    elif kind == "spline_replay":
        run(ctx, parts=("spline",))
    elif kind == "spline_sessions":
        run(ctx, parts=("sessions",))
    else:
        run(ctx)
