"""C19 - spline, trapezoid area and simplex minimiser meet their numerical contracts.

(M)  Spline.tla: exact natural cubic spline by rational tridiagonal solve for 3..5 integer knots (Interpolates, Smooth, Natural, straight
     lines reproduced, trapezoid area exact and additive - theorems on every knot set); the piece lookup of cubic_spline_predict with
     LookupTol in {"abs1e-2", "exact"}: with the tree's absolute tolerance TLC shows a chosen piece outside PieceOf(x) at scales <= 1e-2.
(R)  c19_spline replay: every TLC-emitted knot set evaluated at scales 1e-4..1e4; predictions at knots/midpoints against TLC's rational
     value (rel 1e-9), the piece actually used identified from the public S table; curve_area against TLC's exact area.
(V)  c19_spline ledger: 3..40 knots, uniform / irregular spacings 1e-4..1e4: interpolation, C1/C2, natural ends, linear reproduction,
     the one-call form interpolate() (shape, increasing abscissae over the knot range, value = two-call form, first point, lines),
     unit independence, trapezoid exactness/additivity, validated by TLC against TraceSpline.tla.
     c19_nm: objective-callback traces of NelderMeadSimplex on strictly convex quadratics (2..6 dims, cond <= 100): TraceNM.tla infers the
     unlogged move of every evaluation (Gao-Han automaton = Impl layer); TraceNMProp.tla (flat) holds the result contract.
"""
import os, shutil
from concurrent.futures import ThreadPoolExecutor
from vf import build, tlc, trace
from vf import run as hrun
from vf.core import InfraError

LEVEL = "exploration"
READY = True
TECHNIQUE = ("TLC as exact rational oracle for tiny natural cubic splines and polyline areas (Spline.tla, theorems + exhaustive lookup model) replayed "
             "into cubic_spline_interpolation/cubic_spline_predict/curve_area at nine scales; TLC trace validation of sampled ledgers (3..40 knots) "
             "and of Nelder-Mead objective-callback traces against a move-inferring automaton (TraceNM.tla) and a flat contract spec (TraceNMProp.tla)")
LEVEL_TEXT = ("Sampled inputs inside the property's quantifier (knot counts 3..40, spacing decades 1e-4..1e4, quadratics 2..6 dims cond <= 100), each "
              "recorded execution accepted or rejected by TLC; the lookup / exact-spline / area core is exhaustive over all integer knot sets of the "
              "stated small scope and replayed at every scale decade.")
LEVEL_NOTE = ("Trusts TLC, the harness's double-precision residual evaluation and quantisation, the identification of the piece used through the public "
              "S table (tolerance 1e-9), the 3-limb order-preserving encoding of doubles; ledger inputs are sampled, not exhaustive.")

PAR = int(os.environ.get("VERIF_PAR", "12"))


def dec_name(e):
    return "1e%d" % e


# ---------------------------------------------------------------- spline: model + replay
def spline_model(ctx):
    if ctx.quick:
        cfgs = [("MC_Spline_quick_3.cfg", 4), ("MC_Spline_quick_4.cfg", 4), ("MC_Spline_quick_5.cfg", 4)]
    else:
        cfgs = [("MC_Spline_thorough_3.cfg", 2), ("MC_Spline_thorough_4.cfg", 6), ("MC_Spline_thorough_5.cfg", 8)]
    with ThreadPoolExecutor(3) as ex:
        rs = list(ex.map(lambda c: tlc.run("Spline", c[0], workers=c[1], timeout=1700, coverage=False, xmx="4g"), cfgs))
    recs, seen = [], set()
    for (c, _), r in zip(cfgs, rs):
        ctx.add_tlc(r, "mc_" + c[3:-4].lower())
        if not r.ok:
            raise InfraError("Spline.tla (%s): %s fails in the model itself (exact lookup):\n%s" % (c, r.violation, r.trace_text[:1200]))
        for e in r.emits:
            k = (tuple(e["xs"]), tuple(e["ys"]))
            if k not in seen:
                seen.add(k)
                recs.append(e)
    if not recs:
        raise InfraError("Spline.tla emitted no knot set")
    ctx.note("model: Interpolates/Smooth/Natural/Linear/Area theorems and LookupRight(exact) hold on %d integer knot sets" % len(recs))
    r = tlc.run("Spline", "MC_Spline_abs.cfg", workers=2, timeout=600, coverage=False)
    ctx.add_tlc(r, "mc_spline_abs1e-2")
    if r.violation != "LookupRight":
        raise InfraError("Spline.tla with LookupTol = abs1e-2: expected LookupRight to be refuted, got %s" % r.violation)
    ctx.note("model: with the absolute 1e-2 tolerance LookupRight is refuted (chosen piece outside PieceOf(x))")
    ctx.steps["lookup_counterexample"] = r.trace_text[:400]
    return recs


def _sig_spline(ev):
    e = ev.get("e")
    if e == "Piece":
        return "SPLINE:lookup:%s" % dec_name(ev["E"]), "knots %s apart: value returned at t=%s/2 is reproduced by piece(s) %s of the S table, none of which contains the point" % (
            dec_name(ev["E"]), ev["t2"], ev["chosen"])
    if e == "Val":
        return "SPLINE:interp:%s" % dec_name(ev["E"]), "value at t=%s/2 differs from the exact spline value by %s (1e-12 units, relative)" % (ev["t2"], ev["err"])
    if e == "Area":
        k = "exact" if ev["err"] > 1000 else "additive"
        return "AREA:%s:%s" % (k, dec_name(ev["E"])), "curve_area: error %s, additivity defect %s (1e-12 units)" % (ev["err"], ev["add"])
    if e == "AreaL":
        k = "exact" if ev["exact"] > 1000 else "additive"
        return "AREA:%s:%s" % (k, dec_name(ev["dec"])), "curve_area on %d knots: error %s, additivity defect %s (1e-12 units)" % (ev["nk"], ev["exact"], ev["add"])
    if e == "Ledger":
        T = 10000
        order = [("lookup", ev["lookup"] > 0), ("interp", ev["interp"] > T), ("smooth", ev["c1"] > T or ev["c2"] > T), ("natural", ev["nat"] > T),
                 ("linear", ev["lin"] > T), ("unit", ev["unit"] > T), ("query-order", ev.get("ord", 0) > T)]
        k = next((n for n, bad in order if bad), "ledger")
        return "SPLINE:%s:%s" % (k, dec_name(ev["dec"])), "%d knots, spacing decade %s, irregular=%s: %s" % (ev["nk"], dec_name(ev["dec"]), ev["irr"], ev)
    if e == "Interp":
        T = 10000
        order = [("shape", ev["dims"] != 1 or ev["mono"] != 1), ("value", ev["val"] > T), ("first-point", ev["first"] > T), ("range", ev["ends"] > T), ("linear", ev["lin"] > T)]
        k = next((n for n, bad in order if bad), "ledger")
        return "SPLINE:interpolate:%s:%s" % (k, dec_name(ev["dec"])), "interpolate() on %d knots, %d points, spacing decade %s: %s" % (ev["nk"], ev["np"], dec_name(ev["dec"]), ev)
    if e == "Knots":
        return "SPLINE:table:%s" % dec_name(ev["E"]), "coefficient table has %s rows for %s knots" % (ev.get("rows"), ev.get("nk"))
    return "SPLINE:trace:%s" % e, "unexpected event %s" % ev


def _validate_spline(ctx, events, label, replay_info):
    def on_reject(ev, idx, block):
        sig, what = _sig_spline(ev)
        ctx.violation(sig, what, dict(kind=replay_info, event=ev))
        return lambda e: _sig_spline(e)[0] == sig
    return trace.check_trace(ctx, "TraceSpline", "Trace_Spline.cfg", None, events, on_reject, drop="event", max_rounds=10, label=label, timeout=1500, xmx="6g")


def spline_replay(ctx, recs, exe, rd):
    lines = []
    for i, e in enumerate(recs):
        t = [i, e["nk"]] + e["xs"] + e["ys"] + [len(e["pts"])]
        for p in e["pts"]:
            t += [p["t2"], p["v"][0], p["v"][1]]
        t += [e["area"][0], e["area"][1], e["line"]]
        lines.append(" ".join(str(v) for v in t))
    nproc = max(1, min(PAR, len(lines) // 100 + 1))
    jobs = []
    for k in range(nproc):
        cf = os.path.join(rd, "knots%d.txt" % k)
        open(cf, "w").write("\n".join(lines[k::nproc]) + "\n")
        jobs.append(["replay", cf, os.path.join(rd, "rp%d.ndjson" % k)])
    res = hrun.run_many(exe, jobs, timeout=1500, workers=PAR)
    events = []
    for j, h in zip(jobs, res):
        if h.rc != 0:
            if h.san:
                ctx.violation("SPLINE:replay:%s" % h.san, "sanitizer report while replaying knot sets:\n%s" % h.err[:1500], dict(kind="spline_replay"))
            else:
                raise InfraError("c19_spline replay failed rc=%s: %s" % (h.rc, h.err[-800:]))
        events += hrun.read_ndjson(j[2])
    if not events:
        raise InfraError("c19_spline replay produced no events")
    # group by scale decade: one TLC validation per decade (a rejected decade is re-validated alone)
    bydec, cur = {}, None
    wrong_dec = set()
    for ev in events:
        if ev["e"] == "Knots":
            cur = ev["E"]
            gaps = [b - a for a, b in zip(ev["xs"], ev["xs"][1:])]
            ctx.case(("replay", ev["nk"], ev["E"], tuple(ev["xs"])), ev["E"] != 0 or len(set(gaps)) > 1)
        bydec.setdefault(cur, []).append(ev)
    for ev in events:
        if ev["e"] == "Knots" and ev["E"] == -3 and len(set(b - a for a, b in zip(ev["xs"], ev["xs"][1:]))) > 1:
            ctx.sample(ev, 2)
    decs = sorted(bydec)
    with ThreadPoolExecutor(3) as ex:
        rej = list(ex.map(lambda d: _validate_spline(ctx, bydec[d], "trace_spline_replay_%s" % dec_name(d), "spline_replay"), decs))
    wrong_dec = set(d for d, n in zip(decs, rej) if n)
    ctx.traces(sum(1 for ev in events if ev["e"] == "Knots"))
    ctx.steps["replay"] = dict(knot_sets=len(recs), scales=9, events=len(events), rejected_decades=sorted(wrong_dec))
    if wrong_dec:
        ctx.note("variant implemented by the code: absolute lookup tolerance (wrong pieces at decades %s) - the model refutes LookupRight for that variant" % sorted(wrong_dec))


def spline_ledger(ctx, exe, rd, count):
    out = os.path.join(rd, "ledger.ndjson")
    h = hrun.run(exe, ["ledger", out, ctx.seed, count], timeout=1500)
    if h.rc != 0:
        if h.san:
            ctx.violation("SPLINE:ledger:%s" % h.san, "sanitizer report in the spline ledger run:\n%s" % h.err[:1500], dict(kind="spline_ledger", count=count))
        else:
            raise InfraError("c19_spline ledger failed rc=%s: %s" % (h.rc, h.err[-800:]))
    events = hrun.read_ndjson(out)
    if not events:
        raise InfraError("c19_spline ledger produced no events")
    for ev in events:
        if ev["e"] == "Ledger":
            ctx.case(("ledger", ev["nk"], ev["dec"], ev["irr"]), True)
        if ev["e"] == "Interp":
            ctx.case(("interpolate", ev["nk"], ev["dec"], ev["np"]), ev["np"] > 2)
    if not any(ev["e"] == "Interp" for ev in events):
        raise InfraError("c19_spline ledger recorded no interpolate() call")
    ctx.sample(events[0], 5)
    ctx.sample(events[len(events) // 2], 6)
    _validate_spline(ctx, events, "trace_spline_ledger", "spline_ledger")
    ctx.traces(sum(1 for ev in events if ev["e"] == "Ledger"))
    if not ctx.quick:
        # binding self-test: one logged residual multiplied by 1e6 must turn acceptance into rejection
        def corrupt(ev):
            for e in ev:
                if e["e"] == "Ledger":
                    e["c2"] = min(2000000000, (e["c2"] + 1) * 1000000)
                    return True
            return False
        trace.binding_selftest(ctx, "TraceSpline", "Trace_Spline.cfg", events[:100], corrupt, "binding_ledger")


# ---------------------------------------------------------------- Nelder-Mead
def _sig_nm(ev, block):
    e = ev.get("e")
    head = block[0] if block and block[0].get("e") == "Reset" else {}
    if e == "Return":
        if ev.get("evals", 0) > head.get("cap", 1 << 60):
            return "NM:diverge", "dimension %s, iteration limit %s: %s objective evaluations exceed the cap %s" % (head.get("n"), head.get("maxit"), ev.get("evals"), head.get("cap"))
        return "NM:worse", "dimension %s, iteration limit %s: reported value is worse than the best vertex of the initial simplex (or the evaluation count is inconsistent): %s" % (
            head.get("n"), head.get("maxit"), ev)
    if e == "Check":
        return "NM:value", "dimension %s: the objective at the returned point is not the value NelderMeadSimplex reported" % head.get("n")
    if e == "Quad" and ev.get("cls") == 1 and ev.get("dist", 0) <= 1000000:
        return "NM:minimiser:offset", ("strictly convex quadratic dim %s cond %s with a minimum value of large magnitude (resolution decade 1e%s): absolute distance to the true "
                                       "minimiser %s (1e-9 units) exceeds 30 sqrt(1e%s): the stop test is no longer the documented absolute one") % (ev.get("dim"), ev.get("cond"), ev.get("R"), ev.get("adist"), ev.get("R"))
    if e == "Quad":
        return "NM:minimiser", "strictly convex quadratic dim %s cond %s: distance to the true minimiser %s (1e-9 units, relative)" % (ev.get("dim"), ev.get("cond"), ev.get("dist"))
    return "NM:trace:%s" % e, "event does not fit the contract: %s" % ev


def nm_check(ctx, rd, nfull, nlight):
    lib = build.build_lib("san")
    exe = build.build_harness("c19n", ["c19_nm.c"], lib)
    out = os.path.join(rd, "nm.ndjson")
    h = hrun.run(exe, [out, ctx.seed, nfull, nlight], timeout=1500)
    if h.rc != 0:
        if h.san:
            ctx.violation("NM:%s" % h.san, "sanitizer report in NelderMeadSimplex:\n%s" % h.err[:1500], dict(kind="nm", nfull=nfull, nlight=nlight))
        else:
            raise InfraError("c19_nm failed rc=%s: %s" % (h.rc, h.err[-800:]))
    events = hrun.read_ndjson(out)
    blocks = tlc.split_blocks(events)
    if not blocks or not any(e["e"] == "Eval" for e in events):
        raise InfraError("c19_nm: no objective evaluations recorded")
    for b in blocks:
        ctx.case(("nm", b[0]["n"], b[0]["maxit"], b[0]["full"], b[0]["id"]), True)
    full = [e for b in blocks if b[0]["full"] for e in b]
    light = [e for b in blocks if not b[0]["full"] for e in b]
    ctx.sample(dict(run=blocks[0][0], first_events=blocks[0][1:6], last_events=blocks[0][-3:]), 6)

    def on_reject(ev, idx, block):
        sig, what = _sig_nm(ev, block)
        ctx.violation(sig, what, dict(kind="nm", nfull=nfull, nlight=nlight, run=block[0] if block else None, event=ev))

    # Impl layer: the move automaton; on rejection the flat property spec decides between violation and drift
    ok, n, r = tlc.validate_trace("TraceNM", "Trace_NM.cfg", full, timeout=1500, xmx="6g")
    ctx.add_tlc(r, "trace_nm_automaton")
    if ok:
        if r.distinct != len(full) + 1:
            ctx.note("automaton accepted with %d states for %d events (move inference not unique)" % (r.distinct, len(full)))
    else:
        rej = trace.check_trace(ctx, "TraceNMProp", "Trace_NMProp.cfg", None, full, on_reject, drop="block", max_rounds=8, label="trace_nm_prop_full")
        if rej == 0:
            bad = full[n] if n < len(full) else None
            ctx.spec_drift("Nelder-Mead: the Gao-Han move automaton (TraceNM.tla) no longer matches the objective-callback trace at event %d %s; "
                           "the result contract (TraceNMProp.tla) accepts every run" % (n, bad))
    trace.check_trace(ctx, "TraceNMProp", "Trace_NMProp.cfg", None, light, on_reject, drop="block", max_rounds=8, label="trace_nm_prop_light")
    ctx.traces(len(blocks))
    if not ctx.quick:
        def corrupt_nm(ev):
            for e in ev:
                if e["e"] == "Check":
                    e["v"][2] = (e["v"][2] + 1) % 4000000
                    return True
            return False
        trace.binding_selftest(ctx, "TraceNMProp", "Trace_NMProp.cfg", [e for b in blocks[:3] for e in b], corrupt_nm, "binding_nm")
    q = [e for e in events if e["e"] == "Quad" and e["judge"]]
    qo = [e for e in q if e.get("cls") == 1]
    bound = {-12: 30000, -11: 94868, -10: 300000, -9: 948683, -8: 3000000, -7: 9486833}
    ctx.steps["nm"] = dict(full_runs=nfull, light_runs=nlight, judged=len(q), converged=sum(e["conv"] for e in q),
                           worst_dist_1e9=max([e["dist"] for e in q] or [0]), automaton_accepted=bool(ok),
                           offset_class_runs=len(qo), offset_class_worst_over_bound=round(max([e["adist"] / bound.get(e["R"], 30000000) for e in qo if e["conv"]] or [0]), 4))
    if not qo and nlight >= 12:
        raise InfraError("c19_nm: no run of the offset class was judged")
    ctx.note("Nelder-Mead: %d callback traces through the move automaton (%s), %d summary runs; worst distance to the minimiser %.2e (bound 1e-3)" % (
        nfull, "accepted" if ok else "REJECTED", nlight, ctx.steps["nm"]["worst_dist_1e9"] * 1e-9))


def run(ctx, parts=("spline", "ledger", "nm")):
    ctx.assumptions += [
        "TLC computes the exact natural spline / polyline area only for 3..5 integer knots in a small box; those knot sets are replayed at nine scale decades",
        "the piece used by cubic_spline_predict is identified from the public S table: a piece counts as used when its polynomial reproduces the returned value within 1e-9 relative",
        "ledger residuals (interpolation, C1/C2 jumps, end curvature, linear reproduction, unit independence, trapezoid sums) are computed by the harness in double / long double and compared by TLC with 1e-8 (spline) and 1e-9 (area, replayed values)",
        "Nelder-Mead: doubles are logged as order-preserving 3-limb integer codes; the stop test is unobservable, Return is accepted after any completed iteration; distance bound 1e-3 relative (survey worst 1.2e-6)",
        "ASan/UBSan build",
    ]
    lib = build.build_lib("san")
    exe = build.build_harness("c19s", ["c19_spline.c"], lib)
    rd = tlc.rundir()
    try:
        if "spline" in parts:
            recs = spline_model(ctx)
            spline_replay(ctx, recs, exe, rd)
        if "ledger" in parts:
            spline_ledger(ctx, exe, rd, 300 if ctx.quick else 20000)
        if "nm" in parts:
            if ctx.quick:
                nm_check(ctx, rd, 36, 180)
            else:
                nm_check(ctx, rd, 100, 6000)
        ctx.cov["rule"] = ("replay: every integer knot set TLC enumerated (3..5 knots) x 9 scale decades, keyed (knot count, decade, knot set), non-trivial = decade # 1e0 or "
                           "irregular gaps; ledger: seeded random knot sets keyed (knot count 3..40, spacing decade, uniform/irregular class); Nelder-Mead: seeded strictly "
                           "convex quadratics keyed (dimension, iteration limit, run id)")
    finally:
        shutil.rmtree(rd, ignore_errors=True)


def replay(ctx, body):
    kind = (body.get("case") or {}).get("kind", "")
    ctx.seed = body.get("seed", ctx.seed)
    ctx.tier, ctx.quick = body.get("tier", ctx.tier), body.get("tier", ctx.tier) == "quick"
    if kind == "nm":
        run(ctx, parts=("nm",))
    elif kind == "spline_ledger":
        run(ctx, parts=("ledger",))
    elif kind == "spline_replay":
        run(ctx, parts=("spline",))
    else:
        run(ctx)
