"""C10 - centring/scaling does what each option promises and is reproducible on new data.

Mode 2 of DESIGN.md: TLA+ (spec/Preprocess.tla over spec/Rat.tla) is an exact rational reference semantics of
MatrixPreprocess/TensorPreprocess and TLC is the oracle.

(M)  TLC checks the theorems of the property on the exact semantics for every enumerated case (column means of the
     transform are 0; the promised statistic per option; zero-spread columns -> exactly 0; Apply(Fit(X))(X) = Fit(X);
     new rows get the same map; a MISSING cell is the same as a deleted cell; tensor = per block; shift/scale laws).
(GEN/replay)  TLC enumerates integer matrices over -2..3 with <= 1 MISSING cell x 4 affine images x 7 options and prints
     every case with its exact result; harness/c10_replay.c feeds each case (at several dyadic units) to the real
     library: fit, apply on the same matrix, apply on new rows, TensorPreprocess, and compares.
(validate)  harness/c10_trace.c runs the library on matrices 2..60 x 1..20 inside the property's quantifier and logs
     integer data + the integer projection of the results; TLC recomputes the exact statistics of every logged
     column (spec/TracePreprocess.tla).
"""
import os, shutil, collections
from concurrent.futures import ThreadPoolExecutor
from vf import build, tlc, trace
from vf import run as hrun
from vf.core import InfraError

LEVEL = "model_checking"
READY = True
TECHNIQUE = ("TLC as exact rational oracle: Preprocess.tla enumerates small integer matrices x affine images x options with their exact "
             "statistics/transform (theorems of the property checked as invariants on every case), a C driver replays every case through "
             "MatrixPreprocess/TensorPreprocess; plus TLC trace validation (TracePreprocess.tla) of integer-projected results recorded from "
             "matrices up to 60 x 20 with offsets to 1e6 and missing cells")
LEVEL_TEXT = ("The exact semantics of the seven options (statistics skipping MISSING, scale at its rational power, zero-scale rule, fit/apply, "
              "tensor) is model-checked against the property's theorems on every enumerated case, and every enumerated case is replayed "
              "through the real library and compared with the value TLC computed (exhaustive over the stated small scope in the thorough "
              "tier, a seeded residue-class sample in the quick tier); larger in-quantifier matrices are recorded from the real code and "
              "every logged column is re-derived exactly by TLC.")
LEVEL_NOTE = ("Trusts TLC/CommunityModules, the C drivers' comparison and integer projection (double arithmetic, 1e-9 relative + cancellation "
              "slack 1e-13*max|x|), ASan/UBSan as memory monitor. Exhaustive scope is small (rows 2..5, cols 1..2, values -2..3, <= 1 missing); "
              "the large-matrix direction is sampled. Inputs keep scales >= 0.02 or exactly 0 and means exactly 0 or >= 1e-3 (the library's "
              "snapping thresholds 1e-3 / 1e-6 are outside the property's quantifier).")

ALL_TYPES = [0, 1, 2, 3, 4, 5, 6]     # type + 1


def _case_line(i, e):
    L = [i, e["r"], e["c"], e["v"], e["type"], e["p"]]
    for row in e["X"]:
        L += row
    for a in e["avg"]:
        L += a
    for a in e["sp"]:
        L += a
    L += e["n"]
    for row in e["cn"]:
        L += row
    for row in e["ny"]:
        L += row
    for row in e["ncn"]:
        L += row
    return " ".join(str(x) for x in L)


def _gen_cfg(rd, name, shapes, variants, typecodes, modx, resx, mod, res, emit=True):
    return tlc.write_cfg(os.path.join(rd, name), spec="Spec",
                         constants=dict(Shapes=set(shapes), Variants=set(variants), TypeCodes=set(typecodes), ModX=modx, ResX=resx,
                                        Mod=mod, Res=res, MaxMissing=1),
                         invariants=["Theorems"], constraints=["Emit"] if emit else [], deadlock=False)


def _plan(ctx, rd):
    """list of (label, cfg path) GEN runs"""
    s = ctx.seed
    runs = []
    if ctx.quick:
        runs.append(("gen_1col", _gen_cfg(rd, "g1.cfg", [21, 31, 41], [0, 1, 2, 3], ALL_TYPES, 1, 0, 16, s % 16)))
        runs.append(("gen_2col", _gen_cfg(rd, "g2.cfg", [22, 32], [0, 1, 2, 3], ALL_TYPES, 1, 0, 512, s % 512)))
    else:
        for tc in ALL_TYPES:
            runs.append(("gen_1col_t%d" % (tc - 1), _gen_cfg(rd, "g1_%d.cfg" % tc, [21, 31, 41, 51], [0, 1, 2, 3], [tc], 1, 0, 1, 0)))
            runs.append(("gen_2col_t%d" % (tc - 1), _gen_cfg(rd, "g2_%d.cfg" % tc, [22, 32], [0, 1, 2, 3], [tc], 1, 0, 8, s % 8)))
        runs.append(("gen_4x2", _gen_cfg(rd, "g42.cfg", [42], [0, 1, 2, 3], ALL_TYPES, 2048, s % 2048, 1, 0)))
    return runs


def _sig(f):
    return "PREP:%d:%s" % (f["type"], f["kind"])


def _replay_cases(ctx, exe, rd, tag, cases):
    """write cases, run the replay driver, turn Fail lines into violations; returns number of Fail lines"""
    cf = os.path.join(rd, "cases_%s.txt" % tag)
    of = os.path.join(rd, "out_%s.ndjson" % tag)
    with open(cf, "w") as fh:
        for i, e in enumerate(cases):
            fh.write(_case_line(i, e) + "\n")
    h = hrun.run(exe, [cf, of], timeout=1500)
    ev = hrun.read_ndjson(of)
    if h.timed_out:
        raise InfraError("c10_replay timed out on %s" % tag)
    fails = [e for e in ev if e.get("e") == "Fail"]
    if h.rc != 0:
        last = fails[-1] if fails else {}
        done = [e for e in ev if e.get("e") == "Done"]
        if h.san:
            ctx.violation("PREP:%s:%s" % (last.get("type", "?"), h.san), "sanitizer report in the replay driver (%s):\n%s" % (tag, h.err[:1500]),
                          dict(kind="crash", tag=tag))
        elif not done:
            raise InfraError("c10_replay died rc=%d on %s: %s" % (h.rc, tag, h.err[-800:]))
    done = [e for e in ev if e.get("e") == "Done"]
    if done and done[0]["cases"] != len(cases):
        raise InfraError("c10_replay read %d of %d cases" % (done[0]["cases"], len(cases)))
    if not done and h.rc == 0:
        raise InfraError("c10_replay wrote no Done line")
    for f in fails:
        c = cases[f["id"]]
        ctx.violation(_sig(f), "option %d, variant %d, unit 2^-%d, cell (%d,%d): %s: got %s, exact %s; X=%s" % (
            f["type"], f["v"], f["exp"], f["i"], f["j"], f["what"], f["got"], f["want"], c["X"]), dict(kind="case", case=c, exp=f["exp"]))
    return len(fails), (done[0]["runs"] if done else 0)


def _nontrivial(e):
    has_missing = any(x == 99999999 for row in e["X"] for x in row)
    has_zero = any(a[0] == 0 for a in e["sp"])
    return has_missing or has_zero or e["c"] > 1 or e["v"] != 0


def _run_replay(ctx, rd, lib):
    exe = build.build_harness("c10r", ["c10_replay.c"], lib)
    plan = _plan(ctx, rd)

    def one(item):
        label, cfg = item
        r = tlc.run("Preprocess", cfg, workers=1, timeout=1700, coverage=False, xmx="3g")
        return label, r
    stats = collections.Counter()
    nfail = nruns = 0
    with ThreadPoolExecutor(3 if ctx.quick else 6) as ex:
        for label, r in ex.map(one, plan):
            ctx.add_tlc(r, label)
            if not r.ok:
                raise InfraError("Preprocess.tla: %s fails in the model itself (%s):\n%s" % (r.violation, label, r.trace_text[:1500]))
            if len(r.emits) != r.distinct:
                raise InfraError("GEN %s: %d emitted cases for %d states" % (label, len(r.emits), r.distinct))
            cases = r.emits
            for e in cases:
                key = (e["type"], e["r"], e["c"], e["v"], any(a[0] == 0 for a in e["sp"]), any(x == 99999999 for row in e["X"] for x in row))
                ctx.case(("R",) + key, _nontrivial(e))
                stats["type%d" % e["type"]] += 1
                if e["type"] == 5 and e["v"] in (1, 3) and any(a[0] != 0 for a in e["sp"]) and any(any(x != 0 for x in row) for row in e["cn"]):
                    stats["window"] += 1
                if key[4]:
                    stats["zero"] += 1
                if key[5]:
                    stats["missing"] += 1
            for e in cases[:2]:
                ctx.sample(dict(direction="replay", **{k: e[k] for k in ("type", "v", "X", "avg", "sp", "p")}), 4)
            f, n = _replay_cases(ctx, exe, rd, label, cases)
            nfail += f
            nruns += n
            ctx.note("%s: %d cases from TLC (%.0fs), %d library runs, %d failed comparisons" % (label, len(cases), r.wall, n, f))
            r.emits = None
            r.out = ""
    # vacuity: every option, zero-scale columns, missing cells and the between-thresholds window must have been exercised
    for k in ["type%d" % t for t in range(-1, 6)] + ["window", "zero", "missing"]:
        if stats[k] == 0:
            raise InfraError("replay direction vacuous: no case of kind %s was generated" % k)
    ctx.steps["replay"] = dict(cases=sum(stats["type%d" % t] for t in range(-1, 6)), library_runs=nruns, failed_comparisons=nfail,
                               window_cases=stats["window"], zero_scale_cases=stats["zero"], missing_cases=stats["missing"])


def _min_ssd(e, n):
    return 1 if e == 0 else ((n * (n - 1) + 8) // 9 if e == 4 else 420 * n * (n - 1))


def _check_quantifier(events):
    """the recording driver must stay inside the property's quantifier (else the fault is ours: InfraError)"""
    for ev in events:
        if ev["e"] != "Col":
            continue
        d = [x for x in ev["d"] if x != 99999999]
        n, s1, s2 = len(d), sum(d), sum(x * x for x in d)
        ssd = n * s2 - s1 * s1
        e = ev["exp"]
        tot = ev["piv"] * n + s1
        if n < 2 or not (ssd == 0 or ssd >= _min_ssd(e, n)) or not (tot == 0 or 1000 * abs(tot) >= n * (1 << e)) or max(abs(x) for x in d) > 400:
            raise InfraError("c10_trace generated a column outside the quantifier: %s" % ev)


def _sig_trace(ev):
    kind = {"Avg": "avg", "Scale": "scale", "Cells": "cell", "Same": "apply", "New": "apply", "Tensor": "tensor", "Copy": "cell", "Col": "cell"}.get(ev["e"], ev["e"])
    return "PREP:%d:%s" % (ev.get("type", 9), kind)


def _run_validate(ctx, rd, lib, only=None):
    """only = (seed, nmat, local matrix id): re-record that run and validate just that matrix (replay of a stored violation)"""
    exe = build.build_harness("c10t", ["c10_trace.c"], lib)
    nproc, nmat = (4, 60) if ctx.quick else (12, 400)
    jobs = [[os.path.join(rd, "v%d.ndjson" % i), ctx.seed + 101 * i, nmat] for i in range(nproc)]
    if only:
        jobs = [[os.path.join(rd, "v0.ndjson"), only[0], only[1]]]
    res = hrun.run_many(exe, jobs, timeout=1500, workers=6)
    blocks = []
    for j, h in zip(jobs, res):
        ev = hrun.read_ndjson(j[0])
        if h.rc != 0:
            last = ev[-1] if ev else {}
            if h.san:
                ctx.violation("PREP:%s:%s" % (last.get("type", "?"), h.san), "sanitizer report while recording (seed %s, after %s):\n%s" % (j[1], last, h.err[:1500]),
                              dict(kind="trace", seed=j[1], nmat=j[2], id=last.get("id", 0)))
            elif h.timed_out:
                raise InfraError("c10_trace timed out")
            elif h.rc < 0 and ev:
                # killed by a signal inside a library call (the driver itself is deterministic and only allocates through the library)
                ctx.violation("PREP:%s:crash" % last.get("type", "?"), "recording driver killed by signal %d after event %s (seed %s): %s" % (-h.rc, last, j[1], h.err[-600:]),
                              dict(kind="trace", seed=j[1], nmat=j[2], id=last.get("id", 0)))
            else:
                raise InfraError("c10_trace died rc=%d: %s" % (h.rc, h.err[-800:]))
        if only:
            ev = [e for e in ev if e.get("id") == only[2]]
        for e in ev:
            e["seed"], e["nmat"] = j[1], j[2]
        blocks.append(ev)
    events = [e for b in blocks for e in b]
    kinds = collections.Counter(e["e"] for e in events)
    if not only:
        for k in ("Reset", "Col", "Avg", "Scale", "Cells", "Same", "New", "Copy", "Tensor"):
            if kinds[k] == 0:
                raise InfraError("validate direction vacuous: no %s event recorded" % k)
    elif not events:
        raise InfraError("replay: the recording no longer contains that matrix")
    _check_quantifier(events)
    cur = None
    cols = {}
    for e in events:
        if e["e"] == "Reset":
            cur = e
        elif e["e"] == "Col":
            cols[(e["seed"], e["id"], e["j"])] = e
            d = [x for x in e["d"] if x != 99999999]
            const = len(set(d)) == 1
            ctx.case(("V", e["type"], min(cur["r"], 8), min(cur["c"], 3), cur["exp"], const, e["hm"], abs(e["piv"]) > 100000), True)
        elif e["e"] in ("Tensor", "Copy"):
            ctx.case(("V", e["e"], e["type"], e.get("nb", 0)), True)
    for e in events:
        if e["e"] == "Col" and e["hm"] and len(e["d"]) <= 8:
            ctx.sample(dict(direction="validate", **e), 6)

    def on_reject(ev, idx, block):
        sig = _sig_trace(ev)
        col = cols.get((ev.get("seed"), ev.get("id"), ev.get("j")))
        ctx.violation(sig, "recorded %s event is not what the exact statistics of the logged column give: %s ; column: %s" % (ev["e"], ev, col),
                      dict(kind="trace", seed=ev.get("seed"), nmat=ev.get("nmat"), id=ev.get("id"), event=ev, column=col))
        return lambda e: e["e"] not in ("Reset", "Col") and _sig_trace(e) == sig

    # one TLC run per recording process keeps the traces short; run them in parallel
    def val(i):
        sub = _Sub(ctx)
        trace.check_trace(sub, "TracePreprocess", "Trace_Preprocess.cfg", "Trace_Preprocess_prop.cfg", blocks[i], on_reject, drop="event",
                          label="trace_preprocess_%d" % i, timeout=1500)
        return sub
    with ThreadPoolExecutor(4 if ctx.quick else 6) as ex:
        for sub in ex.map(val, range(len(blocks))):
            sub.merge()
    ctx.traces(kinds["Reset"])
    ctx.steps["validate"] = dict(matrices=kinds["Reset"], columns=kinds["Col"], events=len(events))
    if not ctx.quick and not only:
        def corrupt(ev):
            for e in ev:
                if e["e"] == "Avg":
                    e["s1"] += 1
                    return True
            return False
        trace.binding_selftest(ctx, "TracePreprocess", "Trace_Preprocess_prop.cfg", blocks[0][:200], corrupt, "binding_avg")

        def corrupt2(ev):
            for e in ev:
                if e["e"] == "Cells" and not e["zero"]:
                    e["cnr"] = 1000000000
                    return True
            return False
        trace.binding_selftest(ctx, "TracePreprocess", "Trace_Preprocess_prop.cfg", blocks[0][:400], corrupt2, "binding_cells")


class _Sub:
    """thread-local stand-in for ctx so that parallel trace validations do not interleave their bookkeeping"""

    def __init__(self, ctx):
        self.ctx = ctx
        self.tlc, self.drifts, self.notes = [], [], []

    def add_tlc(self, r, label=None):
        self.tlc.append((r, label))

    def spec_drift(self, what):
        self.drifts.append(what)

    def note(self, msg):
        self.notes.append(msg)

    def merge(self):
        for r, label in self.tlc:
            self.ctx.add_tlc(r, label)
        for w in self.drifts:
            self.ctx.spec_drift(w)
        for m in self.notes:
            self.ctx.note(m)


def run(ctx):
    ctx.assumptions += [
        "TLC and its CommunityModules evaluate the rational arithmetic of Rat.tla/Preprocess.tla exactly (32-bit overflow raises an error, never wraps)",
        "replay scope: integer matrices rows 2..%s x cols 1..2 over -2..3 with <= 1 MISSING cell, 4 affine images (identity, +-1000 offset, x64 with mean moved into [0.0049,0.0059) at unit 2^-10, its negative), 7 options, units 2^0, 2^-4, 2^20 / 2^-10 / 2^-3" % ("4 (seeded residue-class sample)" if ctx.quick else "5 (1-column shapes exhaustive; 3x2 by residue class 1/8, 4x2 by 1/2048)"),
        "comparison in double by the C driver: 1e-9 relative + 1e-13*max|x| cancellation slack; expected zeros must be exactly 0; stored vectors compared through the rational power of the scale",
        "validate scope: matrices 2..60 x 1..20, cells (pivot + d)*2^-e with |d| <= 400, e in {0,4,10}, pivots up to 1e6 real units (|pivot| <= 4000 units for RMS scaling so that TLC squares raw values inside 32 bits), spreads >= 0.02 or 0, means 0 or >= 1e-3, <= 20 % missing; integer projection of the library's doubles is trusted harness code",
        "value left at a MISSING cell of the transformed matrix is not constrained by the property (Impl layer only)",
        "ASan/UBSan build: any sanitizer report during replay or recording is a violation",
    ]
    rd = tlc.rundir()
    try:
        lib = build.build_lib("san")
        # (M) theorems on the exhaustive small scope, concurrently with the replay direction
        with ThreadPoolExecutor(1) as ex:
            fut = ex.submit(tlc.run, "Preprocess", "MC_Preprocess_quick.cfg" if ctx.quick else "MC_Preprocess_thorough.cfg",
                            workers=2, timeout=1700, coverage=False, xmx="3g")
            _run_replay(ctx, rd, lib)
            r = fut.result()
        ctx.add_tlc(r, "mc_preprocess")
        if not r.ok:
            raise InfraError("Preprocess.tla: invariant %s fails in the model itself:\n%s" % (r.violation, r.trace_text[:1500]))
        if r.distinct == 0:
            raise InfraError("Preprocess.tla: no state enumerated")
        ctx.note("model: theorems hold on all %d (matrix, option) cases of the exhaustive scope (%.0fs)" % (r.distinct, r.wall))
        _run_validate(ctx, rd, lib)
        ctx.cov["rule"] = ("replay: a case is one (matrix, affine image, option) enumerated by TLC and executed through fit/apply-same/apply-new/tensor at each unit; "
                           "distinct key = (option, rows, cols, image, has zero-scale column, has MISSING); non-trivial = MISSING or zero-scale or 2 columns or a "
                           "non-identity image.  validate: a case is one recorded column / tensor / copy; key = (option, rows class, cols class, unit, constant?, "
                           "has MISSING, large pivot)")
        ctx.cov["exhaustive"] = not ctx.quick
    finally:
        shutil.rmtree(rd, ignore_errors=True)


def replay(ctx, body):
    case = body.get("case") or {}
    lib = build.build_lib("san")
    rd = tlc.rundir()
    try:
        if case.get("kind") == "case":
            exe = build.build_harness("c10r", ["c10_replay.c"], lib)
            f, n = _replay_cases(ctx, exe, rd, "replay", [case["case"]])
            ctx.case(("replay", body.get("signature")), True)
            ctx.case(("replay2", body.get("signature")), True)
            ctx.sample(case["case"])
            ctx.note("replayed 1 case: %d library runs, %d failed comparisons" % (n, f))
        elif case.get("kind") == "trace":
            # the recording driver is deterministic in (seed, nmat): re-record on the current tree and validate that matrix only
            _run_validate(ctx, rd, lib, only=(case["seed"], case["nmat"], case.get("id", 0)))
            ctx.case(("replay2", body.get("signature")), True)
        else:
            run(ctx)
    finally:
        shutil.rmtree(rd, ignore_errors=True)
