"""C10 - centring/scaling does what each option promises and is reproducible on new data.

Mode 2 of DESIGN.md: TLA+ (spec/Preprocess.tla over spec/Rat.tla) is an exact rational reference semantics of
MatrixPreprocess/TensorPreprocess and TLC is the oracle.

(M)  TLC checks the theorems of the property on the exact semantics for every enumerated case (column means of the
     transform are 0; the promised statistic per option; zero-spread columns -> exactly 0; Apply(Fit(X))(X) = Fit(X);
     new rows get the same map; a MISSING cell is the same as a deleted cell; tensor = per block; shift/scale laws;
     T9 the transform does not depend on the unit of the column (x -> kx); T10 columns are transformed on their own,
     equal columns get equal results; T11 tied values / duplicate rows get equal results).
     spec/PrepGuard.tla (over spec/PrepRound.tla) states what the zero-scale guard must satisfy for "columns without
     spread become exactly zero": rounding noise of a constant column < threshold <= smallest admissible genuine scale,
     for rows 2..60 and magnitudes to 1e6; thresholds outside the window (DBL_EPSILON, 1e-6, 1.4e-3) are refuted by TLC.
(GEN/replay)  TLC enumerates integer matrices over -2..3 with <= 1 MISSING cell x 4 affine images x 7 options and prints
     every case with its exact result; harness/c10_replay.c feeds each case (at several dyadic units) to the real
     library: fit, apply on the same matrix, apply on new rows, TensorPreprocess, and compares.
(validate)  harness/c10_trace.c runs the library on matrices 2..60 x 1..20 inside the property's quantifier and logs
     integer data + the integer projection of the results; TLC recomputes the exact statistics of every logged
     column (spec/TracePreprocess.tla).  The recording follows a fixed schedule of input classes (INPUT-CLASSES.md):
     K5 constant / tied / zero-mean columns on NON-representable grids (units 1/10, 1/3, 1/1000, 1/7, 1/49, 1/100; rows
     3, 7, 10, 49, 60; with MISSING cells; with offsets to 1e6; every option 0..5) - TLC demands exact zeros (bit patterns
     summarised as zero/nz/tmax) for every column whose exact scale is 0 and bounds the stored scaling by the rounding
     model of PrepRound.tla; K1/K2 shape relations and boundaries; K3 offsets; K4 units 2^-10..2^20; K7 outputs already
     sized and holding other data, refit after fits of another and of the same shape; K8 duplicate rows/columns, ties,
     constant among informative; K9 MISSING in first/last row and in new rows.
     Outside the statement (reported as EXTRA-FINDING, never a verdict): the column-statistic routines called directly
     (MatrixColAverage/SDEV/Var/RMS/ColumnMinMax, Stat events) and columns with fewer than two present cells (Deg events).
"""
import os, shutil, collections
from fractions import Fraction
from concurrent.futures import ThreadPoolExecutor
from vf import build, tlc, trace
from vf import run as hrun
from vf.core import InfraError
from checks.deferred import Deferred, crash_signal

LEVEL = "model_checking"
READY = True
TECHNIQUE = ("TLC as exact rational oracle: Preprocess.tla enumerates small integer matrices x affine images x options with their exact "
             "statistics/transform (theorems of the property checked as invariants on every case), a C driver replays every case through "
             "MatrixPreprocess/TensorPreprocess; plus TLC trace validation (TracePreprocess.tla) of integer-projected results recorded from "
             "matrices up to 60 x 20 with offsets to 1e6 and missing cells on dyadic AND non-representable grids (0.1, 1/3, 1e-3 ...: constant, "
             "tied and zero-mean columns whose sum/n is an ulp off), with class-scheduled inputs (INPUT-CLASSES K1-K5, K7-K9), a rounding model "
             "(PrepRound.tla) for the tolerances and a model-checked window for the zero-scale guard (PrepGuard.tla)")
LEVEL_TEXT = ("The exact semantics of the seven options (statistics skipping MISSING, scale at its rational power, zero-scale rule, fit/apply, "
              "tensor, unit invariance, column locality) is model-checked against the property's theorems on every enumerated case, and every "
              "enumerated case is replayed through the real library and compared with the value TLC computed (exhaustive over the stated small "
              "scope in the thorough tier, a seeded residue-class sample in the quick tier); larger in-quantifier matrices - including columns "
              "whose values are not representable, for which the exact-zero clause is decided by TLC on the recorded bit-pattern summary - are "
              "recorded from the real code and every logged column is re-derived exactly by TLC.")
LEVEL_NOTE = ("Trusts TLC/CommunityModules, the C drivers' comparison and integer projection (long double arithmetic; 1e-9 relative + cancellation "
              "slack 1e-15*|offset|*N on dyadic grids; on non-dyadic grids the a-priori rounding bounds of PrepRound.tla, functions of N, offset and "
              "spread computed by TLC from the logged integers), ASan/UBSan as memory monitor. Exhaustive scope is small (rows 2..5, cols 1..2, values "
              "-2..3, <= 1 missing); the large-matrix direction is a class-scheduled sample. Inputs keep scales >= 0.02 or exactly 0 and means exactly 0 or "
              ">= 1e-3 (the library's threshold 1e-3 is outside the property's quantifier), offsets <= 1e6 (1e6/unit capped at 1e9 units; informative "
              "columns on non-dyadic grids <= 1e6 units so that input rounding stays below 1e-3 of the integer grid). Exact zeros are demanded where the "
              "exact scale is 0 (options 1, 3, 4 on constant columns; 2 and 5 on zero columns / zero means); a constant non-representable column under "
              "options 0, 2, 5 has a non-zero scale and must only satisfy t*scale = x - mean within the rounding bound (the library returns ~1e-16 there). "
              "Classes not emitted because the quantifier or the code excludes them: K4 whole-input scales below 1 ulp of the 0.02 spread floor (1e-6) "
              "- spreads < 0.02 are excluded; K6 processor counts - preprocessing.c and the column statistics reach no MT_* kernel and spawn no workers; "
              "K10 label alphabets - no labels; K1 single row - matrices have >= 2 rows; K9 whole column MISSING / a single present cell - the sample "
              "spread of the column is undefined (covered by the EXTRA part only: the library returns NaN for options 1, 3 resp. 2).")

ALL_TYPES = [0, 1, 2, 3, 4, 5, 6]     # type + 1


def _case_line(i, e):
    L = [i, e["r"], e["c"], e["v"], e["type"], e["p"]]
    for row in e["X"]:
        L += row
    for a in e["avg"]:
        L += a
    for a in e["sp"]:
        L += a
    L += e["n"]
    for row in e["cn"]:
        L += row
    for row in e["ny"]:
        L += row
    for row in e["ncn"]:
        L += row
    return " ".join(str(x) for x in L)


def _gen_cfg(rd, name, shapes, variants, typecodes, modx, resx, mod, res, emit=True):
    return tlc.write_cfg(os.path.join(rd, name), spec="Spec",
                         constants=dict(Shapes=set(shapes), Variants=set(variants), TypeCodes=set(typecodes), ModX=modx, ResX=resx,
                                        Mod=mod, Res=res, MaxMissing=1),
                         invariants=["Theorems"], constraints=["Emit"] if emit else [], deadlock=False)


def _plan(ctx, rd):
    """list of (label, cfg path) GEN runs"""
    s = ctx.seed
    runs = []
    if ctx.quick:
        runs.append(("gen_1col", _gen_cfg(rd, "g1.cfg", [21, 31, 41], [0, 1, 2, 3], ALL_TYPES, 1, 0, 16, s % 16)))
        runs.append(("gen_2col", _gen_cfg(rd, "g2.cfg", [22, 32], [0, 1, 2, 3], ALL_TYPES, 1, 0, 512, s % 512)))
    else:
        for tc in ALL_TYPES:
            runs.append(("gen_1col_t%d" % (tc - 1), _gen_cfg(rd, "g1_%d.cfg" % tc, [21, 31, 41, 51], [0, 1, 2, 3], [tc], 1, 0, 1, 0)))
            runs.append(("gen_2col_t%d" % (tc - 1), _gen_cfg(rd, "g2_%d.cfg" % tc, [22, 32], [0, 1, 2, 3], [tc], 1, 0, 8, s % 8)))
        runs.append(("gen_4x2", _gen_cfg(rd, "g42.cfg", [42], [0, 1, 2, 3], ALL_TYPES, 2048, s % 2048, 1, 0)))
    return runs


def _sig(f):
    return "PREP:%d:%s" % (f["type"], f["kind"])


def _replay_cases(ctx, exe, rd, tag, cases, deferred=None, ids=None, depth=0):
    """write cases, run the replay driver, turn Fail lines into violations; returns number of Fail lines.
    The driver runs every case in ONE process: a library that aborts on a case ends it.  That case is located (bisection over prefixes of the list, each in a
    process of its own), reported with the crash signature, and the cases behind it are run in a new process; `ids` = the indices of `cases` that are run"""
    ids = list(range(len(cases))) if ids is None else ids
    cf = os.path.join(rd, "cases_%s.txt" % tag)
    of = os.path.join(rd, "out_%s.ndjson" % tag)

    def drive(sub):
        with open(cf, "w") as fh:
            for i in sub:
                fh.write(_case_line(i, cases[i]) + "\n")
        return hrun.run(exe, [cf, of], timeout=1500)
    h = drive(ids)
    ev = hrun.read_ndjson(of)
    if h.timed_out:
        if deferred is None:
            raise InfraError("c10_replay timed out on %s" % tag)
        deferred.add("c10_replay timed out on %s" % tag)       # a changed library may hang; the Fail lines written so far are still reported
    fails = [e for e in ev if e.get("e") == "Fail"]
    more = (0, 0)
    if h.rc != 0 and not h.timed_out:
        last = fails[-1] if fails else {}
        done = [e for e in ev if e.get("e") == "Done"]
        if h.san:
            ctx.violation("PREP:%s:%s" % (last.get("type", "?"), h.san), "sanitizer report in the replay driver (%s):\n%s" % (tag, h.err[:1500]),
                          dict(kind="crash", tag=tag))
        elif not done:
            sg = crash_signal(h.rc)
            if not sg:
                raise InfraError("c10_replay died rc=%d on %s: %s" % (h.rc, tag, h.err[-800:]))
            lo, hi = 1, len(ids)          # the driver dies on ids[:hi]; it does not on ids[:lo - 1]
            while lo < hi:
                mid = (lo + hi) // 2
                if crash_signal(drive(ids[:mid]).rc):
                    hi = mid
                else:
                    lo = mid + 1
            c = cases[ids[lo - 1]]
            alone = lo == 1 or bool(crash_signal(drive([ids[lo - 1]]).rc))
            ctx.violation("PREP:%s:crash" % c["type"], "the library did not return (%s) on option %d, variant %d, X=%s%s: %s" % (
                sg, c["type"], c["v"], c["X"], "" if alone else " after the %d preceding cases of %s (it returns when run alone)" % (lo - 1, tag), h.err[-600:]),
                dict(kind="case", case=c) if alone else dict(kind="crash", tag=tag, prefix=lo))
            if depth < 3 and lo < len(ids):
                more = _replay_cases(ctx, exe, rd, tag, cases, deferred, ids[lo:], depth + 1)
            elif lo < len(ids) and deferred is not None:
                deferred.add("c10_replay: %d cases of %s not run after 4 crashes of the driver" % (len(ids) - lo, tag))
    done = [e for e in ev if e.get("e") == "Done"]
    if done and done[0]["cases"] != len(ids):
        raise InfraError("c10_replay read %d of %d cases" % (done[0]["cases"], len(ids)))
    if not done and h.rc == 0:
        raise InfraError("c10_replay wrote no Done line")
    for f in fails:
        c = cases[f["id"]]
        ctx.violation(_sig(f), "option %d, variant %d, unit 2^-%d/%d, cell (%d,%d): %s: got %s, exact %s; X=%s" % (
            f["type"], f["v"], f["exp"], f.get("den", 1), f["i"], f["j"], f["what"], f["got"], f["want"], c["X"]), dict(kind="case", case=c, exp=f["exp"], den=f.get("den", 1)))
    return len(fails) + more[0], (done[0]["runs"] if done else 0) + more[1]


def _nontrivial(e):
    has_missing = any(x == 99999999 for row in e["X"] for x in row)
    has_zero = any(a[0] == 0 for a in e["sp"])
    return has_missing or has_zero or e["c"] > 1 or e["v"] != 0


def _run_guard(ctx):
    """PrepGuard.tla: the zero-scale threshold must lie between the rounding noise of a constant column and the smallest
    admissible genuine scale, for all rows 2..60 and magnitudes to 1e6; negative configurations (thresholds outside the
    window, among them DBL_EPSILON) must be refuted by TLC, else the theorem is vacuous"""
    cfgs = [("MC_PrepGuard.cfg", True), ("MC_PrepGuard_eps.cfg", False)]
    if not ctx.quick:
        cfgs += [("MC_PrepGuard_1e6.cfg", False), ("MC_PrepGuard_1p4e3.cfg", False)]

    def one(item):
        return item, tlc.run("PrepGuard", item[0], workers=1, timeout=300, coverage=False, xmx="1g")
    with ThreadPoolExecutor(4) as ex:
        for (cfg, want), r in ex.map(one, cfgs):
            ctx.add_tlc(r, "guard_" + cfg[3:-4])
            if want and (not r.ok or r.distinct != 59 * 9):
                raise InfraError("PrepGuard.tla: GuardSound fails for the threshold of the statement's window (%s, %d states):\n%s" % (r.violation, r.distinct, r.trace_text[:800]))
            if not want and r.violation != "GuardSound":
                raise InfraError("PrepGuard.tla: threshold outside the window (%s) not refuted - the guard theorem is vacuous" % cfg)
    ctx.note("model: zero-scale guard window (PrepGuard.tla) holds for 1e-3 on rows 2..60 x 9 magnitudes; %d out-of-window thresholds refuted" % (len(cfgs) - 1))


def _cls_replay(ctx, e):
    """input classes of a TLC-enumerated replay case (counted once per case)"""
    r, c, X = e["r"], e["c"], e["X"]
    ctx.cls("replay/K1:%s" % ("tall" if r > c else "square" if r == c else "wide"))
    if c == 1:
        ctx.cls("replay/K1:single-column")
    if e["v"] == 2:
        ctx.cls("replay/K3:offset+-1000")
    if e["v"] in (1, 3):
        ctx.cls("replay/K3:mean-in-threshold-window")
    if any(x == 99999999 for x in X[0]):
        ctx.cls("replay/K9:first-row-missing")
    if any(x == 99999999 for x in X[-1]):
        ctx.cls("replay/K9:last-row-missing")
    if any(a[0] == 0 for a in e["sp"]) and e["type"] > 0:
        ctx.cls("replay/K8:zero-scale-column")
    if len(set(tuple(row) for row in X)) < r:
        ctx.cls("replay/K8:dup-rows")
    if c == 2 and all(row[0] == row[1] for row in X):
        ctx.cls("replay/K8:dup-cols")


def _run_replay(ctx, rd, lib, deferred=None):
    exe = build.build_harness("c10r", ["c10_replay.c"], lib)
    plan = _plan(ctx, rd)

    def one(item):
        label, cfg = item
        r = tlc.run("Preprocess", cfg, workers=1, timeout=1700, coverage=False, xmx="3g")
        return label, r
    stats = collections.Counter()
    nfail = nruns = 0
    with ThreadPoolExecutor(3 if ctx.quick else 6) as ex:
        for label, r in ex.map(one, plan):
            ctx.add_tlc(r, label)
            if not r.ok:
                raise InfraError("Preprocess.tla: %s fails in the model itself (%s):\n%s" % (r.violation, label, r.trace_text[:1500]))
            if len(r.emits) != r.distinct:
                raise InfraError("GEN %s: %d emitted cases for %d states" % (label, len(r.emits), r.distinct))
            cases = r.emits
            for e in cases:
                key = (e["type"], e["r"], e["c"], e["v"], any(a[0] == 0 for a in e["sp"]), any(x == 99999999 for row in e["X"] for x in row))
                ctx.case(("R",) + key, _nontrivial(e))
                _cls_replay(ctx, e)
                stats["type%d" % e["type"]] += 1
                if e["type"] == 5 and e["v"] in (1, 3) and any(a[0] != 0 for a in e["sp"]) and any(any(x != 0 for x in row) for row in e["cn"]):
                    stats["window"] += 1
                if key[4]:
                    stats["zero"] += 1
                if key[5]:
                    stats["missing"] += 1
            for e in cases[:2]:
                ctx.sample(dict(direction="replay", **{k: e[k] for k in ("type", "v", "X", "avg", "sp", "p")}), 4)
            f, n = _replay_cases(ctx, exe, rd, label, cases, deferred)
            nfail += f
            nruns += n
            ctx.note("%s: %d cases from TLC (%.0fs), %d library runs, %d failed comparisons" % (label, len(cases), r.wall, n, f))
            r.emits = None
            r.out = ""
    # vacuity: every option, zero-scale columns, missing cells and the between-thresholds window must have been exercised
    for k in ["type%d" % t for t in range(-1, 6)] + ["window", "zero", "missing"]:
        if stats[k] == 0:
            raise InfraError("replay direction vacuous: no case of kind %s was generated" % k)
    ctx.steps["replay"] = dict(cases=sum(stats["type%d" % t] for t in range(-1, 6)), library_runs=nruns, failed_comparisons=nfail,
                               window_cases=stats["window"], zero_scale_cases=stats["zero"], missing_cases=stats["missing"])


def _check_quantifier(events):
    """the recording driver must stay inside the property's quantifier (else the fault is ours: InfraError).
    cell = (piv + d) * 2^-exp / den: sample sdev >= 0.02 or exactly 0, mean exactly 0 or >= 1e-3, |d| <= 400, >= 2 present cells"""
    for ev in events:
        if ev["e"] != "Col":
            continue
        d = [x for x in ev["d"] if x != 99999999]
        n, s1, s2 = len(d), sum(d), sum(x * x for x in d)
        ssd = n * s2 - s1 * s1
        e, q = ev["exp"], ev["den"]
        unit = Fraction(1, q) / (Fraction(2) ** e)
        tot = ev["piv"] * n + s1
        ok = n >= 2 and max(abs(x) for x in d) <= 400 and q >= 1
        ok = ok and (ssd == 0 or Fraction(ssd, n * (n - 1)) * unit * unit >= Fraction(4, 10000))
        ok = ok and (tot == 0 or abs(Fraction(tot, n) * unit) >= Fraction(1, 1000))
        ok = ok and (abs(ev["piv"]) * unit <= 1100000 or abs(ev["piv"]) <= 400) and (q == 1 or e == 0)    # offsets to 1e6 (whole-input scale 2^10, 2^20: class K4)
        ok = ok and (q == 1 or ssd == 0 or abs(ev["piv"]) <= 1000000)
        if not ok:
            raise InfraError("c10_trace generated a column outside the quantifier: %s" % ev)


EXTRA_KINDS = ("Stat", "DegCol", "Deg")        # events about behaviour outside the statement / quantifier: rejection -> EXTRA-FINDING


def _sig_trace(ev):
    if ev["e"] == "Stat":
        return "PREP:stat:%s" % ev.get("fn", "?")
    if ev["e"] in ("Deg", "DegCol"):
        return "PREP:%d:degenerate-column" % ev.get("type", 9)
    kind = {"Avg": "avg", "Scale": "scale", "Cells": "cell", "Same": "apply", "New": "apply", "Tensor": "tensor", "Copy": "cell", "Col": "cell",
            "Again": "refit"}.get(ev["e"], ev["e"])
    return "PREP:%d:%s" % (ev.get("type", 9), kind)


K5_ROWS = (3, 7, 10, 49, 60)


def _record(ctx, exe, rd, jobs, deferred=None):
    """run the recording driver once per job [path, seed, nmat, mode]; returns one event list per job"""
    res = hrun.run_many(exe, jobs, timeout=1500, workers=6)
    blocks = []
    for j, h in zip(jobs, res):
        ev = hrun.read_ndjson(j[0])
        if h.rc != 0:
            last = ev[-1] if ev else {}
            rp = dict(kind="trace", seed=j[1], nmat=j[2], mode=j[3], id=last.get("id", 0))
            if h.san:
                ctx.violation("PREP:%s:%s" % (last.get("type", "?"), h.san), "sanitizer report while recording (seed %s, after %s):\n%s" % (j[1], last, h.err[:1500]), rp)
            elif h.timed_out:
                if deferred is None:
                    raise InfraError("c10_trace timed out")
                deferred.add("c10_trace timed out (seed %s, after event %s)" % (j[1], last))      # a changed library may hang; what was recorded is still judged
            elif (h.rc < 0 and ev) or crash_signal(h.rc):
                # killed by a signal inside a library call (the driver itself is deterministic and only allocates through the library)
                ctx.violation("PREP:%s:crash" % last.get("type", "?"), "recording driver killed by signal %d after event %s (seed %s): %s" % (-h.rc, last, j[1], h.err[-600:]), rp)
            else:
                raise InfraError("c10_trace died rc=%d: %s" % (h.rc, h.err[-800:]))
        for e in ev:
            e["seed"], e["nmat"], e["mode"] = j[1], j[2], j[3]
        blocks.append(ev)
    return blocks


def _account(ctx, events):
    """evidence accounting: cases, class counts (INPUT-CLASSES.md), samples; returns the (seed, id, j) -> Col map"""
    cur = None
    cols = {}
    for e in events:
        if e["e"] == "Reset":
            cur = e
            for t in e.get("tags", []):
                if not t.startswith("slot:"):
                    ctx.cls(t)
        elif e["e"] in ("Col", "DegCol"):
            cols[(e["seed"], e["mode"], e["id"], e["j"])] = e
            d = [x for x in e["d"] if x != 99999999]
            const = len(set(d)) <= 1
            ctx.case(("V", e["e"], e["type"], min(cur["r"], 8), min(cur["c"], 3), cur["exp"], min(e["den"], 2), const, e["hm"], abs(e["piv"]) > 100000), True)
            for t in e.get("tags", []):
                ctx.cls(t)
                if t.startswith("K5:const-nonrep"):
                    ctx.cls("%s/option%d" % (t, e["type"]))
        elif e["e"] in ("Tensor", "Copy", "Again"):
            ctx.case(("V", e["e"], e["type"], e.get("nb", 0)), True)
            if e["e"] == "Again":
                ctx.cls("K7:refit-after-other-shape-and-same-shape-fits")
            if e["e"] == "Tensor":
                ctx.cls("K1:tensor-%d-blocks" % e["nb"])
        elif e["e"] == "Stat":
            ctx.case(("V", "Stat", e["fn"]), True)
    return cols


def _vacuity(events, kinds, deg):
    """every new class / event kind must really have been recorded"""
    need = ("DegCol", "Deg", "Reset", "Col", "Avg", "Scale", "Cells") if deg else ("Reset", "Col", "Avg", "Scale", "Cells", "Same", "New", "Copy", "Tensor", "Stat", "Again")
    for k in need:
        if kinds[k] == 0:
            raise InfraError("validate direction vacuous: no %s event recorded (%s)" % (k, "deg" if deg else "main"))
    if deg:
        return
    seen = collections.Counter()
    rows = {}
    for e in events:
        if e["e"] == "Reset":
            rows[(e["seed"], e["id"])] = e["r"]
            for t in e.get("tags", []):
                seen[t] += 1
        elif e["e"] == "Col":
            for t in e.get("tags", []):
                seen[t] += 1
                if t in ("K5:const-nonrep", "K5:const-nonrep-missing", "K5:const-nonrep-bigoffset"):
                    seen[(t, e["type"])] += 1
                if t == "K5:const-nonrep":
                    seen[("K5rows", rows[(e["seed"], e["id"])])] += 1
        elif e["e"] == "Stat":
            seen[("Stat", e["fn"])] += 1
    miss = [t for t in ("K5:const-nonrep", "K5:const-nonrep-missing", "K5:const-nonrep-bigoffset") for o in range(1, 6) if seen[(t, o)] == 0 and not (o == 2 and t.endswith("bigoffset"))]
    miss += ["K5 rows %d" % r for r in K5_ROWS if seen[("K5rows", r)] == 0]
    miss += [t for t in ("K5:zero-mean-nonrep", "K5:tied-nonrep", "K5:informative-nonrep", "K1:wide", "K1:square", "K1:tall", "K1:single-column", "K1:n=p+-1",
                         "K2:rows-mult4", "K2:rows-mult4+-1", "K2:rows-60", "K2:cols-20", "K3:offset>=1e5", "K3:mean/sdev>=1e6", "K4:unit-2^10", "K4:unit-2^20",
                         "K7:outputs-presized-holding-other-data", "K8:dup-rows", "K8:dup-col", "K8:ties", "K8:const-among-informative", "K8:zero-mean",
                         "K9:first-row-missing", "K9:last-row-missing") if seen[t] == 0]
    miss += ["Stat %s" % f for f in ("avg", "sdev", "var", "rms", "min", "max") if seen[("Stat", f)] == 0]
    if miss:
        raise InfraError("validate direction vacuous: input classes never recorded: %s" % ", ".join(miss))


def _run_validate(ctx, rd, lib, only=None, deferred=None):
    """only = (seed, nmat, local matrix id, mode): re-record that run and validate just that matrix (replay of a stored violation)"""
    exe = build.build_harness("c10t", ["c10_trace.c"], lib)
    nproc, nmat, ndeg = (4, 72, 36) if ctx.quick else (12, 420, 240)
    jobs = [[os.path.join(rd, "v%d.ndjson" % i), ctx.seed + 101 * i, nmat, "main"] for i in range(nproc)]
    jobs.append([os.path.join(rd, "vdeg.ndjson"), ctx.seed + 7, ndeg, "deg"])
    if only:
        jobs = [[os.path.join(rd, "v0.ndjson"), only[0], only[1], only[3]]]
    blocks = _record(ctx, exe, rd, jobs, deferred)
    if only:
        blocks = [[e for e in ev if e.get("id") == only[2]] for ev in blocks]
    events = [e for b in blocks for e in b]
    kinds = collections.Counter(e["e"] for e in events)
    if not only:
        # a recording driver that a changed library ended early leaves classes / event kinds empty: settled after the trace validation (end of run())
        for m_, d_ in (("main", False), ("deg", True)):
            guard = deferred.guard if deferred is not None else (lambda fn, *a: fn(*a))
            guard(_vacuity, [e for e in events if e["mode"] == m_], collections.Counter(e["e"] for e in events if e["mode"] == m_), d_)
    elif not events:
        raise InfraError("replay: the recording no longer contains that matrix")
    _check_quantifier(events)
    cols = _account(ctx, events)
    for e in events:
        if e["e"] == "Col" and e["hm"] and len(e["d"]) <= 8:
            ctx.sample(dict(direction="validate", **e), 6)
    for e in events:
        if e["e"] == "Col" and "K5:const-nonrep" in e.get("tags", []) and len(e["d"]) <= 10 and e["type"] in (1, 3, 4):
            ctx.sample(dict(direction="validate-K5", **e), 8)
            break

    def on_reject(ev, idx, block):
        sig = _sig_trace(ev)
        col = cols.get((ev.get("seed"), ev.get("mode"), ev.get("id"), ev.get("j")))
        if ev["e"] in EXTRA_KINDS:
            what = {"Stat": "column-statistic routine called directly (%s) does not return the exact statistic of the logged column" % ev.get("fn"),
                    "Deg": "a column with fewer than two present cells (outside the quantifier: its sample spread is undefined) does not come out as finite zeros with finite stored vectors",
                    "DegCol": "degenerate-column event malformed"}[ev["e"]]
            ctx.extra(sig, "%s: %s ; column: %s" % (what, {k: v for k, v in ev.items() if k not in ("seed", "nmat", "mode")}, col and dict(d=col["d"], piv=col["piv"], exp=col["exp"], den=col["den"])))
        else:
            ctx.violation(sig, "recorded %s event is not what the exact statistics of the logged column give: %s ; column: %s" % (ev["e"], ev, col),
                          dict(kind="trace", seed=ev.get("seed"), nmat=ev.get("nmat"), mode=ev.get("mode"), id=ev.get("id"), event=ev, column=col))
        return lambda e: e["e"] not in ("Reset", "Col", "DegCol") and _sig_trace(e) == sig

    # one TLC run per recording process keeps the traces short; run them in parallel
    def val(i):
        sub = _Sub(ctx)
        sub.rejected = 0
        if not blocks[i]:
            return sub
        sub.rejected = trace.check_trace(sub, "TracePreprocess", "Trace_Preprocess.cfg", "Trace_Preprocess_prop.cfg", blocks[i], on_reject, drop="event",
                                         label="trace_preprocess_%s" % ("deg" if jobs[i][3] == "deg" else i), timeout=1500)
        return sub
    order = sorted(range(len(blocks)), key=lambda i: jobs[i][3] != "deg")        # the deg trace needs several rounds: start it first
    rejected = {}
    with ThreadPoolExecutor(5 if ctx.quick else 6) as ex:
        for i, sub in zip(order, ex.map(val, order)):
            sub.merge()
            rejected[i] = sub.rejected
    ctx.traces(kinds["Reset"])
    ctx.steps["validate"] = dict(matrices=kinds["Reset"], columns=kinds["Col"], degenerate_columns=kinds["DegCol"], events=len(events),
                                 direct_statistic_events=kinds["Stat"], refits=kinds["Again"])
    if not only and not deferred:
        _selftests(ctx, blocks, jobs, rejected)


def _selftests(ctx, blocks, jobs, rejected):
    """binding: corrupt one recorded field per event kind / class -> TLC must reject (InfraError otherwise)"""
    main = blocks[0]
    deg = [b for b, j in zip(blocks, jobs) if j[3] == "deg"][0]
    main_clean = rejected.get(0) == 0        # the whole first recording was accepted: every slice of it is

    def slice_around(ev, pred):
        """the Reset block (matrix) that holds the first event satisfying pred"""
        for i, e in enumerate(ev):
            if pred(e):
                lo = i
                while lo > 0 and ev[lo]["e"] != "Reset":
                    lo -= 1
                hi = i + 1
                while hi < len(ev) and ev[hi]["e"] != "Reset":
                    hi += 1
                return ev[lo:hi]
        raise InfraError("binding self-test: no event to corrupt")

    def first(pred, mut):
        def corrupt(ev):
            for e in ev:
                if pred(e):
                    mut(e)
                    return True
            return False
        return corrupt

    k5 = {}
    for e in main:          # (id, j) of constant columns on a non-dyadic grid under options 1, 3, 4: exact zeros demanded
        if e["e"] == "Col" and "K5:const-nonrep" in e.get("tags", []) and e["type"] in (1, 3, 4):
            k5[(e["id"], e["j"])] = True
    isk5 = lambda e: (e.get("id"), e.get("j")) in k5
    tests = [
        ("binding_stat", main, lambda e: e["e"] == "Stat" and e["fn"] == "var", lambda e: e.__setitem__("q", e["q"] + 1)),
        ("binding_again", main, lambda e: e["e"] == "Again", lambda e: e.__setitem__("q", 1000000000)),
        ("binding_k5_cells_nonzero", main, lambda e: e["e"] == "Cells" and isk5(e), lambda e: e.update(zero=0, nz=1, tmax=816496580)),
        ("binding_k5_scale", main, lambda e: e["e"] == "Scale" and isk5(e), lambda e: e.__setitem__("rr", 1000000000)),
        ("binding_k5_unit", main, lambda e: e["e"] == "Col" and isk5(e), lambda e: e.__setitem__("den", 0)),
        ("binding_deg", deg, lambda e: e["e"] == "Deg" and e["zero"] == 1 and e["sfin"] == 1, lambda e: e.__setitem__("zero", 0)),
        ("binding_degcol", deg, lambda e: e["e"] == "DegCol", lambda e: e.__setitem__("d", [1, 2] + e["d"][2:])),
    ]
    if not ctx.quick:
        tests += [
            ("binding_avg", main, lambda e: e["e"] == "Avg", lambda e: e.__setitem__("s1", e["s1"] + 1)),
            ("binding_cells", main, lambda e: e["e"] == "Cells" and not e["zero"], lambda e: e.__setitem__("cnr", 1000000000)),
            ("binding_stat_minmax", main, lambda e: e["e"] == "Stat" and e["fn"] == "max", lambda e: e.__setitem__("q", e["q"] - 1)),
            ("binding_new_missing", main, lambda e: e["e"] == "New" and 99999999 in e["ny"] and not e["zero"], lambda e: e.__setitem__("cn", [c + 1 for c in e["cn"]])),
        ]

    def one(t):
        label, ev, pred, mut = t
        # Deg events the unchanged library already fails (reported as EXTRA above) are left out of the slice
        sl = [e for e in slice_around(ev, pred) if e["e"] != "Deg" or (e["zero"] == 1 and e["sfin"] == 1 and e["fin"] == 1)]
        # the uncorrupted slice must be accepted, otherwise a rejection proves nothing
        if not (ev is main and main_clean):
            ok, n, r = tlc.validate_trace("TracePreprocess", "Trace_Preprocess_prop.cfg", sl)
            if not ok:
                return label, None
        trace.binding_selftest(ctx, "TracePreprocess", "Trace_Preprocess_prop.cfg", sl, first(pred, mut), label)
        return label, True
    with ThreadPoolExecutor(4) as ex:
        for label, ok in ex.map(one, tests):
            if ok is None:
                ctx.note("%s: skipped, the chosen matrix is itself rejected (reported above)" % label)


class _Sub:
    """thread-local stand-in for ctx so that parallel trace validations do not interleave their bookkeeping"""

    def __init__(self, ctx):
        self.ctx = ctx
        self.tlc, self.drifts, self.notes = [], [], []

    def add_tlc(self, r, label=None):
        self.tlc.append((r, label))

    def spec_drift(self, what):
        self.drifts.append(what)

    def note(self, msg):
        self.notes.append(msg)

    def merge(self):
        for r, label in self.tlc:
            self.ctx.add_tlc(r, label)
        for w in self.drifts:
            self.ctx.spec_drift(w)
        for m in self.notes:
            self.ctx.note(m)


def run(ctx):
    ctx.assumptions += [
        "TLC and its CommunityModules evaluate the rational arithmetic of Rat.tla/Preprocess.tla exactly (32-bit overflow raises an error, never wraps)",
        "replay scope: integer matrices rows 2..%s x cols 1..2 over -2..3 with <= 1 MISSING cell, 4 affine images (identity, +-1000 offset, x64 with mean moved into [0.0049,0.0059) at unit 2^-10, its negative), 7 options, units 2^0, 2^-4, 2^20 / 2^-10 / 2^-3" % ("4 (seeded residue-class sample)" if ctx.quick else "5 (1-column shapes exhaustive; 3x2 by residue class 1/8, 4x2 by 1/2048)"),
        "comparison in double by the C driver: 1e-9 relative + 1e-13*max|x| cancellation slack; expected zeros must be exactly 0; stored vectors compared through the rational power of the scale",
        "validate scope: matrices 2..60 x 1..20, cells (pivot + d)*2^-e/q with |d| <= 400, (q = 1, e in {-20,-10,0,4,10}) or (q in {10,3,1000,7,49,100}, e = 0: values not representable), pivots up to 1e6 real units (|pivot| <= 4000 units for RMS scaling so that TLC squares raw values inside 32 bits; <= 1e6 units for informative columns on non-dyadic grids), spreads >= 0.02 or 0, means 0 or >= 1e-3, <= 20 % missing; integer projection of the library's doubles (long double) is trusted harness code",
        "non-dyadic grids: IEEE-754 double arithmetic with round-to-nearest and recursive summation error bounds (Higham): |computed mean - exact| <= (N+1) u |x|max, input rounding u |x| per cell; the bounds of PrepRound.tla are a-priori worst cases (largest observed/bound 0.23 over 2,880 matrices)",
        "zero-scale guard window (PrepGuard.tla): offsets of constant columns <= 1e6, rows <= 60; beyond 1e8 the rounding noise of a Pareto-scaled constant column reaches the 1e-3 threshold",
        "a column with fewer than two present cells has no sample spread: outside the quantifier; the library's NaN there (options 1, 3; option 2 for a wholly MISSING column) is reported as EXTRA-FINDING only; the direct column-statistic routines (incl. MatrixColVar, not used by MatrixPreprocess) likewise",
        "value left at a MISSING cell of the transformed matrix is not constrained by the property (Impl layer only)",
        "ASan/UBSan build: any sanitizer report during replay or recording is a violation",
    ]
    rd = tlc.rundir()
    deferred = Deferred(ctx)
    try:
        lib = build.build_lib("san")
        # (M) theorems on the exhaustive small scope, concurrently with the replay direction
        with ThreadPoolExecutor(1) as ex:
            fut = ex.submit(tlc.run, "Preprocess", "MC_Preprocess_quick.cfg" if ctx.quick else "MC_Preprocess_thorough.cfg",
                            workers=2, timeout=1700, coverage=False, xmx="3g")
            _run_replay(ctx, rd, lib, deferred)
            r = fut.result()
        ctx.add_tlc(r, "mc_preprocess")
        if not r.ok:
            raise InfraError("Preprocess.tla: invariant %s fails in the model itself:\n%s" % (r.violation, r.trace_text[:1500]))
        if r.distinct == 0:
            raise InfraError("Preprocess.tla: no state enumerated")
        ctx.note("model: theorems hold on all %d (matrix, option) cases of the exhaustive scope (%.0fs)" % (r.distinct, r.wall))
        if not ctx.quick:
            # deeper shapes 6 x 1 and 3 x 2 (all options, <= 1 MISSING) by a seeded residue class of 1/16 of the matrices
            cfg = _gen_cfg(rd, "mc_deep.cfg", [61, 32], [0], ALL_TYPES, 16, ctx.seed % 16, 1, 0, emit=False)
            r2 = tlc.run("Preprocess", cfg, workers=4, timeout=1700, coverage=False, xmx="3g")
            ctx.add_tlc(r2, "mc_preprocess_deep")
            if not r2.ok or r2.distinct == 0:
                raise InfraError("Preprocess.tla: invariant %s fails in the model itself (deep shapes, %d states):\n%s" % (r2.violation, r2.distinct, r2.trace_text[:1500]))
            ctx.note("model: theorems hold on %d further cases of shapes 6x1 and 3x2 (residue class %d of 16, %.0fs)" % (r2.distinct, ctx.seed % 16, r2.wall))
        _run_guard(ctx)
        _run_validate(ctx, rd, lib, deferred=deferred)
        ctx.cov["rule"] = ("replay: a case is one (matrix, affine image, option) enumerated by TLC and executed through fit/apply-same/apply-new/tensor at each unit; "
                           "distinct key = (option, rows, cols, image, has zero-scale column, has MISSING); non-trivial = MISSING or zero-scale or 2 columns or a "
                           "non-identity image.  validate: a case is one recorded column / tensor / copy / refit / direct-statistic call; key = (event, option, rows class, "
                           "cols class, unit exponent, dyadic?, constant?, has MISSING, large pivot).  classes: one count per recorded matrix (Reset tags) resp. column "
                           "(Col tags) resp. TLC-enumerated replay case (replay/...), a case can carry several class tags")
        ctx.cov["exhaustive"] = not ctx.quick
        deferred.settle()
    finally:
        shutil.rmtree(rd, ignore_errors=True)


def replay(ctx, body):
    case = body.get("case") or {}
    lib = build.build_lib("san")
    rd = tlc.rundir()
    try:
        if case.get("kind") == "case":
            exe = build.build_harness("c10r", ["c10_replay.c"], lib)
            f, n = _replay_cases(ctx, exe, rd, "replay", [case["case"]])
            ctx.case(("replay", body.get("signature")), True)
            ctx.case(("replay2", body.get("signature")), True)
            ctx.sample(case["case"])
            ctx.note("replayed 1 case: %d library runs, %d failed comparisons" % (n, f))
        elif case.get("kind") == "trace":
            # the recording driver is deterministic in (seed, nmat): re-record on the current tree and validate that matrix only
            _run_validate(ctx, rd, lib, only=(case["seed"], case["nmat"], case.get("id", 0), case.get("mode", "main")))
            ctx.case(("replay2", body.get("signature")), True)
        else:
            run(ctx)
    finally:
        shutil.rmtree(rd, ignore_errors=True)
