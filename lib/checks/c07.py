"""C07 - MLR is ordinary least squares with intercept.

(M)/(GEN)  Mlr.tla (with RatLA.tla): B = Solve([1 X]'[1 X], [1 X]'y) exactly over the rationals by two independent solvers
     (Gauss-Jordan with row exchange; Cramer in integer arithmetic) that must agree, exact fitted values, RSS, TSS, R2, SDEC^2;
     TLC checks on every enumerated case: residuals sum to zero and are orthogonal to every predictor, no competing coefficient
     vector over {-1,0,1} has a smaller RSS, y linear in X is recovered exactly, y -> c*y+d and invertible integer re-mixings of
     the predictors act as they must, 0 <= R2 <= 1.  Quick: every (X, y) in {-2..2}^(3x1) x {-2..2}^3 plus a random sample of
     shapes n 3..5, p 1..2; thorough adds every 4x1 case and a larger sample.
(R)  replay: every generated case is run through MLR() / MLRPredictY(); b, recalculated_y, recalc_residuals, r2y_model, sdec^2 and
     the predictions for two unseen objects are compared with TLC's rationals (1e-9) - in the original units and with X * 2^e,
     y * 2^f + g for (e,f,g) in (-30,0,0), (-20,12,0), (20,-25,0), (0,0,64) (exact in double; results mapped back exactly):
     the fit must not depend on the units.
(V)  validate: c07_drv fits real problems (X 4..50 x 1..10, cond([1 X]) <= 1e4, 1..4 responses, noise 0..dominant, offsets and
     scales), logs normal-equation residuals, coefficients against LAPACK dgels, reported R2/SDEC against their definitions,
     prediction identity on unseen rows, statistics on unseen rows, paired equivariance runs (y -> c*y+d with |c| from 1e-8 to
     1e8, X -> X*diag(s) with s from 1e-8 to 1e8, invertible re-mixing), re-use of the output matrix and
     tiny integer cases; TLC validates every event against TraceMlr.tla (bounds are a function of the logged condition number).
"""
import os, shutil
from vf import build, tlc, trace, ledgerkit
from vf import run as hrun
from vf.core import InfraError

LEVEL = "exploration"
READY = True
TECHNIQUE = ("TLC as exact rational oracle (Mlr.tla / RatLA.tla: every tiny integer regression problem solved exactly, OLS theorems checked on each) "
             "replayed into MLR()/MLRPredictY(), plus TLC trace validation (TraceMlr.tla) of residuals recorded from real problems against LAPACK dgels")
LEVEL_TEXT = ("Exhaustive small-scope core (all 15,000 full-rank problems with X in {-2..2}^(3x1), y in {-2..2}^3; thorough: also every 4x1 problem) and a "
              "random sample of shapes up to 5x2, each solved exactly by TLC and replayed into the library with a 1e-9 comparison; sampled exploration of the "
              "property's real-valued quantifier (cond <= 1e4) with every recorded identity validated by TLC against the ledger.")
LEVEL_NOTE = ("Trusts TLC and the two exact solvers agreeing, LAPACK dgels/dgesdd, the harness's residual evaluation and quantisation (binding self-test), "
              "the rational-vs-double comparison (rationals rounded to the nearest double, tolerance 1e-9). The real-valued part is sampled; the exhaustive part covers tiny integer problems only.")

TOL = 10000
CAP = 1000000000
REL = 1e-9


def _bound(k, amp):
    t = TOL + (k * k) // 5
    return CAP if amp > CAP // t else t * amp


def _sig(ev):
    e, cx = ev.get("e"), ev.get("cx", {})
    where = "case %s %s" % (ev.get("case"), cx)
    if e == "Coef":
        return "MLR:coef", "%s: coefficients of response %d differ from LAPACK dgels by %.3g (relative)" % (where, ev["j"], ev["err"] * 1e-12)
    if e == "Normal":
        return "MLR:normal", "%s: response %d: residuals not orthogonal to [1 X]: %.3g" % (where, ev["j"], ev["err"] * 1e-12)
    if e == "Stat":
        b = _bound(cx.get("kappa", 1), cx.get("amp", 1))
        if ev["sdecgap"] > b:
            return "MLR:sdec", "%s: response %d: reported sdec^2 differs from RSS/n by %.3g of TSS/n" % (where, ev["j"], ev["sdecgap"] * 1e-12)
        if ev["sumres"] > b:
            return "MLR:normal", "%s: response %d: residuals do not sum to zero: %.3g" % (where, ev["j"], ev["sumres"] * 1e-12)
        if ev["residgap"] > TOL:
            return "MLR:residuals", "%s: response %d: recalc_residuals is not the difference of recalculated_y and y: %.3g" % (where, ev["j"], ev["residgap"] * 1e-12)
        return "MLR:r2", "%s: response %d: reported R2 = %.9f, 1 - RSS/TSS = %.9f (gap %.3g)" % (where, ev["j"], ev["r2"] * 1e-9, 1 - ev["rssn"] * 1e-9, ev["r2gap"] * 1e-12)
    if e == "Recover":
        return "MLR:recover", "%s: noise-free response %d is not reproduced: %.3g" % (where, ev["j"], ev["err"] * 1e-12)
    if e == "Pred":
        return "MLR:predict", "%s: MLRPredictY on unseen objects differs from intercept + x.b (shape ok: %d, error %.3g)" % (where, ev["shape"], ev["err"] * 1e-12)
    if e == "NewStat":
        return "MLR:r2:regression-statistics", "%s: MLRRegressionStatistics on unseen objects: R2 gap %.3g, RMSE gap %.3g" % (where, ev["r2gap"] * 1e-12, ev["rmsegap"] * 1e-12)
    if e == "Pair":
        return "MLR:equivariance:%s" % ev["kind"], "%s: paired run (%s): error %.3g" % (where, ev["kind"], ev["err"] * 1e-12)
    if e == "Reuse":
        return "MLR:predict:reused-output", ("%s: MLRPredictY into an output matrix that already holds predictions for a different number of objects: "
                                             "result has the wrong shape / stale rows (shape ok: %d, error %.3g)") % (where, ev["shape"], ev["err"] * 1e-12)
    if e == "Tiny":
        return "MLR:coef:tiny", "%s: tiny integer problem X=%s y=%s: library coefficients (1e-4 units) %s differ from the exact solution" % (where, ev["X"], ev["y"], ev["b4"])
    if e == "Abort":
        return "MLR:fit:abort:rc%s" % ev.get("rc"), "case %s: MLR did not return (rc=%s)" % (ev.get("case"), ev.get("rc"))
    if e == "Shape":
        return "MLR:shape", "%s: model tables have unexpected shapes %s" % (where, ev)
    if e == "Case":
        return "MLR:quantifier", "generated case outside the ledger's quantifier: %s" % ev
    return "MLR:trace:%s" % e, "unexpected event %s" % ev


# ------------------------------------------------------------------------------------------------ (M)/(GEN) + replay
def exact_part(ctx, exe, rd, cfgs, units="all"):
    cases = []
    for cfg, workers, label in cfgs:
        if isinstance(cfg, dict):        # constants computed per run
            cfg = tlc.write_cfg(os.path.join(rd, "%s.cfg" % label), spec="Spec", constants=cfg, invariants=["Theorems"], constraints=["Emit"], deadlock=False)
        r = tlc.run("Mlr", cfg, workers=ledgerkit.par(workers), timeout=2400, coverage=False)
        ctx.add_tlc(r, label)
        if not r.ok:
            raise InfraError("Mlr.tla: theorem %s fails in the exact model itself (%s):\n%s" % (r.violation, cfg, r.trace_text[:2000]))
        if not r.emits:
            raise InfraError("Mlr.tla emitted no case (%s)" % cfg)
        ctx.note("Mlr.tla %s: %d states, %d full-rank cases solved exactly, all OLS theorems hold (%.0fs)" % (label, r.distinct, len(r.emits), r.wall))
        cases += r.emits
    path = os.path.join(rd, "cases.txt")
    with open(path, "w") as f:
        for c in cases:
            f.write("%d %d %s %s %d %s\n" % (c["n"], c["p"], " ".join(str(v) for row in c["X"] for v in row), " ".join(str(v) for v in c["y"]),
                                             len(c["xnew"]), " ".join(str(v) for row in c["xnew"] for v in row)))
    out = os.path.join(rd, "replay.ndjson")
    h = hrun.run(exe, ["--replay", path, out, units], timeout=2400)
    if h.san:
        ctx.violation("MLR:%s" % h.san, "sanitizer report while replaying TLC's tiny cases:\n%s" % h.err[:1500], dict(kind="tiny-all"))
    elif h.rc != 0:
        raise InfraError("c07 replay failed rc=%d: %s" % (h.rc, h.err[-500:]))
    res = hrun.read_ndjson(out)
    seen = set(g["id"] for g in res)
    if len(seen) != len(cases) and not h.san:
        raise InfraError("c07 replay returned results for %d of %d cases" % (len(seen), len(cases)))
    worst, nscaled = 0.0, 0
    exact = {}

    def want_of(c):
        # TLC's rationals as the nearest doubles (the comparison tolerance is 1e-9, seven orders above that rounding)
        return dict(b=[q[0] / q[1] for q in c["b"]], fitted=[q[0] / q[1] for q in c["fitted"]], resid=[q[0] / q[1] for q in c["resid"]],
                    pred=[q[0] / q[1] for q in c["pred"]], sdec2=c["sdec2"][0] / c["sdec2"][1], r2=None if c["tss"][0] == 0 else c["r2"][0] / c["r2"][1])

    def near(x, w):
        return x is not None and abs(x - w) <= REL * max(1.0, abs(w))
    for g in res:
        c = cases[g["id"]]
        if g["id"] not in exact:
            exact[g["id"]] = want_of(c)
            ctx.case(("T", str(c["X"]), str(c["y"])), c["tss"][0] != 0)
        w = exact[g["id"]]
        units_ = (g.get("e", 0), g.get("f", 0), g.get("g", 0))
        scaled = units_ != (0, 0, 0)
        nscaled += scaled
        bad = None
        try:
            checks = [("coef", [row[0] for row in g["b"]], w["b"]),
                      ("predict", [row[0] for row in g["fitted"]], w["fitted"]),
                      ("residuals", [row[0] for row in g["resid"]], w["resid"]),
                      ("predict", [row[0] for row in g["pred"]], w["pred"]),
                      ("sdec", [None if g["sdec"][0] is None else g["sdec"][0] ** 2], [w["sdec2"]])]
            if w["r2"] is not None:
                checks.append(("r2", [g["r2"][0]], [w["r2"]]))
        except (KeyError, IndexError, TypeError):
            checks, bad = [], ("shape", None, None)
        for name, got, want in checks:
            if len(got) != len(want) or not all(near(x, q) for x, q in zip(got, want)):
                bad = (name, got, want)
                break
            for x, q in zip(got, want):
                worst = max(worst, abs(x - q) / max(1.0, abs(q)))
        if bad:
            if scaled:
                ctx.violation("MLR:scale:%s:tiny" % bad[0], "X=%s * 2^%d, y=%s * 2^%d + %g: %s computed by the library (mapped back to the original units) = %s, exact = %s; "
                              "the fit must not depend on the units of X and y" % (c["X"], units_[0], c["y"], units_[1], units_[2], bad[0], bad[1], bad[2]),
                              dict(kind="tiny", X=c["X"], y=c["y"], xnew=c["xnew"], e=units_[0], f=units_[1], g=units_[2]))
            else:
                ctx.violation("MLR:%s:tiny" % bad[0], "X=%s y=%s: %s computed by the library = %s, exact = %s" % (c["X"], c["y"], bad[0], bad[1], bad[2]),
                              dict(kind="tiny", X=c["X"], y=c["y"], xnew=c["xnew"]))
    if nscaled == 0:
        raise InfraError("c07 replay produced no run in other units")
    ctx.cov["exact_case_runs_in_other_units"] = nscaled
    for c in cases[:2] + cases[len(cases) // 2:len(cases) // 2 + 1]:
        ctx.sample(dict(kind="exact case from Mlr.tla", X=c["X"], y=c["y"], b=c["b"], r2=c["r2"], sdec2=c["sdec2"]), 3)
    ctx.cov.setdefault("observed_max", {})["replay_vs_exact_rel"] = worst
    return len(cases)


# ------------------------------------------------------------------------------------------------ validate
def validate_part(ctx, exe, rd, total, parts, only=None):
    if only is not None:
        seed = only["seed"]
        h = hrun.run(exe, [os.path.join(rd, "r.ndjson"), seed, only["idx"], only.get("count", 1)], timeout=600)
        events, maxima = hrun.read_ndjson(os.path.join(rd, "r.ndjson")), {}
        results = [([None, seed, only["idx"], only.get("count", 1)], h)]
    else:
        seed = ctx.seed
        events, maxima, results = ledgerkit.drive(ctx, exe, rd, "c07_", seed, total, parts, timeout=2400)
    ledgerkit.sanitizer_reports(ctx, results, "MLR", lambda j: dict(kind="range", seed=j[1], first=j[2], count=j[3]))
    ledgerkit.annotate(events, ctx_fields=("n", "p", "ny", "noise", "kappa", "amp"))
    cases = [e for e in events if e["e"] == "Case"]
    if not cases:
        raise InfraError("c07 harness produced no Case events")
    kinds = {k: sum(1 for e in events if e["e"] == k) for k in ("Coef", "Normal", "Stat", "Recover", "Pred", "NewStat", "Pair", "Reuse", "Tiny")}
    if only is None and min(kinds.values()) == 0:
        raise InfraError("c07 harness stopped logging some event kind: %s" % kinds)
    for c in cases:
        ctx.case(("V", c["n"], c["p"], c["ny"], c["noise"]), True)
    for b in tlc.split_blocks(events):
        f = [e for e in b if e["e"] == "Case"]
        if not f or any(e["e"] in ("Abort", "Shape") for e in b):
            continue
        f = f[0]
        cnt = {k: sum(1 for e in b if e["e"] == k) for k in ("Coef", "Normal", "Stat", "Pred", "End")}
        if cnt != dict(Coef=f["ny"], Normal=f["ny"], Stat=f["ny"], Pred=1, End=1):
            raise InfraError("c07 harness logged an incomplete block for case %s: %s" % (b[0].get("case"), cnt))
    for b in tlc.split_blocks(events):
        if len(b) < 20 and any(e["e"] == "Tiny" for e in b):
            ctx.sample(dict(case=b[0].get("case"), seed=seed, events=[{k: v for k, v in e.items() if k != "cx"} for e in b[:16]]), 5)
    ctx.cov["events"] = kinds
    ctx.cov.setdefault("observed_max", {}).update(maxima)
    kh = {}
    for c in cases:
        d = len(str(c["kappa"])) - 1
        kh["1e%d" % d] = kh.get("1e%d" % d, 0) + 1
    ctx.cov["condition_number_decades"] = kh
    ctx.cov["tolerance"] = "(1e-8 + 2e-13*kappa^2) * |y|/|y - mean|, capped at 1e-3 (TraceMlr.tla Bound); replay comparison 1e-9 relative"

    def on_reject(ev, idx, block):
        sig, what = _sig(ev)
        ctx.violation(sig, what, dict(kind="case", seed=seed, idx=ev.get("case"), event={k: v for k, v in ev.items() if k != "cx"}))
        return lambda e: e.get("e") == ev.get("e") and _sig(e)[0] == sig and _would_fail(e)
    ledgerkit.check(ctx, "TraceMlr", "Trace_Mlr.cfg", "Trace_Mlr_prop.cfg", events, on_reject, "trace_mlr")
    ctx.traces(len(cases))
    return events


def _would_fail(e):
    k, cx = e.get("e"), e.get("cx", {})
    b = _bound(cx.get("kappa", 1), cx.get("amp", 1))
    if k in ("Coef", "Normal", "Recover"):
        return e["err"] > b
    if k == "Stat":
        return max(e["r2gap"], e["sdecgap"], e["sumres"]) > b or e["residgap"] > TOL or e.get("residsign", 1) != 1 or abs(e["r2"] - (1000000000 - e["rssn"])) > b // 1000 + 2
    if k == "Pred":
        return e["shape"] != 1 or e["err"] > TOL
    if k == "Reuse":
        return e["shape"] != 1 or e["err"] > TOL
    if k == "NewStat":
        return e["r2gap"] > TOL or e["rmsegap"] > TOL
    if k == "Pair":
        return e["err"] > _bound(max(cx.get("kappa", 1), e.get("kappa2", 1)), e.get("amp2", 1))
    return True


def selftests(ctx, events):
    blocks = [b for b in tlc.split_blocks(events) if not any(e["e"] in ("Abort", "Shape") for e in b)]
    ev = [e for b in blocks[:40] for e in b]
    ev = [e for e in ev if not (e["e"] in ("Coef", "Normal", "Stat", "Recover", "Pred", "NewStat", "Pair", "Reuse") and _would_fail(e))]

    def corrupt_normal(evs):
        for e in evs:
            cx = e.get("cx", {})
            if e["e"] == "Normal" and cx.get("kappa", 10 ** 6) <= 100 and cx.get("amp", 10 ** 6) <= 10:      # bound <= 1.2e-7 there
                e["err"] = min(2000000000, max(1, e["err"]) * 1000000)
                return True
        return False

    def corrupt_tiny(evs):
        for e in evs:
            if e["e"] == "Tiny":
                e["b4"][0] += 7
                return True
        return False

    def corrupt_r2(evs):
        for e in evs:
            if e["e"] == "Stat":
                e["r2"] = e["r2"] - 5000000 if e["r2"] > 5000000 else e["r2"] + 5000000      # R2 off by 0.005: no longer 1 - RSS/TSS
                return True
        return False
    trace.binding_selftest(ctx, "TraceMlr", "Trace_Mlr_prop.cfg", ev, corrupt_normal, "binding_normal_x1e6")
    trace.binding_selftest(ctx, "TraceMlr", "Trace_Mlr_prop.cfg", ev, corrupt_r2, "binding_r2_vs_rss")
    trace.binding_selftest(ctx, "TraceMlr", "Trace_Mlr_prop.cfg", ev, corrupt_tiny, "binding_tiny_coefficient")


def run(ctx):
    ctx.assumptions += [
        "exact part: TLC computes B = Solve([1 X]'[1 X], [1 X]'y), fitted values, RSS, TSS, R2, SDEC^2 over the rationals for every enumerated tiny integer problem (two solvers must agree); the comparison of the library's doubles with those rationals (rounded to the nearest double; 1e-9 relative) is done by the check driver, in the original units and in four other unit systems (powers of two, exact)",
        "validate part: residuals are evaluated by the harness in double precision (LAPACK dgels as independent optimum, dgesdd for cond([1 X])) and logged as integers; TLC decides every comparison with a bound (1e-8 + 2e-13*kappa^2)*|y|/|y-mean| (capped 1e-3) calibrated on the unchanged tree (worst observed/bound 7e-3 over 3000 models)",
        "inputs inside the quantifier: n 4..50, p 1..min(10,n-2), cond([1 X]) <= 1e4, responses non-constant; sampled (seeded)",
        "ASan/UBSan build: any sanitizer report is a violation",
    ]
    lib = build.build_lib("san")
    exe = build.build_harness("c07", ["c07_drv.c"], lib)
    rd = tlc.rundir()
    try:
        if ctx.quick:
            n = exact_part(ctx, exe, rd, [("MC_Mlr_quick.cfg", 8, "gen_all_3x1"), ("MC_Mlr_sample.cfg", 6, "gen_sample")])
            events = validate_part(ctx, exe, rd, 600, 8)
        else:
            n = exact_part(ctx, exe, rd, [("MC_Mlr_quick.cfg", 16, "gen_all_3x1"), ] + [
                (dict(Mode="all", NN=4, PP=1, Samples=1, Chains=1, Slice=k), 16, "gen_all_4x1_slice%d" % k) for k in range(1, 6)] + [("MC_Mlr_sample_thorough.cfg", 16, "gen_sample")], units="rot")
            events = validate_part(ctx, exe, rd, 20000, 16)
        ctx.cov["rule"] = ("exact part: every full-rank (X, y) with X in {-2..2}^(3x1), y in {-2..2}^3 (thorough: also 4x1) plus random shapes n 3..5, p 1..2 over the same alphabet, "
                           "each a distinct case keyed by (X, y), non-trivial iff y is not constant; validate part: seeded random problems n 4..50, p 1..min(10,n-2), 1..4 responses, "
                           "noise class 0/5%/70%/600%, column scales 10^[-1.5,1.5], offsets up to 30 spreads, cond([1 X]) <= 1e4, keyed by (n, p, ny, noise class)")
        ctx.cov["exact_cases_replayed"] = n
        try:
            selftests(ctx, events)
        except InfraError as e:
            if not ctx.violations:
                raise
            ctx.note("binding self-test not conclusive on a trace that already carries violations: %s" % e)
    finally:
        shutil.rmtree(rd, ignore_errors=True)


def replay(ctx, body):
    case = body.get("case") or {}
    lib = build.build_lib("san")
    exe = build.build_harness("c07", ["c07_drv.c"], lib)
    rd = tlc.rundir()
    try:
        if case.get("kind") in ("case", "range"):
            idx = case.get("idx", case.get("first"))
            validate_part(ctx, exe, rd, 1, 1, only=dict(seed=case.get("seed", body.get("seed", ctx.seed)), idx=idx, count=case.get("count", 1)))
            ctx.case(("replay", idx))
            ctx.case(("replay2", idx))
        elif case.get("kind") == "tiny":
            # one tiny case: TLC recomputes the exact coefficients from the case itself (Tiny event of the trace spec)
            path = os.path.join(rd, "one.txt")
            X, y, xnew = case["X"], case["y"], case["xnew"]
            with open(path, "w") as f:
                f.write("%d %d %s %s %d %s\n" % (len(X), len(X[0]), " ".join(str(v) for r in X for v in r), " ".join(str(v) for v in y), len(xnew), " ".join(str(v) for r in xnew for v in r)))
            out = os.path.join(rd, "one.ndjson")
            h = hrun.run(exe, ["--replay", path, out, "all"], timeout=120)
            res = [g for g in hrun.read_ndjson(out) if (g.get("e", 0), g.get("f", 0), g.get("g", 0)) == (case.get("e", 0), case.get("f", 0), case.get("g", 0))]
            if h.san or not res:
                ctx.violation("MLR:%s" % (h.san or "crash"), h.err[:1200], case)
            else:
                b4 = [None if r[0] is None else int(round(r[0] * 10000)) for r in res[0]["b"]]
                if any(v is None or abs(v) > 2000000000 for v in b4):
                    ctx.violation("MLR:coef:tiny", "X=%s y=%s: non-finite coefficients %s" % (X, y, res[0]["b"]), case)
                else:
                    ev = [dict(e="Reset", case=0), dict(e="Tiny", X=X, y=y, b4=b4), dict(e="End")]
                    ok, n, r = tlc.validate_trace("TraceMlr", "Trace_Mlr_prop.cfg", ev)
                    ctx.add_tlc(r, "replay_tiny")
                    if not ok:
                        ctx.violation("MLR:coef:tiny", "X=%s y=%s: library coefficients %s differ from the exact solution recomputed by TLC" % (X, y, res[0]["b"]), case)
            ctx.case(("replay", str(X)))
            ctx.case(("replay2", str(y)))
            ctx.sample(case)
            ctx.traces(1)
        else:
            run(ctx)
    finally:
        shutil.rmtree(rd, ignore_errors=True)
