"""C07 - MLR is ordinary least squares with intercept.

(M)/(GEN)  Mlr.tla (definitions in MlrDefs.tla, exact arithmetic in RatLA.tla): B = Solve([1 X]'[1 X], [1 X]'y) exactly over the rationals by two
     independent solvers (Gauss-Jordan with row exchange; Cramer in integer arithmetic) that must agree, exact fitted values, RSS, TSS, R2, SDEC^2;
     TLC checks on every enumerated case: residuals sum to zero and are orthogonal to every predictor, no competing coefficient
     vector over {-1,0,1} has a smaller RSS, y linear in X is recovered exactly, y -> c*y+d and invertible integer re-mixings of
     the predictors act as they must, 0 <= R2 <= 1; TSS in its one-pass and two-pass form agree and do not move with y, predictors moved by a
     constant keep slopes and fitted values (intercept b0 - h.b), the explicit-inverse kernel agrees with Cramer, regression through the origin
     has residuals orthogonal to the predictors.  Quick: every (X, y) in {-2..2}^(3x1) x {-2..2}^3 plus a random sample of
     shapes n 3..5, p 1..2; thorough adds every 4x1 case (with the theorems up to 0 <= R2 <= 1) and a larger sample.
(R)  replay: every generated case is run through MLR() / MLRPredictY(); b, recalculated_y, recalc_residuals, r2y_model, sdec^2 and
     the predictions for two unseen objects are compared with TLC's rationals (1e-9) - in the original units and with X * 2^e,
     y * 2^f + g for (e,f,g) in (-30,0,0), (-20,12,0), (20,-25,0), (0,0,64) (exact in double; results mapped back exactly):
     the fit must not depend on the units.  LOCATION units (class K3, event TinyU): the response moved by H = 2^17 .. 2^30 of its own units and the
     predictors by 24 (all exact in double): TLC (TraceMlr.tla) recomputes the exact R2 / SDEC^2 / coefficients and judges with 1e-8 + 16 eps H.
(V)  validate: c07_drv fits real problems (X 4..50 x 1..10, cond([1 X]) <= 1e4, 1..4 responses, noise 0..dominant, offsets and
     scales), one input class per case (INPUT-CLASSES.md): base, responses at |mean|/sdev 1e2..3e8 (K3), predictors at |mean|/sdev up to 3e3 (K3, as far as
     cond <= 1e4 admits), n = p+1 / p+2 / p = 1 / 50x10x4 (K1), n and p+1 around multiples of 4 / 16 / 32 (K2), whole-input magnitudes 1e-6..1e6 (K4),
     decimal grids with ties and duplicated objects (K5, K8), a response whose SUM is 99999999 (the missing-value code met by an intermediate).
     Logged: normal-equation residuals, coefficients against LAPACK dgels, reported R2/SDEC against their definitions - also against a long double
     two-pass reference of RSS / TSS of the model's own fitted values (tolerance from representability, not from conditioning) -, model ymean,
     prediction identity on unseen rows, statistics on unseen rows, paired equivariance runs (y -> c*y+d with |c| from 1e-8 to
     1e8, y -> y + d with |d| up to 3e8 sdev, X -> X*diag(s) with s from 1e-8 to 1e8, X -> X + h, invertible re-mixing), re-use of the output matrix and
     tiny integer cases; TLC validates every event against TraceMlr.tla (bounds are a function of the logged condition number and offset).
(H)  histories (K7): several fits in ONE process (glibc malloc build AND the ASan build): data and models allocated up front and fits back to back;
     allocate/fit/free loops; multi-response then single-response then other row count; fit - free - fit; direct OrdinaryLeastSquares() on a matrix
     overwritten in place / freed and re-allocated / with another column count / into a reused output vector; MLR() into a used model.  Every fit is
     judged against its own data by the same ledger; MlrHist.tla (a program-shaped model of allocator + kernel with three injectable stale-state
     variants, each of which TLC must refute) generates every history of <= 3 (thorough 5) operations over a catalogue of tiny problems, replayed in one
     process each with TLC recomputing every exact solution.
"""
import os, shutil, copy
from concurrent.futures import ThreadPoolExecutor
from vf import build, tlc, trace, ledgerkit
from vf import run as hrun
from vf.core import InfraError
from checks.deferred import Deferred, crash_signal

LEVEL = "exploration"
READY = True
TECHNIQUE = ("TLC as exact rational oracle (Mlr.tla / MlrDefs.tla / RatLA.tla: every tiny integer regression problem solved exactly, OLS theorems checked on each) "
             "replayed into MLR()/MLRPredictY() in several unit systems incl. responses moved by up to 2^30 units (TLC recomputes R2/SDEC/coefficients), "
             "TLC trace validation (TraceMlr.tla) of residuals recorded from real problems against LAPACK dgels and a long double reference of RSS/TSS, "
             "and a TLA+ model of in-process histories (MlrHist.tla: allocator + least-squares kernel with three stale-state variants TLC must refute) whose histories are replayed into the library")
LEVEL_TEXT = ("Exhaustive small-scope core (all 15,000 full-rank problems with X in {-2..2}^(3x1), y in {-2..2}^3; thorough: also every 4x1 problem) and a "
              "random sample of shapes up to 5x2, each solved exactly by TLC and replayed into the library with a 1e-9 comparison (and in location units judged by TLC); "
              "every history of <= 3 (thorough 5) fits/allocations over a catalogue of 5 tiny problems model-checked and replayed in one process each; sampled exploration of the "
              "property's real-valued quantifier (cond <= 1e4, responses at |mean|/sdev up to 3e8, in-process histories) with every recorded identity validated by TLC against the ledger.")
LEVEL_NOTE = ("Trusts TLC and the two exact solvers agreeing, LAPACK dgels/dgesdd, the harness's residual evaluation, its long double two-pass RSS/TSS (own error bound logged, <= 1e-10) and quantisation (binding self-tests), "
              "the rational-vs-double comparison (rationals rounded to the nearest double, tolerance 1e-9). The real-valued part is sampled; the exhaustive part covers tiny integer problems only. "
              "Input classes left out because the quantifier excludes them: wide or square X (n <= p: [1 X] cannot have full column rank, cond = inf > 1e4); constant or duplicated predictor columns (same reason); "
              "predictors with |mean|/sdev beyond ~3e3 (cond([1 X]) >= |mean|/sdev would pass 1e4); constant responses in the validate part (TSS = 0, R2 undefined; the exact part keeps them and skips R2); "
              "data values within 0.1 of 99999999 and the missing-value class K9 (the library's missing-value code; the property does not speak about missing values) - a SUM of responses equal to the code is inside and is a class; "
              "K6 processor counts (MLR / OrdinaryLeastSquares reach no threaded kernel); K10 labels (none). Responses at |mean|/sdev above 1.5e9/(cond^2+1) are generated only for well-conditioned designs: "
              "beyond that the calibrated first-order bound 2e-13 (cond^2+1) |y|/|y-mean| passes 1e-3 and nothing could be judged (the R2/SDEC identities against the long double reference are judged everywhere). "
              "Address reuse in histories depends on the allocator: measured per run (coverage.classes K7:addr-reused), glibc malloc build only.")

TOL = 10000
CAP = 1000000000
REL = 1e-9
SENT = "K3:moment-at-sentinel"
SIG_SENT = "MLR:coef:moment-equals-missing-code"


def _par(n):
    try:
        w = int(os.environ.get("VERIF_WORKERS") or 8)
    except ValueError:
        w = 8
    return ledgerkit.par(max(1, min(n, w)))


# ---- python mirrors of the tolerance functions of TraceMlr.tla: used ONLY to label a rejected event and to pre-filter the self-test traces
def _bound(k, amp):
    t = TOL + (k * k) // 5
    return CAP if amp > CAP // t else t * amp


def _locsat(k, amp):
    return (amp // 5 + 1) > (CAP - TOL) // (k * k + 1)


def _bound_loc(k, amp):
    return CAP if _locsat(k, amp) else TOL + (k * k + 1) * (amp // 5 + 1)


def _bnd(cx):
    k, a = cx.get("kappa", 1), cx.get("amp", 1)
    return _bound_loc(k, a) if cx.get("loc") == 1 else _bound(k, a)


def _sec(b):
    return (b // 1000000 + 1) ** 2


def _rep_mean(n, off):
    return (n * (off // 1000 + 1)) // 4


def _rep_r2(n, off):
    return ((n * (off // 1000 + 1)) // 9000000 + 1) ** 2 + 2


def _tol9(cx):
    return _bound(cx.get("kappa", 1), cx.get("amp", 1)) // 1000 + 2


def _r2low(cx):
    return 10 + _sec(_bnd(cx)) // 1000 + 2 if cx.get("loc") == 1 else _tol9(cx)


EXTRA_KINDS = ("PredStat", "OlsCase", "Ols", "Refit", "HFit")       # behaviour the specification covers but the statement of C07 does not state


def _sig(ev):
    e, cx = ev.get("e"), ev.get("cx", {})
    where = "case %s %s" % (ev.get("case"), {k: v for k, v in cx.items()})
    if ev.get("hx"):
        where += " history %s" % ev["hx"]
    if ev.get("sentinel_hit"):
        return SIG_SENT, ("%s: the responses sum to 99999999 (no single value is near the missing-value code): Z'y[0] is skipped as 'missing' in the product (Z'Z)^-1 Z'y "
                          "and the coefficients are not the least-squares solution (%s event %s)") % (where, e, {k: v for k, v in ev.items() if k not in ("cx", "hx")})
    if e == "Coef":
        return "MLR:coef", "%s: coefficients of response %d differ from LAPACK dgels by %.3g (relative)" % (where, ev["j"], ev["err"] * 1e-12)
    if e == "Normal":
        return "MLR:normal", "%s: response %d: residuals not orthogonal to [1 X]: %.3g" % (where, ev["j"], ev["err"] * 1e-12)
    if e == "Stat":
        b, n, off = _bnd(cx), cx.get("n", 50), ev.get("off", 0)
        if ev["sdecgap"] > b or ev["sdx"] > TOL + ev["refb"] + _rep_r2(n, off):
            return "MLR:sdec", "%s: response %d: reported sdec^2 differs from RSS/n by %.3g of TSS/n (long double reference: %.3g)" % (where, ev["j"], ev["sdecgap"] * 1e-12, ev["sdx"] * 1e-12)
        if ev["sumres"] > b:
            return "MLR:normal", "%s: response %d: residuals do not sum to zero: %.3g" % (where, ev["j"], ev["sumres"] * 1e-12)
        if ev["residgap"] > TOL:
            return "MLR:residuals", "%s: response %d: recalc_residuals is not the difference of recalculated_y and y: %.3g" % (where, ev["j"], ev["residgap"] * 1e-12)
        if ev["ymgap"] > TOL + _rep_mean(n, off):
            return "MLR:ymean", "%s: response %d: model ymean differs from the column mean by %.3g sdev" % (where, ev["j"], ev["ymgap"] * 1e-12)
        return "MLR:r2", ("%s: response %d (|mean|/sdev = %d): reported R2 = %.9f, 1 - RSS/TSS = %.9f (gap %.3g; against the long double two-pass reference of the model's own "
                          "fitted values: %.3g, tolerance %.3g)") % (where, ev["j"], off, ev["r2"] * 1e-9, 1 - ev["rssn"] * 1e-9, ev["r2gap"] * 1e-12, ev["r2x"] * 1e-12, (TOL + ev["refb"] + _rep_r2(n, off)) * 1e-12)
    if e == "Recover":
        return "MLR:recover", "%s: noise-free response %d is not reproduced: %.3g" % (where, ev["j"], ev["err"] * 1e-12)
    if e == "Pred":
        return "MLR:predict", "%s: MLRPredictY on unseen objects differs from intercept + x.b (shape ok: %d, error %.3g)" % (where, ev["shape"], ev["err"] * 1e-12)
    if e == "NewStat":
        return "MLR:r2:regression-statistics", "%s: MLRRegressionStatistics on unseen objects: R2 gap %.3g, RMSE gap %.3g" % (where, ev["r2gap"] * 1e-12, ev["rmsegap"] * 1e-12)
    if e == "PredStat":
        return "MLR:predict:statistics", ("%s: R2 / SDEP reported by MLRPredictY for unseen objects differ from 1 - RSS/TSS(about the training mean) / sqrt(RSS/m): R2 gap %.3g, SDEP^2 gap %.3g"
                                          % (where, ev["r2gap"] * 1e-12, ev["sdgap"] * 1e-12))
    if e == "Pair":
        if ev["kind"] == "shift":
            return "MLR:equivariance:shift", ("%s: paired run y -> y + d (|mean|/sdev = %s): fitted / predictions / coefficients / SDEC moved by %.3g, R2 changed by %.3g"
                                              % (where, ev.get("off2"), ev["err"] * 1e-12, ev["r2d"] * 1e-12))
        return "MLR:equivariance:%s" % ev["kind"], "%s: paired run (%s): error %.3g" % (where, ev["kind"], ev["err"] * 1e-12)
    if e == "Reuse":
        return "MLR:predict:reused-output", ("%s: MLRPredictY into an output matrix that already holds predictions for a different number of objects: "
                                             "result has the wrong shape / stale rows (shape ok: %d, error %.3g)") % (where, ev["shape"], ev["err"] * 1e-12)
    if e == "Tiny":
        return "MLR:coef:tiny", "%s: tiny integer problem X=%s y=%s: library coefficients (1e-4 units) %s differ from the exact solution" % (where, ev["X"], ev["y"], ev["b4"])
    if e == "TinyU":
        return "MLR:location:tiny", ("tiny integer problem X=%s (+%d) y=%s moved by H=%d response units: library R2 = %.9f, SDEC^2 = %.8f, coefficients (1e-4 units) %s differ from the exact "
                                     "values recomputed by TLC beyond 1e-8 + 16 eps H") % (ev["X"], ev["hx"], ev["y"], ev["H"], ev["r2"] * 1e-9, ev["sd2"] * 1e-8, ev["b4"])
    if e == "Hist":
        return "MLR:trace:history-bookkeeping", "history event inconsistent with the recorded shapes / digests: %s" % {k: v for k, v in ev.items() if k != "cx"}
    if e in ("OlsCase", "Ols"):
        return "OLS:direct", "%s: direct OrdinaryLeastSquares() call: shape ok %s, coefficients differ from LAPACK by %.3g, normal equations %.3g" % (
            where, ev.get("shape"), ev.get("err", 0) * 1e-12, ev.get("nerr", 0) * 1e-12)
    if e == "Refit":
        return "MLR:refit:model-not-reset", ("MLR() into a model that already holds a fit does not give the model of the new data: b has %s columns for %s responses, r2y_model %s entries "
                                             "(the tables are appended to, the first columns keep the previous fit)") % (ev.get("bcol"), ev.get("ny"), ev.get("r2n"))
    if e == "Abort":
        return "MLR:fit:abort:rc%s" % ev.get("rc"), "case %s: MLR did not return (rc=%s)" % (ev.get("case"), ev.get("rc"))
    if e == "Shape":
        return "MLR:shape", "%s: model tables have unexpected shapes %s" % (where, ev)
    if e == "Case":
        return "MLR:quantifier", "generated case outside the ledger's quantifier: %s" % ev
    return "MLR:trace:%s" % e, "unexpected event %s" % ev


def _would_fail(e):
    k, cx = e.get("e"), e.get("cx", {})
    b = _bnd(cx)
    n = cx.get("n", 50)
    if k in ("Coef", "Normal", "Recover"):
        return e["err"] > b
    if k == "Stat":
        off = e.get("off", 0)
        return (max(e["r2gap"], e["sdecgap"], e["sumres"]) > b or e["residgap"] > TOL or e.get("residsign", 1) != 1 or abs(e["r2"] - (1000000000 - e["rssn"])) > _tol9(cx)
                or e["r2"] < -_r2low(cx) or e["r2"] > 1000000000 + _tol9(cx) or e["refb"] > 100
                or max(e["r2x"], e["sdx"]) > TOL + e["refb"] + _rep_r2(n, off) or e["ymgap"] > TOL + _rep_mean(n, off))
    if k == "Pred":
        return e["shape"] != 1 or e["err"] > TOL
    if k == "Reuse":
        return e["shape"] != 1 or e["err"] > TOL
    if k == "NewStat":
        return e["r2gap"] > TOL or e["rmsegap"] > TOL
    if k == "PredStat":
        return e["r2gap"] > TOL + _rep_r2(n, e.get("off", 0)) or e["sdgap"] > TOL
    if k == "Pair":
        if e["kind"] == "shift":
            bl = _bound_loc(cx.get("kappa", 1), e["amp2"])
            return _locsat(cx.get("kappa", 1), e["amp2"]) or e["err"] > bl or e["r2d"] > TOL + _sec(bl) + e["amp2"] // 500 + 2
        return e["err"] > _bound(max(cx.get("kappa", 1), e.get("kappa2", 1)), e.get("amp2", 1))
    if k == "Ols":
        return e["shape"] != 1 or max(e["err"], e["nerr"]) > b
    if k == "Refit":
        return e["shape"] != 1 or e["err"] > _bound(e["kappa"], e["amp"])
    return True


JUDGED = ("Coef", "Normal", "Stat", "Recover", "Pred", "NewStat", "PredStat", "Pair", "Reuse", "Ols", "Refit")


def _annotate(events, build_name=None):
    ledgerkit.annotate(events, ctx_fields=("n", "p", "ny", "noise", "kappa", "amp", "cls", "loc", "off", "xoff"))
    hx = None
    for ev in events:
        e = ev.get("e")
        if e == "Reset":
            hx = None
        elif e == "Hist":
            hx = dict(h=ev["h"], step=ev["step"], pat=ev["pat"], rel=ev["rel"], same=ev["same"], build=build_name)
        elif e == "OlsCase":
            hx = dict(h=ev["h"], step=ev["step"], what=ev["what"], samex=ev["samex"], build=build_name)
            ev["cx"] = dict(n=ev["n"], p=ev["k"] - ev["icpt"], kappa=ev["kappa"], amp=ev["amp"], loc=0, cls="K7:direct-ols")
        elif e == "Ols" and hx:
            pass
        if hx is not None and e not in ("Reset",):
            ev["hx"] = hx
    # the Ols event needs the context of its OlsCase
    cx = None
    for ev in events:
        if ev.get("e") == "OlsCase":
            cx = ev["cx"]
        elif ev.get("e") == "Reset":
            cx = None
        elif ev.get("e") == "Ols" and cx:
            ev["cx"] = cx
    return events


def _classes_of_case(c):
    """input-class tags (INPUT-CLASSES.md) of one executed case, from its Case event"""
    tags = []
    cls = c.get("cls", "base")
    if cls == "K5K8:grid-dup":
        tags += ["K5:decimal-grid-ties", "K8:duplicate-objects"]
    elif cls.startswith("K"):
        tags.append(cls)
    n, p, ny = c["n"], c["p"], c["ny"]
    if p == 1:
        tags.append("K1:p=1")
    if n == p + 1:
        tags.append("K1:n=p+1")
    if n == p + 2:
        tags.append("K1:n=p+2")
    tags.append("K1:ny=1" if ny == 1 else "K1:ny>1")
    tags.append("K2:n%%4=%d" % (n % 4))
    if n in (15, 16, 17, 31, 32, 33, 47, 48, 49):
        tags.append("K2:n=16k+-1")
    tags.append("K2:(p+1)%%4=%d" % ((p + 1) % 4))
    off, xoff = c.get("off", 0), c.get("xoff", 0)
    for lim, name in ((100000, "1e5"), (10000000, "1e7"), (100000000, "1e8")):
        if off >= lim:
            tags.append("K3:resp-offset>=%s" % name)
    if xoff >= 100:
        tags.append("K3:pred-offset>=1e2")
    if xoff >= 1000:
        tags.append("K3:pred-offset>=1e3")
    return tags


# ------------------------------------------------------------------------------------------------ (M)/(GEN) + replay
def exact_part(ctx, exe, rd, cfgs, units="all", loc_full=4000, loc_stride=5, deferred=None):
    deferred = Deferred(ctx) if deferred is None else deferred
    cases = []
    lines = []
    nfirst = None
    for cfg, workers, label in cfgs:
        if isinstance(cfg, dict):        # constants computed per run
            cfg = tlc.write_cfg(os.path.join(rd, "%s.cfg" % label), spec="Spec", constants=cfg, invariants=["Theorems"], constraints=["Emit"], deadlock=False)
        r = tlc.run("Mlr", cfg, workers=_par(workers), timeout=2400, coverage=False)
        ctx.add_tlc(r, label)
        if not r.ok:
            raise InfraError("Mlr.tla: theorem %s fails in the exact model itself (%s):\n%s" % (r.violation, cfg, r.trace_text[:2000]))
        if not r.emits:
            raise InfraError("Mlr.tla emitted no case (%s)" % cfg)
        ctx.note("Mlr.tla %s: %d states, %d full-rank cases solved exactly, all OLS theorems hold (%.0fs)" % (label, r.distinct, len(r.emits), r.wall))
        if label == "gen_sample":
            nfirst = len(cases)
        cases += r.emits
    if nfirst is None:
        nfirst = len(cases)
    path = os.path.join(rd, "cases.txt")
    nloc = 0
    with open(path, "w") as f:
        for i, c in enumerate(cases):
            # location units: the first loc_full sampled cases (random shapes up to 5x2) in all of them, the other sampled ones and every loc_stride-th enumerated one in one unit each (rotating)
            loc = 0 if c["tss"][0] == 0 else (2 if nfirst <= i < nfirst + loc_full else (1 if i >= nfirst or i % loc_stride == 0 else 0))
            nloc += loc > 0
            lines.append("%d %d %s %s %d %s %d\n" % (c["n"], c["p"], " ".join(str(v) for row in c["X"] for v in row), " ".join(str(v) for v in c["y"]),
                                                     len(c["xnew"]), " ".join(str(v) for row in c["xnew"] for v in row), loc))
            f.write(lines[-1])
    out, evout = os.path.join(rd, "replay.ndjson"), os.path.join(rd, "replay_loc.ndjson")
    h = hrun.run(exe, ["--replay", path, out, units, evout], timeout=2400)
    if h.san:
        ctx.violation("MLR:%s" % h.san, "sanitizer report while replaying TLC's tiny cases:\n%s" % h.err[:1500], dict(kind="tiny-all"))
    res = hrun.read_ndjson(out)
    if h.rc != 0 and not h.san:
        # the replay runs every tiny case in ONE process: a library that aborts on one of them ends it.  The case is located by running the cases that follow the
        # last complete result line one by one (each in its own process); the results written so far are still compared below
        if not (crash_signal(h.rc) and _locate_tiny_crash(ctx, exe, rd, cases, lines, max([g["id"] for g in res] + [0]))):
            deferred.add("c07 replay failed rc=%d: %s" % (h.rc, h.err[-500:]))
    seen = set(g["id"] for g in res)
    if len(seen) != len(cases) and not h.san and h.rc == 0:
        raise InfraError("c07 replay returned results for %d of %d cases" % (len(seen), len(cases)))
    worst, nscaled = 0.0, 0
    exact = {}
    clsn = {}

    def want_of(c):
        # TLC's rationals as the nearest doubles (the comparison tolerance is 1e-9, seven orders above that rounding)
        return dict(b=[q[0] / q[1] for q in c["b"]], fitted=[q[0] / q[1] for q in c["fitted"]], resid=[q[0] / q[1] for q in c["resid"]],
                    pred=[q[0] / q[1] for q in c["pred"]], sdec2=c["sdec2"][0] / c["sdec2"][1], r2=None if c["tss"][0] == 0 else c["r2"][0] / c["r2"][1])

    def near(x, w):
        return x is not None and abs(x - w) <= REL * max(1.0, abs(w))
    for g in res:
        c = cases[g["id"]]
        if g["id"] not in exact:
            exact[g["id"]] = want_of(c)
            ctx.case(("T", str(c["X"]), str(c["y"])), c["tss"][0] != 0)
            if c["tss"][0] == 0:
                clsn["K8:constant-response(exact part, R2 skipped)"] = clsn.get("K8:constant-response(exact part, R2 skipped)", 0) + 1
            if len(set(tuple(r) for r in c["X"])) < len(c["X"]):
                clsn["K8:duplicate-rows(exact part)"] = clsn.get("K8:duplicate-rows(exact part)", 0) + 1
        w = exact[g["id"]]
        units_ = (g.get("e", 0), g.get("f", 0), g.get("g", 0))
        scaled = units_ != (0, 0, 0)
        nscaled += scaled
        if scaled:
            clsn[units_] = clsn.get(units_, 0) + 1
        bad = None
        try:
            checks = [("coef", [row[0] for row in g["b"]], w["b"]),
                      ("predict", [row[0] for row in g["fitted"]], w["fitted"]),
                      ("residuals", [row[0] for row in g["resid"]], w["resid"]),
                      ("predict", [row[0] for row in g["pred"]], w["pred"]),
                      ("sdec", [None if g["sdec"][0] is None else g["sdec"][0] ** 2], [w["sdec2"]])]
            if w["r2"] is not None:
                checks.append(("r2", [g["r2"][0]], [w["r2"]]))
        except (KeyError, IndexError, TypeError):
            checks, bad = [], ("shape", None, None)
        for name, got, want in checks:
            if len(got) != len(want) or not all(near(x, q) for x, q in zip(got, want)):
                bad = (name, got, want)
                break
            for x, q in zip(got, want):
                worst = max(worst, abs(x - q) / max(1.0, abs(q)))
        if bad:
            if scaled:
                ctx.violation("MLR:scale:%s:tiny" % bad[0], "X=%s * 2^%d, y=%s * 2^%d + %g: %s computed by the library (mapped back to the original units) = %s, exact = %s; "
                              "the fit must not depend on the units of X and y" % (c["X"], units_[0], c["y"], units_[1], units_[2], bad[0], bad[1], bad[2]),
                              dict(kind="tiny", X=c["X"], y=c["y"], xnew=c["xnew"], e=units_[0], f=units_[1], g=units_[2]))
            else:
                ctx.violation("MLR:%s:tiny" % bad[0], "X=%s y=%s: %s computed by the library = %s, exact = %s" % (c["X"], c["y"], bad[0], bad[1], bad[2]),
                              dict(kind="tiny", X=c["X"], y=c["y"], xnew=c["xnew"]))
    for k, v in clsn.items():
        ctx.cls(k if isinstance(k, str) else "K4:units 2^%d,2^%d,+%g (exact part)" % k, v)
    if nscaled == 0:
        if h.rc == 0:
            raise InfraError("c07 replay produced no run in other units")
        deferred.add("c07 replay produced no run in other units")
    ctx.cov["exact_case_runs_in_other_units"] = nscaled
    for c in cases[:2] + cases[len(cases) // 2:len(cases) // 2 + 1]:
        ctx.sample(dict(kind="exact case from Mlr.tla", X=c["X"], y=c["y"], b=c["b"], r2=c["r2"], sdec2=c["sdec2"]), 3)
    ctx.cov.setdefault("observed_max", {})["replay_vs_exact_rel"] = worst
    # ---- location units: judged by TLC (TinyU)
    tu = hrun.read_ndjson(evout)
    if nloc and not tu and not h.san:
        if h.rc == 0:
            raise InfraError("c07 replay wrote no TinyU event although %d cases asked for location units" % nloc)
        deferred.add("c07 replay wrote no TinyU event although %d cases asked for location units" % nloc)
    tinyu_part(ctx, tu)
    return len(cases), tu


def _locate_tiny_crash(ctx, exe, rd, cases, lines, start, span=64):
    """which of TLC's tiny cases ends the replay process?  -> True when one was found (reported with the module's crash signature and its own replay)"""
    for i in range(start, min(len(cases), start + span)):
        path = os.path.join(rd, "one_case.txt")
        with open(path, "w") as f:
            t = lines[i].split()
            f.write(" ".join(t[:-1] + ["2" if t[-1] != "0" else "0"]) + "\n")          # alone in its file the case has id 0: ask for every location unit instead of the rotating one
        h1 = hrun.run(exe, ["--replay", path, os.path.join(rd, "one_out.ndjson"), "all", os.path.join(rd, "one_ev.ndjson")], timeout=120)
        if h1.san or crash_signal(h1.rc):
            c = cases[i]
            ctx.violation("MLR:%s" % (h1.san or "crash"), "X=%s y=%s: the library did not return on this tiny case of Mlr.tla (%s; it ended the replay of all cases):\n%s" % (
                c["X"], c["y"], h1.san or crash_signal(h1.rc), h1.err[-800:]), dict(kind="tiny", X=c["X"], y=c["y"], xnew=c["xnew"]))
            return True
    return False


def tinyu_part(ctx, tu, label="trace_tinyu"):
    if not tu:
        return
    clsn = {}
    for e in tu:
        ctx.case(("TU", str(e["X"]), str(e["y"]), e["u"]), True)
        k = (e["H"].bit_length() - 1, bool(e["hx"]))
        clsn[k] = clsn.get(k, 0) + 1
    for k, v in clsn.items():
        ctx.cls("K3:exact-response-moved-by-2^%d%s" % (k[0], "+pred-moved" if k[1] else ""), v)
    per = 2500
    chunks = [[dict(e="Reset", case=3000000 + i)] + tu[i:i + per] + [dict(e="End")] for i in range(0, len(tu), per)]
    with ThreadPoolExecutor(_par(4)) as ex:
        results = list(ex.map(lambda ch: tlc.validate_trace("TraceMlr", "Trace_Mlr_prop.cfg", ch, timeout=1800), chunks))
    for i, (ch, (ok, n, r)) in enumerate(zip(chunks, results)):
        ctx.add_tlc(r, "%s_%d" % (label, i))
        if ok:
            continue

        def on_reject(ev, idx, block):
            sig, what = _sig(ev)
            ctx.violation(sig, what, dict(kind="tinyu", X=ev.get("X"), y=ev.get("y"), u=ev.get("u")))
            return lambda e: e.get("e") == "TinyU"       # one witness per chunk is enough: the rest of the chunk is not re-examined
        trace.check_trace(ctx, "TraceMlr", "Trace_Mlr_prop.cfg", "Trace_Mlr_prop.cfg", ch, on_reject, drop="event", label="%s_%d_r" % (label, i))
    ctx.traces(len(tu))
    ctx.cov["location_unit_runs_judged_by_tlc"] = ctx.cov.get("location_unit_runs_judged_by_tlc", 0) + len(tu)


# ------------------------------------------------------------------------------------------------ validate
def _mark_sentinel(events):
    """cases of the class 'sum of the responses = 99999999' whose COEFFICIENTS are wrong: every rejected event of such a case is the same defect"""
    bad = set(e.get("case") for e in events if e.get("e") == "Coef" and e.get("cx", {}).get("cls") == SENT and _would_fail(e))
    for e in events:
        if e.get("case") in bad and e.get("e") in JUDGED:
            e["sentinel_hit"] = 1
    return bad


def _reject_handler(ctx, replay_of, events=()):
    """on_reject for trace.check_trace: violations for what the statement covers, EXTRA-FINDING for the rest; returns the duplicate filter"""
    bad = _mark_sentinel(events)

    def on_reject(ev, idx, block):
        sig, what = _sig(ev)
        if sig == SIG_SENT:
            ctx.violation(sig, what, replay_of(ev))
            return lambda e: e.get("case") in bad
        if ev.get("e") == "Hist":
            # the Hist line only carries the harness's own bookkeeping (shapes, digests, relation to the previous fit of the history) for TLC to re-derive;
            # it says nothing about the library. A mismatch (seen once under VERIF_SEED=2, thorough tier: a history cut by the chunking of the recording, the
            # single-case replay is accepted) is counted and noted, never a verdict.
            ctx.steps["hist_bookkeeping_mismatch"] = ctx.steps.get("hist_bookkeeping_mismatch", 0) + 1
            ctx.note("history bookkeeping line not re-derivable by TLC (no verdict): %s" % what[:300])
        elif ev.get("e") in EXTRA_KINDS:
            ctx.extra(sig, what)
        else:
            ctx.violation(sig, what, replay_of(ev))
        return lambda e: e.get("e") == ev.get("e") and _sig(e)[0] == sig and _would_fail(e)
    return on_reject


def validate_part(ctx, exe, rd, total, parts, only=None, deferred=None):
    deferred = Deferred(ctx) if deferred is None else deferred
    if only is not None:
        seed = only["seed"]
        h = hrun.run(exe, [os.path.join(rd, "r.ndjson"), seed, only["idx"], only.get("count", 1)], timeout=600)
        events, maxima = hrun.read_ndjson(os.path.join(rd, "r.ndjson")), {}
        results = [([None, seed, only["idx"], only.get("count", 1)], h)]
    else:
        seed = ctx.seed
        events, maxima, results = ledgerkit.drive(ctx, exe, rd, "c07_", seed, total, parts, timeout=2400, workers=_par(8))
    ledgerkit.sanitizer_reports(ctx, results, "MLR", lambda j: dict(kind="range", seed=j[1], first=j[2], count=j[3]))
    _annotate(events)
    cases = [e for e in events if e["e"] == "Case"]
    if not cases:
        deferred.add("c07 harness produced no Case events")
    kinds = {k: sum(1 for e in events if e["e"] == k) for k in ("Coef", "Normal", "Stat", "Recover", "Pred", "PredStat", "NewStat", "Pair", "Reuse", "Tiny")}
    pairs = {}
    for e in events:
        if e["e"] == "Pair":
            pairs[e["kind"]] = pairs.get(e["kind"], 0) + 1
    # vacuity findings are judged after the trace validation: fits that die on a changed tree (Abort) leave these counts empty
    if only is None and min(kinds.values()) == 0:
        deferred.add("c07 harness stopped logging some event kind: %s" % kinds)
    if only is None and set(pairs) != {"affine", "shift", "xscale", "xshift", "remix"}:
        deferred.add("c07 harness stopped running some kind of paired run: %s" % pairs)
    clsn = {}
    for c in cases:
        ctx.case(("V", c["n"], c["p"], c["ny"], c["noise"], c.get("cls")), True)
        clsn[c.get("cls")] = clsn.get(c.get("cls"), 0) + 1
        for t in _classes_of_case(c):
            ctx.cls(t)
    for k, v in pairs.items():
        ctx.cls({"shift": "K3:paired-run response moved by up to 3e8 sdev", "xshift": "K3:paired-run predictors moved", "xscale": "K4:paired-run predictor units 1e-8..1e8",
                 "affine": "K4:paired-run response units 1e-8..1e8", "remix": "paired-run predictors re-mixed"}[k], v)
    if only is None:
        missing = [k for k in ("base", "K3:resp-offset", "K3:pred-offset", "K1:saturated", "K2:block-edge", "K4:magnitude", "K5K8:grid-dup", SENT) if not clsn.get(k)]
        if missing:
            deferred.add("c07 harness generated no case of class %s (%s)" % (missing, clsn))
        if not any(c.get("off", 0) >= 100000000 for c in cases) or not any(c["n"] == c["p"] + 1 for c in cases):
            deferred.add("c07 harness reached no response at |mean|/sdev >= 1e8 or no saturated case")
    for b in tlc.split_blocks(events):
        f = [e for e in b if e["e"] == "Case"]
        if not f or any(e["e"] in ("Abort", "Shape") for e in b):
            continue
        f = f[0]
        cnt = {k: sum(1 for e in b if e["e"] == k) for k in ("Coef", "Normal", "Stat", "Pred", "End")}
        if cnt != dict(Coef=f["ny"], Normal=f["ny"], Stat=f["ny"], Pred=1, End=1):
            raise InfraError("c07 harness logged an incomplete block for case %s: %s" % (b[0].get("case"), cnt))
    for b in tlc.split_blocks(events):
        if len(b) < 24 and any(e["e"] == "Tiny" for e in b):
            ctx.sample(dict(case=b[0].get("case"), seed=seed, events=[{k: v for k, v in e.items() if k != "cx"} for e in b[:16]]), 5)
    ctx.cov["events"] = kinds
    ctx.cov["paired_runs"] = pairs
    ctx.cov["validate_cases_per_class"] = clsn
    ctx.cov.setdefault("observed_max", {}).update(maxima)
    kh, oh = {}, {}
    for c in cases:
        d = len(str(c["kappa"])) - 1
        kh["1e%d" % d] = kh.get("1e%d" % d, 0) + 1
    for e in events:
        if e["e"] == "Stat":
            d = len(str(e["off"])) - 1
            oh["1e%d" % d] = oh.get("1e%d" % d, 0) + 1
    ctx.cov["condition_number_decades"] = kh
    ctx.cov["response_offset_decades(|mean|/sdev, per fitted response)"] = oh
    ctx.cov["tolerance"] = ("first order: (1e-8 + 2e-13*kappa^2) * |y|/|y - mean|, capped at 1e-3 (TraceMlr.tla Bound); location class: 1e-8 + 2e-13*(kappa^2+1)*|y|/|y-mean| (BoundLoc, never generated saturated); "
                            "R2/SDEC^2 against the long double two-pass reference: 1e-8 + reference bound + (n eps off)^2; R2 under a response shift: 1e-8 + BoundLoc^2 + 8 eps amp; "
                            "exact location units: 1e-8 + 16 eps H; replay comparison 1e-9 relative")

    def replay_of(ev):
        return dict(kind="case", seed=seed, idx=ev.get("case"), event={k: v for k, v in ev.items() if k not in ("cx", "hx")})
    if events:
        ledgerkit.check(ctx, "TraceMlr", "Trace_Mlr.cfg", "Trace_Mlr_prop.cfg", events, _reject_handler(ctx, replay_of, events), "trace_mlr")
    ctx.traces(len(cases))
    return events


# ------------------------------------------------------------------------------------------------ histories (K7)
REL_CLASS = {"same-shape": "K7:same-shape-other-data", "other-shape": "K7:other-shape", "again": "K7:earlier-problem-again", "same-cols": "K7:same-columns-other-rows",
             "same-data": "K7:same-data-again"}


def history_part(ctx, exes, rd, nhist, only=None, deferred=None):
    deferred = Deferred(ctx) if deferred is None else deferred
    """real-valued histories on both builds; every fit block is validated like a single fit, Refit blocks separately (EXTRA)"""
    allev = []
    for bname, exe in exes.items():
        if only is not None and only.get("build") not in (None, bname):
            continue
        first, count = (only["h"], 1) if only is not None else (0, nhist)
        seed = only["seed"] if only is not None else ctx.seed
        per = (count + 3) // 4
        jobs = [["--hist", os.path.join(rd, "hist_%s_%d.ndjson" % (bname, i)), seed, first + i * per, min(per, count - i * per)] for i in range(4) if i * per < count]
        res = hrun.run_many(exe, jobs, timeout=1200, workers=_par(4))
        events = []
        for j, h in zip(jobs, res):
            if h.timed_out:
                raise InfraError("c07 history driver timed out (%s)" % bname)
            if h.san:
                ctx.violation("MLR:%s" % h.san, "sanitizer report in in-process histories %s..+%s:\n%s" % (j[3], j[4], h.err[:1500]), dict(kind="hist", seed=seed, h=j[3], count=j[4], build=bname))
            elif h.rc != 0:
                raise InfraError("c07 history driver failed rc=%d (%s): %s" % (h.rc, bname, h.err[-500:]))
            events += hrun.read_ndjson(j[1])
        _annotate(events, bname)
        hist = [e for e in events if e["e"] == "Hist"]
        ols = [e for e in events if e["e"] == "OlsCase"]
        refit = [e for e in events if e["e"] == "Refit"]
        if only is None and (not hist or not ols or not refit):
            deferred.add("c07 history driver (%s) logged no Hist / OlsCase / Refit event: %d %d %d" % (bname, len(hist), len(ols), len(refit)))
        for e in hist:
            ctx.case(("H", bname, e["h"], e["step"]), True)
            if e["rel"] in REL_CLASS:
                ctx.cls(REL_CLASS[e["rel"]] + "(%s)" % bname)
            if e["same"] == 1:
                ctx.cls("K7:addr-reused(%s)" % bname)
                if e["rel"] in ("same-shape", "same-cols", "again"):
                    ctx.cls("K7:addr-reused+same-columns+other-data(%s)" % bname)
            if e.get("note") == "data-overwritten-in-place":
                ctx.cls("K7:user-data-overwritten-in-place(%s)" % bname)
            if e["pat"] == 2 and e["step"] == 1:
                ctx.cls("K7:multi-response-then-single(%s)" % bname)
        for e in ols:
            ctx.case(("O", bname, e["h"], e["step"]), True)
            ctx.cls("K7:direct-ols:%s%s(%s)" % (e["what"], "+same-address" if e["samex"] else "", bname))
        for e in refit:
            ctx.cls("K7:refit-into-used-model(%s)" % bname)
        if only is None and bname == "plain":
            # measured, not assumed: it depends on the allocator AND on the allocation pattern of the library under test, so it is reported, never an error
            reached = sum(1 for e in hist if e["same"] == 1 and e["rel"] in ("same-shape", "same-cols"))
            ctx.cov["k7_same_width_fit_at_address_of_previous_design_matrix"] = reached
            if not reached:
                ctx.note("no history of the glibc build re-used the address of the previous design matrix for a same-width problem in this run (allocator / allocation pattern changed): that sub-class of K7 was not reached")
        # Refit blocks apart (behaviour the statement does not cover)
        blocks = tlc.split_blocks(events)
        main = [e for b in blocks if not any(x["e"] == "Refit" for x in b) for e in b]
        rf = [e for b in blocks if any(x["e"] == "Refit" for x in b) for e in b]
        if rf:
            ok, n, r = tlc.validate_trace("TraceMlr", "Trace_Mlr_prop.cfg", rf)
            ctx.add_tlc(r, "trace_refit_%s" % bname)
            if not ok and n < len(rf):
                sig, what = _sig(rf[n])
                ctx.extra(sig, what)

        def replay_of(ev, bname=bname, seed=seed):
            hh = (ev.get("hx") or {}).get("h")
            if hh is None and ev.get("case") is not None:
                hh = (ev["case"] - 1000000) // 16
            return dict(kind="hist", seed=seed, h=hh, build=bname, event={k: v for k, v in ev.items() if k not in ("cx", "hx")})
        if main:
            ledgerkit.check(ctx, "TraceMlr", "Trace_Mlr.cfg", "Trace_Mlr_prop.cfg", main, _reject_handler(ctx, replay_of), "trace_hist_%s" % bname)
        ctx.traces(len(hist) + len(ols))
        if bname == "plain":
            for b in tlc.split_blocks(main):
                if any(e["e"] == "Hist" and e["same"] == 1 and e["rel"] == "same-shape" for e in b):
                    ctx.sample(dict(kind="history step (glibc build): same shape, other data, design matrix at the address of the previous fit",
                                    events=[{k: v for k, v in e.items() if k not in ("cx", "hx")} for e in b[:8]]), 6)
                    break
        allev += events
    return allev


def tiny_history_part(ctx, exes, rd, maxops, only=None):
    """MlrHist.tla: model-check the history model (the conforming variant holds, each stale-state variant is refuted), replay every emitted history"""
    if only is None:
        def mc(fault):
            cfg = tlc.write_cfg(os.path.join(rd, "MC_MlrHist_%s.cfg" % fault), spec="Spec", constants=dict(Fault=fault, MaxOps=maxops),
                                invariants=["TypeOK", "OwnSolution", "StaleAddrSeen"], constraints=["Emit"] if fault == "none" else [], deadlock=False)
            return tlc.run("MlrHist", cfg, workers=_par(2), timeout=2400)
        with ThreadPoolExecutor(_par(4)) as ex:
            rs = dict(zip(("none", "addr", "shape", "accum"), ex.map(mc, ("none", "addr", "shape", "accum"))))
        for f, r in rs.items():
            ctx.add_tlc(r, "mlrhist_%s" % f)
        r = rs["none"]
        if not r.ok:
            raise InfraError("MlrHist.tla: invariant %s fails for the conforming kernel:\n%s" % (r.violation, r.trace_text[:1500]))
        if r.zero_actions():
            raise InfraError("MlrHist.tla: actions never taken: %s" % r.zero_actions())
        for f in ("addr", "shape", "accum"):
            if rs[f].ok or rs[f].violation != "OwnSolution":
                raise InfraError("MlrHist.tla: the stale-state variant '%s' is not refuted by the histories of length <= %d (%s): the history model would be vacuous" % (f, maxops, rs[f].violation))
        hists = r.emits
        if not hists:
            raise InfraError("MlrHist.tla emitted no history")
        exp = {f: sum(1 for h in hists if h["exposes"][f]) for f in ("addr", "shape", "accum")}
        if min(exp.values()) == 0:
            raise InfraError("no emitted history exposes variant(s) %s" % [f for f, v in exp.items() if not v])
        ctx.note("MlrHist.tla: %d states, %d maximal histories of %d operations; OwnSolution holds for the conforming kernel and is refuted for addr/shape/accum; histories exposing them: %s"
                 % (r.distinct, len(hists), maxops, exp))
        ctx.cov["tiny_histories"] = dict(states=r.distinct, histories=len(hists), max_ops=maxops, exposing=exp)
    else:
        hists = [only["hist"]]
    path = os.path.join(rd, "hist.txt")
    with open(path, "w") as f:
        for i, h in enumerate(hists):
            fits = iter(h["fits"])
            toks = ["%d %d" % (i, len(h["ops"]))]
            for op in h["ops"]:
                if op["op"] == "F":
                    ft = next(fits)
                    toks.append("F %d %d %d %s %s %d" % (len(ft["X"]), len(ft["X"][0]), len(ft["Y"]), " ".join(str(v) for row in ft["X"] for v in row),
                                                         " ".join(str(v) for yv in ft["Y"] for v in yv), ft["want"]))
                else:
                    toks.append("A")
            f.write(" ".join(toks) + "\n")
    for bname, exe in exes.items():
        if only is not None and only.get("build") not in (None, bname):
            continue
        out = os.path.join(rd, "histreplay_%s.ndjson" % bname)
        h = hrun.run(exe, ["--histreplay", path, out], timeout=2400)
        if h.san:
            ctx.violation("MLR:%s" % h.san, "sanitizer report while replaying TLC's histories:\n%s" % h.err[:1500], dict(kind="tinyhist-all", build=bname))
        elif h.rc != 0:
            raise InfraError("c07 histreplay failed rc=%d (%s): %s" % (h.rc, bname, h.err[-500:]))
        events = hrun.read_ndjson(out)
        _annotate(events, bname)
        hf = [e for e in events if e["e"] == "HFit"]
        nfits = sum(len(x["fits"]) for x in hists)
        if len(hf) != nfits and not h.san and not any(e["e"] == "Abort" for e in events):
            raise InfraError("c07 histreplay (%s) returned %d fits of %d" % (bname, len(hf), nfits))
        agree = sum(1 for e in hf if e["same"] == e["want"])
        reused = sum(1 for e in hf if e["same"] == 1)
        ctx.cov.setdefault("tiny_histories", {})["allocator_%s" % bname] = dict(fits=len(hf), address_of_previous_design_reused=reused, model_predicted=sum(1 for e in hf if e["want"] == 1), agree=agree)
        ctx.cls("K7:tiny-history-fit(%s)" % bname, len(hf))
        if reused:
            ctx.cls("K7:tiny-history-addr-reused(%s)" % bname, reused)
        for i, x in enumerate(hists):
            ctx.case(("TH", bname, str(x["ops"])), True)

        def replay_of(ev, bname=bname):
            cid = ev.get("case")
            hh = hists[cid - 2000000] if cid is not None and 0 <= cid - 2000000 < len(hists) else None
            return dict(kind="tinyhist", build=bname, hist=hh, event={k: v for k, v in ev.items() if k not in ("cx", "hx")})
        ledgerkit.check(ctx, "TraceMlr", "Trace_Mlr.cfg", "Trace_Mlr_prop.cfg", events, _reject_handler(ctx, replay_of), "trace_tinyhist_%s" % bname)
        ctx.traces(len(hists))
        if bname == "plain" and hists:
            ctx.sample(dict(kind="history from MlrHist.tla", ops=hists[min(5, len(hists) - 1)]["ops"], exposes=hists[min(5, len(hists) - 1)]["exposes"]), 6)
    return hists


# ------------------------------------------------------------------------------------------------ binding self-tests
def selftests(ctx, events, hist_events, tinyu):
    blocks = [b for b in tlc.split_blocks(events) if not any(e["e"] in ("Abort", "Shape") for e in b) and not any(e.get("cls") == SENT for e in b)]
    # the first blocks of every class so that every event kind is present
    pick, per = [], {}
    for b in blocks:
        c = next((e.get("cls") for e in b if e["e"] == "Case"), None)
        if per.get(c, 0) < 8:
            per[c] = per.get(c, 0) + 1
            pick.append(b)
    ev = [e for b in pick for e in b]
    ev = [e for e in ev if not (e["e"] in JUDGED and _would_fail(e))]

    def first(evs, pred, mut):
        for e in evs:
            if pred(e):
                mut(e)
                return True
        return False

    def corrupt_normal(evs):
        return first(evs, lambda e: e["e"] == "Normal" and e.get("cx", {}).get("loc") == 0 and e["cx"].get("kappa", 10 ** 6) <= 100 and e["cx"].get("amp", 10 ** 6) <= 10,      # bound <= 1.2e-7 there
                     lambda e: e.update(err=min(2000000000, max(1, e["err"]) * 1000000)))

    def corrupt_tiny(evs):
        return first(evs, lambda e: e["e"] == "Tiny", lambda e: e["b4"].__setitem__(0, e["b4"][0] + 7))

    def corrupt_r2(evs):      # R2 off by 0.005: no longer 1 - RSS/TSS
        return first(evs, lambda e: e["e"] == "Stat", lambda e: e.update(r2=e["r2"] - 5000000 if e["r2"] > 5000000 else e["r2"] + 5000000))

    def corrupt_r2x(evs):     # the reported R2 is 2e-7 away from the long double reference, at a response with |mean|/sdev >= 1e6: only the representability-based tolerance sees it
        return first(evs, lambda e: e["e"] == "Stat" and e["off"] >= 1000000, lambda e: e.update(r2x=e["r2x"] + 200000))

    def corrupt_ymean(evs):
        return first(evs, lambda e: e["e"] == "Stat" and e["off"] < 1000, lambda e: e.update(ymgap=e["ymgap"] + 1000000))

    def corrupt_shift(evs):   # R2 moves by 5e-6 under a shift of the response
        return first(evs, lambda e: e["e"] == "Pair" and e["kind"] == "shift", lambda e: e.update(r2d=e["r2d"] + 5000000))

    def corrupt_xshift(evs):
        return first(evs, lambda e: e["e"] == "Pair" and e["kind"] == "xshift" and e["kappa2"] <= 100 and e["amp2"] <= 10 and e.get("cx", {}).get("kappa", 10 ** 6) <= 100,
                     lambda e: e.update(err=min(2000000000, max(1, e["err"]) * 1000000)))

    def corrupt_predstat(evs):
        return first(evs, lambda e: e["e"] == "PredStat" and e["off"] < 1000, lambda e: e.update(r2gap=e["r2gap"] + 1000000))
    tasks = []
    for name, fn in (("binding_normal_x1e6", corrupt_normal), ("binding_r2_vs_rss", corrupt_r2), ("binding_tiny_coefficient", corrupt_tiny), ("binding_r2_vs_longdouble_at_offset", corrupt_r2x),
                     ("binding_ymean", corrupt_ymean), ("binding_shift_r2", corrupt_shift), ("binding_xshift", corrupt_xshift), ("binding_predstat", corrupt_predstat)):
        tasks.append((ev, fn, name))
    # histories
    hb = [b for b in tlc.split_blocks(hist_events) if not any(e["e"] in ("Abort", "Shape", "Refit") for e in b)]
    hev = [e for b in hb[:60] for e in b]
    hev = [e for e in hev if not (e["e"] in JUDGED and _would_fail(e))]

    def corrupt_hist(evs):
        return first(evs, lambda e: e["e"] == "Hist" and e["rel"] == "same-shape", lambda e: e.update(rel="other-shape"))

    def corrupt_histfit(evs):      # a stale fit inside a history: coefficients of the second fit 1 % off
        seen = [False]

        def pred(e):
            if e["e"] == "Hist":
                seen[0] = e["step"] >= 1
            return seen[0] and e["e"] == "Coef" and e["cx"].get("kappa", 10 ** 6) <= 1000 and e["cx"].get("amp", 10 ** 6) <= 30
        return first(evs, pred, lambda e: e.update(err=10000000000 // 1000))

    def corrupt_ols(evs):
        return first(evs, lambda e: e["e"] == "Ols", lambda e: e.update(nerr=2000000000))
    for name, fn in (("binding_history_relation", corrupt_hist), ("binding_history_second_fit", corrupt_histfit), ("binding_direct_ols", corrupt_ols)):
        tasks.append((hev, fn, name))
    # Refit: a conforming record is accepted, a model with appended tables is not
    good = [dict(e="Reset", case=1), dict(e="Refit", h=0, shape=1, bcol=1, r2n=1, ny=1, err=5, kappa=10, amp=2), dict(e="End")]
    tasks.append((good, lambda evs: first(evs, lambda e: e["e"] == "Refit", lambda e: e.update(shape=0)), "binding_refit"))
    # location units
    if tinyu:
        sane = [e for e in tinyu if 0 <= e["r2"] <= 1000000000 and 0 <= e["sd2"] <= 400000000 and all(abs(v) < 100000000 for v in e["b4"]) and e["shape"] == 1]
        tv = [dict(e="Reset", case=1)] + copy.deepcopy(sane[:60]) + [dict(e="End")]
        tasks.append((tv, lambda evs: first(evs, lambda e: e["e"] == "TinyU" and e["H"] <= 2 ** 20, lambda e: e.update(r2=e["r2"] - 300)), "binding_tinyu_r2_3e-7"))
        tasks.append((tv, lambda evs: first(evs, lambda e: e["e"] == "TinyU", lambda e: e["b4"].__setitem__(0, e["b4"][0] + 9)), "binding_tinyu_intercept"))
        tasks.append((tv, lambda evs: first(evs, lambda e: e["e"] == "TinyU" and e["H"] <= 2 ** 20, lambda e: e.update(sd2=e["sd2"] + 40)), "binding_tinyu_sdec"))

    def one(t):
        if t[2] == "binding_refit":      # the conforming record itself must be accepted first
            ok, n, r = tlc.validate_trace("TraceMlr", "Trace_Mlr_prop.cfg", t[0])
            if not ok:
                raise InfraError("TraceMlr rejects a conforming Refit record")
        return trace.binding_selftest(ctx, "TraceMlr", "Trace_Mlr_prop.cfg", t[0], t[1], t[2])
    with ThreadPoolExecutor(_par(4)) as ex:
        list(ex.map(one, tasks))


def _builds():
    lib = build.build_lib("san")
    exe = build.build_harness("c07", ["c07_drv.c"], lib)
    libp = build.build_lib("plain")
    exep = build.build_harness("c07", ["c07_drv.c"], libp)
    return exe, {"plain": exep, "san": exe}


def run(ctx):
    ctx.assumptions += [
        "exact part: TLC computes B = Solve([1 X]'[1 X], [1 X]'y), fitted values, RSS, TSS, R2, SDEC^2 over the rationals for every enumerated tiny integer problem (two solvers must agree); the comparison of the library's doubles with those rationals (rounded to the nearest double; 1e-9 relative) is done by the check driver, in the original units and in four other unit systems (powers of two, exact); in the seven location unit systems (response moved by 2^17..2^30 units, predictors by 24) TLC itself recomputes and compares (TinyU)",
        "validate part: residuals are evaluated by the harness in double precision (LAPACK dgels as independent optimum, dgesdd for cond([1 X])), RSS and TSS of the model's own fitted values additionally two-pass in long double (own error bound logged), all logged as integers; TLC decides every comparison with bounds that are functions of the logged kappa, amp, n, offset: (1e-8 + 2e-13*kappa^2)*|y|/|y-mean| (capped 1e-3) calibrated on the unchanged tree (worst observed/bound 7e-3 over 3000 models); location class 1e-8 + 2e-13*(kappa^2+1)*|y|/|y-mean| (worst observed/bound 9e-4 over 12000 models of that class on the tree with fixes/C07-ols-intermediate-sentinel.diff; representability-based identities: worst observed/bound 0.21 for the model mean, 0.08 for R2 under a response shift, 1e-4 for R2/SDEC^2 against the long double reference; the existing first-order bound on the new predictor-offset class: 0.2 over 4000 models)",
        "inputs inside the quantifier: n 4..50, p 1..min(10,n-1), cond([1 X]) <= 1e4, responses non-constant, |mean|/sdev of a response < 1e9, no data value within 2 of the missing-value code 99999999; sampled (seeded), one input class per case",
        "histories: glibc malloc (gcc -O2 build) and ASan allocator; whether a later design matrix lands on the address of an earlier one is observed per step (probe of the next 24-byte block), not assumed",
        "ASan/UBSan build: any sanitizer report is a violation",
    ]
    exe, exes = _builds()
    rd = tlc.rundir()
    deferred = Deferred(ctx)
    try:
        if ctx.quick:
            n, tu = exact_part(ctx, exe, rd, [("MC_Mlr_quick.cfg", 8, "gen_all_3x1"), ("MC_Mlr_sample.cfg", 6, "gen_sample")], loc_full=700, loc_stride=7, deferred=deferred)
            events = validate_part(ctx, exe, rd, 720, 8, deferred=deferred)
            hev = history_part(ctx, exes, rd, 50, deferred=deferred)
            tiny_history_part(ctx, exes, rd, 3)
        else:
            n, tu = exact_part(ctx, exe, rd, [("MC_Mlr_quick.cfg", 16, "gen_all_3x1"), ] + [
                (dict(Mode="all", NN=4, PP=1, Samples=1, Chains=1, Slice=k), 16, "gen_all_4x1_slice%d" % k) for k in range(1, 6)] + [("MC_Mlr_sample_thorough.cfg", 16, "gen_sample")], units="rot", loc_full=2500, loc_stride=10,
                               deferred=deferred)
            events = validate_part(ctx, exe, rd, 18000, 16, deferred=deferred)
            hev = history_part(ctx, exes, rd, 1200, deferred=deferred)
            tiny_history_part(ctx, exes, rd, 5)
        ctx.cov["rule"] = ("exact part: every full-rank (X, y) with X in {-2..2}^(3x1), y in {-2..2}^3 (thorough: also 4x1) plus random shapes n 3..5, p 1..2 over the same alphabet, "
                           "each a distinct case keyed by (X, y), non-trivial iff y is not constant; location units keyed by (X, y, unit); validate part: seeded random problems n 4..50, p 1..min(10,n-1), 1..4 responses, "
                           "noise class 0/5%/70%/600%, one input class per case in a fixed cycle (base: column scales 10^[-1.5,1.5], offsets up to 30 spreads; K3 responses at |mean|/sdev 1e2..3e8; K3 predictors; K1; K2; K4; K5/K8; sum of responses = 99999999), "
                           "cond([1 X]) <= 1e4, keyed by (n, p, ny, noise class, input class); histories keyed by (build, history, step); TLC's histories keyed by (build, operations)")
        ctx.cov["exact_cases_replayed"] = n
        try:
            if not deferred:
                selftests(ctx, events, hev, tu)
        except (InfraError, tlc.TlcInfraError) as e:
            if not ctx.violations:
                raise
            ctx.note("binding self-test not conclusive on a trace that already carries violations: %s" % str(e)[:300])
        deferred.settle()
    finally:
        shutil.rmtree(rd, ignore_errors=True)


def replay(ctx, body):
    case = body.get("case") or {}
    exe, exes = _builds()
    rd = tlc.rundir()
    try:
        kind = case.get("kind")
        if kind in ("case", "range"):
            idx = case.get("idx", case.get("first"))
            validate_part(ctx, exe, rd, 1, 1, only=dict(seed=case.get("seed", body.get("seed", ctx.seed)), idx=idx, count=case.get("count", 1)))
            ctx.case(("replay", idx))
            ctx.case(("replay2", idx))
        elif kind == "hist":
            history_part(ctx, exes, rd, 1, only=dict(seed=case.get("seed", body.get("seed", ctx.seed)), h=case.get("h", 0), build=case.get("build")))
            ctx.case(("replay", case.get("h")))
            ctx.case(("replay2", case.get("h")))
        elif kind == "tinyhist" and case.get("hist"):
            tiny_history_part(ctx, exes, rd, len(case["hist"]["ops"]), only=dict(hist=case["hist"], build=case.get("build")))
            ctx.case(("replay", str(case["hist"]["ops"])))
            ctx.case(("replay2", str(case["hist"]["ops"])))
        elif kind == "tinyu":
            path = os.path.join(rd, "one.txt")
            X, y = case["X"], case["y"]
            with open(path, "w") as f:
                f.write("%d %d %s %s 1 %s 2\n" % (len(X), len(X[0]), " ".join(str(v) for r in X for v in r), " ".join(str(v) for v in y), " ".join("0" for _ in X[0])))
            out, evout = os.path.join(rd, "one.ndjson"), os.path.join(rd, "one_loc.ndjson")
            h = hrun.run(exe, ["--replay", path, out, "all", evout], timeout=120)
            tu = [e for e in hrun.read_ndjson(evout) if case.get("u") is None or e["u"] == case["u"]]
            if h.san or not tu:
                ctx.violation("MLR:%s" % (h.san or "crash"), h.err[:1200], case)
            else:
                tinyu_part(ctx, tu, "replay_tinyu")
            ctx.case(("replay", str(X)))
            ctx.case(("replay2", str(y)))
            ctx.sample(case)
        elif kind == "tiny":
            # one tiny case: TLC recomputes the exact coefficients from the case itself (Tiny event of the trace spec)
            path = os.path.join(rd, "one.txt")
            X, y, xnew = case["X"], case["y"], case["xnew"]
            with open(path, "w") as f:
                f.write("%d %d %s %s %d %s 0\n" % (len(X), len(X[0]), " ".join(str(v) for r in X for v in r), " ".join(str(v) for v in y), len(xnew), " ".join(str(v) for r in xnew for v in r)))
            out = os.path.join(rd, "one.ndjson")
            h = hrun.run(exe, ["--replay", path, out, "all"], timeout=120)
            res = [g for g in hrun.read_ndjson(out) if (g.get("e", 0), g.get("f", 0), g.get("g", 0)) == (case.get("e", 0), case.get("f", 0), case.get("g", 0))]
            if h.san or not res:
                ctx.violation("MLR:%s" % (h.san or "crash"), h.err[:1200], case)
            else:
                b4 = [None if r[0] is None else int(round(r[0] * 10000)) for r in res[0]["b"]]
                if any(v is None or abs(v) > 2000000000 for v in b4):
                    ctx.violation("MLR:coef:tiny", "X=%s y=%s: non-finite coefficients %s" % (X, y, res[0]["b"]), case)
                else:
                    ev = [dict(e="Reset", case=0), dict(e="Tiny", X=X, y=y, b4=b4), dict(e="End")]
                    ok, n, r = tlc.validate_trace("TraceMlr", "Trace_Mlr_prop.cfg", ev)
                    ctx.add_tlc(r, "replay_tiny")
                    if not ok:
                        ctx.violation("MLR:coef:tiny", "X=%s y=%s: library coefficients %s differ from the exact solution recomputed by TLC" % (X, y, res[0]["b"]), case)
            ctx.case(("replay", str(X)))
            ctx.case(("replay2", str(y)))
            ctx.sample(case)
            ctx.traces(1)
        else:
            run(ctx)
    finally:
        shutil.rmtree(rd, ignore_errors=True)
