"""C09 - CPCA super scores are the PCA scores of the block-scaled concatenated data.

Mode 3 (ledger) relating two recorded models and an oracle.
(M)   Cpca.tla: an ideal CPCA over small integer block budgets - blocks with constant variables (live budget below the width) and zero
      blocks included; the ledger (cumulative block variances within [0,100] and non-decreasing, total = share-weighted blocks, totals
      non-increasing and summing to <= 100, total = the oracle's share) accepts every ideal run and rejects four injected faults
      (not_cumulative, over_100, total_unrelated, trace_by_width = sums of squares derived from the block width).  The slicing of the
      threaded kernel (KernelSlices) is shown to hand every index to exactly one worker for every length / processor count in scope.
(GEN) CpcaGen.tla: TLC enumerates the multi-block shapes <<n, widths, nproc>>, proves each inside the quantifier (PropFitC) and sliced
      soundly, and emits it with its input-class tags (INPUT-CLASSES.md K1, K2, K6); the stratified cases are drawn from these emits,
      and the shapes of ALL executed cases (random sweep included) are tagged by a second run of the same module.
(C)   c09_drv fits the real CPCA() on multi-block data whose block-scaled concatenation has a known separated spectrum,
      computes the reference PCA scores itself (long-double Jacobi on the block-scaled concatenation, cross-checked with LAPACK
      dsyev), re-projects the training tensor with CPCAScorePredictor (also into outputs that are already sized), also runs the
      library's PCA on the concatenation, and TLC validates every model against TraceCpca.tla with bounds it computes from the
      logged spectrum (CPCA criterion eps = sqrt(n*1e-18), floor 1e-7; PCA criterion for the PcaRef comparison).

Clause table (statement of C09 -> operator of Cpca.tla that decides it -> trace action / event field that carries it):
  1 super score k = +-PCA score k of the identically preprocessed, sqrt(width)-scaled, concatenated blocks
        PropTruth (oracle, bound bTc[k])          TTruth   <- Truth.dist
        PropPcaRef (library PCA, bTc[k] + bTp[k])  TPcaRef  <- PcaRef.dist
  2 total explained variance of component k = that PCA's explained variance
        PropTruth (EvTolC9, lambda_k / trace of the harness's own oracle)   TTruth  <- Truth.tvErr
        PropPcaRef (TolEig, library PCA)                                    TPcaRef <- PcaRef.varexp against the ledger's curTotal
  3 super score = block scores x super weights                 PropSuper      TCpca <- Cpca.superErr
  4 block explained variances are cumulative                   PropBlockVar   TCpca <- Cpca.blockVar vs Cpca.blockRef (1 - |E_b^(k)|^2/|E_b|^2 recomputed by the
                                                                               harness from the stored super scores and block loadings; skipped for a zero block, Shares.nz)
                                                               PropTruthBlocks TTruth <- Truth.blockTruth (share of block b inside the span of the first k ORACLE scores: independent
                                                                               of the model's scores and loadings) against the ledger's prevBlock
  5 ... within [0,100]                                         PropBlockVar   TCpca <- Cpca.blockVar
  6 ... non-decreasing                                         PropBlockVar   TCpca <- Cpca.blockVar against the ledger's prevBlock
  7 projecting the training tensor through the model reproduces the super scores
        PropProj (n x npc whatever the output held before)     TProj  <- Proj.rows, Proj.cols
        PropReproj (bound bTc[k])                              TCpca  <- Cpca.reproj
        PropProj2 (fewer components requested -> the leading ones)  TProj2 <- Proj2.req, rows, cols, err
  consequences: PropTotal / PropShare (ledger identities), PropScale (unit of the data, TScale), PropAgain (what the process fitted before, TAgain),
  PropSlices (every index of a threaded product has one worker, TSlices), PropFitC (the recorded case lies inside the quantifier, TFit).
  Impl layer (SPEC-DRIFT only): super weights normalised, predicted block scores = stored ones (Cpca.wnorm, Cpca.reprojB), block-score tensor shape
  (Proj.order/brows/bcols), the threaded kernel is used and cuts as KernelSlices (Mt, Slices), NIPALS passes observed (Iters), repeated fit bitwise equal (Again.bit).
  Outside the statement (EXTRA-FINDING only): CPCA() into a model object that already holds a fit (TRefit <- Refit).
"""
import math, os, random, shutil
from concurrent.futures import ThreadPoolExecutor
from vf import build, tlc, trace
from vf import run as hrun
from vf.core import InfraError
from checks.deferred import Deferred

LEVEL = "exploration"
READY = True
W = max(1, min(6, int(os.environ.get("VERIF_WORKERS", "6"))))
TLC_WORKERS = int(os.environ["VERIF_WORKERS"]) if os.environ.get("VERIF_WORKERS") else 8
TECHNIQUE = ("TLC model checking of the CPCA block-variance ledger (Cpca.tla: ideal runs with constant variables and zero blocks accepted, four faults rejected, threaded-kernel slicing "
             "sound) + TLC-enumerated shape classes (CpcaGen.tla, every shape proved inside the quantifier and tagged K1/K2/K6) + TLC trace validation of ledgers recorded "
             "from the real CPCA/CPCAScorePredictor against an eigen-decomposition of the block-scaled concatenation computed by the harness (long-double Jacobi, "
             "LAPACK dsyev) and against the library's own PCA, with criterion-implied bounds computed by TLC")
LEVEL_TEXT = ("Sampled inputs: 2..4 blocks x 1..8 variables, 5..30 objects, scalings 0..5, 1..min-width components, separated spectra over data magnitudes 1e-8..1e6 (scaling 0; 1..1e3 for the normalising options) are fitted by the "
              "real CPCA(); TLC validates per component that the super score equals +- the oracle PCA score of the identically preprocessed, sqrt(width)-scaled concatenation "
              "within the CPCA criterion's bound, that total explained variance equals that PCA's, super = block scores x super weights, block variances are cumulative, "
              "monotone, within [0,100] and consistent with the total, and that projecting the training tensor reproduces the super scores. Stratified classes on every run: "
              "width-1 blocks, blocks wider than the object count, n = M+-1, rank-limited component counts (K1), a constant variable inside a block for EVERY scaling option at "
              "representable and non-representable values, a whole constant block, duplicated objects / variables (K5/K8), column offsets 1e4..1e7 x the spread (K3), per-block unit systems "
              "1e-6..1e6 (K4), forced processor counts 2, 3, 16 (5, 24 thorough) with widths / blocks / objects below the count and the recorded slicing checked against the model (K6), "
              "other fits before the fit under test in one process with address reuse, the same data fitted again, projection into outputs already sized (K7).")
LEVEL_NOTE = ("Exploration, not exhaustive. Trusts TLC, the harness's construction of the reference (MatrixPreprocess per block as the definition of 'preprocessed identically', "
              "long-double Jacobi cross-checked against dsyev on every model), its residual evaluation and quantisation (binding self-tests). The comparison against the "
              "library's own PCA inherits PCA's looser criterion and any PCA defect (finding F11). Classes the quantifier excludes (not generated, or Dropped and counted): K9 missing values "
              "(the statement does not mention them), K10 label alphabets (none), near-constant variables with 1e-3 <= spread < 1.2e-2 and block magnitudes below 1 under the normalising options "
              "(the zero-scale guard of MatrixPreprocess decides: C10), components beyond the numerical rank and unseparated spectra (C18 / 'separated spectra'), data values at the missing code 99999999, "
              "concurrent callers. A second CPCA() into a model object that already holds a fit is outside the statement (the history of the model object is not quantified): EXTRA-FINDING only.")

CLS_FIELDS = ("cc", "off", "hist", "sized", "deg")


def _ncmp(sig2):
    k = 0
    while k < len(sig2) and k < 6:
        rho9 = (sig2[k + 1] * 10 ** 9 // sig2[k]) if k + 1 < len(sig2) and sig2[k] > 0 else 0
        if sig2[k] < 1000 or rho9 > 722500000:
            break
        k += 1
    return k


def _bounds_t(sig2, eps, K=30.0):
    bt, bp = [], []
    for k in range(_ncmp(sig2)):
        rho = sig2[k + 1] / sig2[k] if k + 1 < len(sig2) else 0.0
        gt, gp = max(rho / (1 - rho), 0.05), max(math.sqrt(rho) / (1 - rho), 0.05)
        lp = sum(bp)
        lt = sum(bp[j] * math.sqrt(sig2[j] / sig2[k]) for j in range(k))
        bp.append(min(1.0, K * eps * gp + lp / (1 - rho)))
        bt.append(min(1.0, K * eps * gt + lt / (1 - rho)))
    return bt


# ------------------------------------------------------------------------------------------------ (M) ledger model
def _model_checks(ctx):
    cfgs = ["MC_Cpca_quick.cfg", "MC_Cpca_zero.cfg"] + ([] if ctx.quick else ["MC_Cpca_thorough.cfg", "MC_Cpca_thorough4.cfg"])
    states = 0

    def mc(cfg):
        return cfg, tlc.run("Cpca", cfg, timeout=1500, workers=2)
    with ThreadPoolExecutor(2) as ex:
        for cfg, r in ex.map(mc, cfgs):
            ctx.add_tlc(r, "mc_cpca_ledger_" + cfg[8:-4])
            if not r.ok:
                raise InfraError("Cpca.tla (%s): the ledger rejects an ideal CPCA run (%s):\n%s" % (cfg, r.violation, r.trace_text[:1500]))
            z = r.zero_actions(ignore=("CInit",))
            if z:
                raise InfraError("Cpca.tla model (%s): actions never taken: %s" % (cfg, z))
            states += r.distinct
    rd = tlc.rundir()
    try:
        base = open(os.path.join(tlc.SPEC, "MC_Cpca_quick.cfg")).read()
        faults = ["not_cumulative", "over_100", "total_unrelated", "trace_by_width"]

        def one(f):
            p = os.path.join(rd, "fault_%s.cfg" % f)
            open(p, "w").write(base.replace('CFault = "none"', 'CFault = "%s"' % f))
            return f, tlc.run("Cpca", p, timeout=600, workers=2, coverage=False)
        with ThreadPoolExecutor(2) as ex:
            for f, rf in ex.map(one, faults):
                ctx.add_tlc(rf, "mc_cpca_fault_%s" % f)
                if rf.ok or rf.violation != "CLedgerAccepts":
                    raise InfraError("Cpca.tla: injected fault %s is not rejected by the ledger (vacuous): %s" % (f, rf.violation))
    finally:
        shutil.rmtree(rd, ignore_errors=True)
    ctx.note("ledger model: %d states over %d budgets (constant variables, zero blocks), ideal runs accepted, kernel slicing sound; faults %s rejected" % (states, len(cfgs), ", ".join(faults)))


# ------------------------------------------------------------------------------------------------ (GEN) shapes and their class tags
def _gen(ctx):
    r = tlc.run("CpcaGen", "MC_CpcaGen_quick.cfg" if ctx.quick else "MC_CpcaGen_thorough.cfg", timeout=1500, workers=TLC_WORKERS, coverage=False)
    ctx.add_tlc(r, "gen_cpca_shapes")
    if not r.ok:
        raise InfraError("CpcaGen.tla: %s fails for an enumerated shape:\n%s" % (r.violation, r.trace_text[:1500]))
    shapes = {}
    for e in r.emits:
        shapes[(e["n"], tuple(e["w"]), e["np"])] = tuple(sorted(e["tags"]))
    if len(shapes) < 500:
        raise InfraError("CpcaGen emitted only %d shapes" % len(shapes))
    ctx.note("GEN: %d shapes <<n, widths, nproc>> proved inside the quantifier and sliced soundly, %d distinct class tags" % (len(shapes), len({t for v in shapes.values() for t in v})))
    return shapes


def _tag_shapes(ctx, keys):
    """class tags of the shapes that were really executed, from the same TLA+ definitions (ShapeTags of CpcaGen.tla)"""
    rd = tlc.rundir()
    try:
        sp = os.path.join(rd, "shapes.ndjson")
        with open(sp, "w") as f:
            for n, w, np_ in sorted(keys):
                f.write('{"n":%d,"w":[%s],"np":%d}\n' % (n, ",".join(str(x) for x in w), np_))
        p = os.path.join(rd, "taglist.cfg")
        open(p, "w").write(open(os.path.join(tlc.SPEC, "MC_CpcaGen_quick.cfg")).read().replace('GenTier = "quick"', 'GenTier = "list"'))
        r = tlc.run("CpcaGen", p, timeout=900, workers=2, coverage=False, env=dict(SHAPES=sp))
        ctx.add_tlc(r, "gen_cpca_tag_executed_shapes")
        if not r.ok:
            raise InfraError("CpcaGen.tla (list): %s fails for an executed shape:\n%s" % (r.violation, r.trace_text[:1500]))
        out = {(e["n"], tuple(e["w"]), e["np"]): tuple(sorted(e["tags"])) for e in r.emits}
        miss = [k for k in keys if k not in out]
        if miss:
            raise InfraError("CpcaGen (list) did not tag %d executed shapes, e.g. %s" % (len(miss), miss[:3]))
        return out
    finally:
        shutil.rmtree(rd, ignore_errors=True)


def _job(rng, shape, **over):
    n, w, np_ = shape
    minw = min(w)
    sc = over.get("scaling", rng.randint(0, 5))
    mx = max(1, min(minw, n - 1))
    j = dict(seed=rng.randrange(1, 2 ** 30), n=n, w=list(w), nproc=np_, scaling=sc, npc=rng.randint(1, mx), cc=0, off=0, bm=[0] * len(w), hist=0, sized=0, deg=0)
    j.update(over)
    if j["npc"] > mx:
        j["npc"] = mx
    if "dec" not in over:
        lo, hi = (-8, 6) if sc == 0 else (0, 3)
        if sc == 0:
            lo = max(lo, -9 - min(j["bm"]))
            hi = min(hi, 9 - max(j["bm"]), 13 - j["off"] - max(j["bm"]))
        else:
            lo = max(lo, 0 - min(j["bm"]))
            hi = min(hi, 9 - max(j["bm"]), 13 - j["off"] - max(j["bm"]))
        j["dec"] = rng.randint(lo, max(lo, hi))
    return j


def _line(j):
    return " ".join(str(x) for x in [j["seed"], j["n"], j["scaling"], j["npc"], j["dec"], j["nproc"], len(j["w"])] + j["w"] + [j["cc"], j["off"]] + j["bm"] + [j["hist"], j["sized"], j["deg"]])


def _plan(ctx, shapes):
    """the stratified class cases (INPUT-CLASSES.md) drawn from the shapes TLC emitted; returns dict group -> list of jobs"""
    rng = random.Random(ctx.seed * 7919 + 17)
    q = ctx.quick
    one = sorted(k for k in shapes if k[2] == 1)
    by_tag = {}
    for k in one:
        for t in shapes[k]:
            by_tag.setdefault(t, []).append(k)
    has2 = [k for k in one if max(k[1]) >= 2]
    small = [k for k in has2 if sum(k[1]) <= 16]
    mult = 1 if q else 12
    plan = {}
    # K1 / K2: every shape tag TLC knows, a couple of shapes each (the largest shape once: it is the slowest)
    g = []
    for t in sorted(by_tag):
        if t.startswith("K6"):
            continue
        for i in range((1 if t == "K1:largest-shape" else 2) * mult):
            sh = rng.choice(by_tag[t])
            mx = max(1, min(min(sh[1]), sh[0] - 1))
            g.append(_job(rng, sh, npc=(1, mx, rng.randint(1, mx))[i % 3]))
    plan["K1K2-shapes"] = g
    # K5 / K8: a constant variable inside a block - EVERY scaling option x every constant kind; a whole constant block per scaling option
    g = []
    for rep in range(mult):
        for sc in range(6):
            for cc in range(1, 7):
                pool = small if (sc + cc + rep) % 3 else [k for k in has2 if "K1:block-wider-than-n" in shapes[k] or "K1:width1-block" in shapes[k]]
                g.append(_job(rng, rng.choice(pool), scaling=sc, cc=cc))
            g.append(_job(rng, rng.choice(small), scaling=sc, cc=7))
    plan["K5K8-constant-variable"] = g
    # K8: duplicated objects / variables
    g = []
    for i in range(12 * mult):
        g.append(_job(rng, rng.choice(small), deg=1 + i % 3, scaling=(i // 3) % 6))
    plan["K8-duplicates"] = g
    # K3: column offsets 1e4 .. 1e7 x the decade (|mean| / spread up to ~1e8), every scaling option; some with a constant variable as well
    g = []
    offs = [4, 6, 7]
    for i in range(24 * mult):
        sc = i % 6
        g.append(_job(rng, rng.choice(small), scaling=sc, off=offs[(i // 6 + i) % 3], cc=(rng.randint(1, 6) if i % 4 == 3 else 0)))
    plan["K3-offsets"] = g
    # K4: blocks in different unit systems (scaling 0: 1e-6 .. 1e6 between blocks; normalising options: 1 .. 1e6), large whole-input magnitudes for the normalising options
    g = []
    for i in range(20 * mult):
        sh = rng.choice(small)
        sc = [0, 0, 1, 2, 3, 4, 5, 0, 1, 2, 3, 4, 5, 1, 2, 4, 5, 0, 3, 1][i % 20]
        B = len(sh[1])
        if sc == 0:
            bm = [rng.choice([-6, -3, 0, 3, 6]) for _ in range(B)]
            if max(bm) - min(bm) < 6:
                bm[0], bm[-1] = -3, 3 if i % 2 else 6
        else:
            bm = [rng.choice([0, 2, 4, 6]) for _ in range(B)]
            if max(bm) == min(bm):
                bm[rng.randrange(B)] = 6 if bm[0] != 6 else 0
        g.append(_job(rng, sh, scaling=sc, bm=bm, cc=(rng.randint(1, 6) if i % 5 == 4 else 0)))
    for i in range(5 * mult):
        g.append(_job(rng, rng.choice(small), scaling=1 + i % 5, dec=4 + i % 3))
    plan["K4-magnitudes"] = g
    # K7: histories in one process; projection into outputs that are already sized
    g = []
    for i in range(12 * mult):
        g.append(_job(rng, rng.choice(small), hist=1, scaling=i % 6, sized=(i % 4 if i % 2 else 0), cc=(rng.randint(1, 6) if i % 6 == 5 else 0)))
    plan["K7-histories"] = g
    g = []
    for i in range(9 * mult):
        g.append(_job(rng, rng.choice(one), sized=1 + i % 3))
    plan["K7-sized-outputs"] = g
    # K6: forced processor counts; shapes by K6 tag; few components (the kernel spawns nproc threads per product)
    nps = sorted({k[2] for k in shapes if k[2] > 1})
    g = []
    for np_ in nps:
        mt = sorted(k for k in shapes if k[2] == np_)
        tg = {}
        for k in mt:
            for t in shapes[k]:
                if t.startswith("K6"):
                    tg.setdefault(t, []).append(k)
        cnt = {2: 9, 3: 9, 5: 6, 16: 9, 24: 4}.get(np_, 4) * (1 if q else 6)
        tags = sorted(tg)
        for i in range(cnt):
            pool = [k for k in tg[tags[i % len(tags)]] if sum(k[1]) <= 20 and (np_ < 16 or k[0] <= 17)] or tg[tags[i % len(tags)]]
            sh = rng.choice(pool)
            mx = max(1, min(min(sh[1]), sh[0] - 1, 2))
            g.append(_job(rng, sh, npc=rng.randint(1, mx), scaling=i % 6, cc=(rng.randint(1, 6) if i % 4 == 1 and max(sh[1]) >= 2 else 0)))
    plan["K6-processors"] = g
    return plan


# ------------------------------------------------------------------------------------------------ (C) recording
def _check_run(ctx, h, ev, deferred=None):
    """-> the events to judge.  A harness that timed out / a fit that met the wall-clock watchdog can be the doing of a changed library (a fit that hangs outside the
    NIPALS loops): with `deferred` the finding is remembered, the complete recorded models are still judged and the finding is settled at the end of run()"""
    if deferred is not None:
        try:
            _check_run(ctx, h, ev)
        except InfraError as ex:
            deferred.add(ex)
            blocks = tlc.split_blocks([e for e in ev if e.get("e") != "Summary"]) if ev else []
            if blocks and not any(e.get("e") == "Summary" for e in ev):
                blocks = blocks[:-1]                  # the model that was running when the harness process was stopped
            # not a verdict (machine load cannot be told from a hang): the models the watchdog stopped are left out
            return [e for b in blocks if not any(e.get("e") == "Abort" and e.get("why") == "watchdog" for e in b) for e in b]
        return ev
    if h.san:
        blk = next((b for b in tlc.split_blocks(ev) if any(e.get("e") == "Abort" and e.get("rc") in (98, 99) for e in b)), None) or (tlc.split_blocks(ev) or [[]])[-1]
        fit = next((e for e in blk if e.get("e") == "Fit"), {})
        ctx.violation("CPCA:%s" % h.san, "sanitizer report while fitting %s:\n%s" % (fit, h.err[:1500]), _case_of(fit))
    if h.timed_out:
        raise InfraError("c09 harness timed out")
    if h.rc != 0 and not h.san:
        raise InfraError("c09 harness failed rc=%d\n%s" % (h.rc, h.err[-800:]))
    if not any(e.get("e") == "Summary" for e in ev):
        raise InfraError("c09 harness wrote no Summary")
    if any(e.get("e") == "Abort" and e.get("why") == "watchdog" for e in ev):
        raise InfraError("c09 harness: wall-clock watchdog fired without the iteration budget (machine load)")


def _record(ctx, exe, rd, sweep, groups, mode="jobs", timeout=2400, extra=False, deferred=None):
    """run the random sweeps and the planned class cases (every group cut into files of a few dozen jobs) under ONE pool of W processes;
    histories run with the ASan quarantine off so that freed addresses are reused"""
    tasks = []
    for i, (sd, cnt, nproc) in enumerate(sweep):
        out = os.path.join(rd, "c09_%d.ndjson" % i)
        tasks.append((out, [out, "sweep", sd & 0x3FFFFFFF, cnt, nproc], None))
    for gname, jobs in groups.items():
        size = 40 if ctx.quick else 150
        if gname.startswith("K6"):
            size = 8 if ctx.quick else 40
        for c in range(0, len(jobs), size):
            p = os.path.join(rd, "jobs_%s_%d.txt" % (gname, c))
            open(p, "w").write("\n".join(_line(j) for j in jobs[c:c + size]) + "\n")
            out = os.path.join(rd, "out_%s_%d.ndjson" % (gname, c))
            env = dict(ASAN_OPTIONS=hrun.SAN_ENV["ASAN_OPTIONS"] + ":quarantine_size_mb=0:thread_local_quarantine_size_kb=0") if gname.startswith("K7") else None
            tasks.append((out, [out, mode, p], env))
    with ThreadPoolExecutor(W) as ex:
        res = list(ex.map(lambda t: hrun.run(exe, t[1], timeout=timeout, env=t[2]), tasks))
    chunks = []
    for (out, args, env), h in zip(tasks, res):
        ev = hrun.read_ndjson(out)
        if extra and h.san:
            h.san = None
        kept = _check_run(ctx, h, ev, deferred)
        ev = ev if kept is None else kept
        chunks.append([e for e in ev if e.get("e") != "Summary"])
    return [c for c in chunks if c] if deferred else chunks


def _case_of(fit):
    if not fit:
        return None
    return dict(kind="model", seed=fit.get("seed"), n=fit.get("n"), widths=fit.get("widths"), scaling=fit.get("scaling"), npc=fit.get("npc"), dec=fit.get("dec"),
                nproc=fit.get("nproc", 1), cc=fit.get("cc", 0), off=fit.get("off", 0), bm=fit.get("bm") or [0] * len(fit.get("widths") or []), hist=fit.get("hist", 0),
                sized=fit.get("sized", 0), deg=fit.get("deg", 0))


def _feature_tags(f):
    """class tags that follow from the drawn class coordinates recorded in the Fit event (the shape tags come from TLC)"""
    t = ["K6:nproc%d" % f["nproc"]]
    mx = min(min(f["widths"]), f["n"] - 1)
    t.append("K1:npc=1" if f["npc"] == 1 else "K1:npc=max" if f["npc"] == mx else "K1:1<npc<max")
    if f["npc"] == f["n"] - 1:
        t.append("K1:npc=n-1(rank)")
    sc = f["scaling"]
    t.append("scaling%d" % sc)
    if f["off"]:
        t += ["K3:offset~1e%dxdecade" % f["off"], "K3:offset-scaling%d" % sc]
    else:
        t.append("K3:offset<=1e2xdecade")
    if f["dec"] <= -6:
        t.append("K4:magnitude<=1e-6")
    if f["dec"] >= 4:
        t.append("K4:magnitude>=1e4" + ("-normalising-option" if sc >= 1 else ""))
    if any(f["bm"]):
        t.append("K4:per-block-unit-systems" + ("-normalising-option" if sc >= 1 else ""))
        if max(f["bm"]) - min(f["bm"]) >= 6:
            t.append("K4:block-magnitude-ratio>=1e6")
    if 1 <= f["cc"] <= 6:
        t += ["K8:constant-variable-in-block", "K5K8:constant-variable-scaling%d" % sc]
        if f["cc"] in (1, 2, 3, 6):
            t.append("K5:constant-variable-non-representable")
    if f["cc"] == 7:
        t += ["K8:constant-block", "K8:constant-block-scaling%d" % sc]
    if f["deg"]:
        t.append({1: "K8:duplicate-objects", 2: "K8:duplicate-variable-in-block", 3: "K8:same-variable-in-two-blocks"}[f["deg"]])
    if f["hist"]:
        t.append("K7:other-fits-before,same-data-again-after")
    if f["sized"]:
        t.append("K7:projection-into-sized-output-" + {1: "same-shape", 2: "larger", 3: "smaller"}[f["sized"]])
    return t


REQUIRED_CLASSES = (["K1:tall(n>M)", "K1:concat-wide(n<M)", "K1:n=M", "K1:n=M+-1", "K1:block-wider-than-n", "K1:width1-block", "K1:all-width1", "K1:n=width+-1", "K1:equal-widths",
                     "K1:different-widths", "K1:blocks=2", "K1:blocks=3", "K1:blocks=4", "K1:n=5", "K1:n=30", "K1:largest-shape", "K1:rank-limited-by-n", "K1:npc=1", "K1:npc=max", "K1:1<npc<max",
                     "K1:npc=n-1(rank)", "K2:n=4k", "K2:n=4k+1", "K2:n=4k-1", "K2:width=4k", "K2:M=4k", "K2:M=4k+1", "K2:M=4k-1",
                     "K3:offset~1e4xdecade", "K3:offset~1e6xdecade", "K3:offset~1e7xdecade", "K4:magnitude<=1e-6", "K4:magnitude>=1e4", "K4:magnitude>=1e4-normalising-option",
                     "K4:per-block-unit-systems", "K4:per-block-unit-systems-normalising-option", "K4:block-magnitude-ratio>=1e6",
                     "K5:constant-variable-non-representable", "K8:constant-variable-in-block", "K8:constant-block", "K8:duplicate-objects", "K8:duplicate-variable-in-block",
                     "K8:same-variable-in-two-blocks", "K6:nproc1", "K6:nproc2", "K6:nproc3", "K6:nproc16", "K6:width<nproc", "K6:blocks<nproc", "K6:n<nproc", "K6:n=k*nproc+-1",
                     "K6:n-ragged-slice", "K6:n-idle-worker", "K6:single-index-vector", "K7:other-fits-before,same-data-again-after",
                     "K7:projection-into-sized-output-same-shape", "K7:projection-into-sized-output-larger", "K7:projection-into-sized-output-smaller"]
                    + ["K5K8:constant-variable-scaling%d" % s for s in range(6)] + ["K3:offset-scaling%d" % s for s in range(6)] + ["scaling%d" % s for s in range(6)])


def _account(ctx, chunks, audit_only=False):
    nfit = ndrop = 0
    drops = {}
    worst = dict(truth=0.0, reproj=0.0, pcaref=0.0, superErr=0, blockref=0, share=0, oracle=0, again=0.0, tvErr=0.0, blocktruth=0.0, proj2=0.0)
    blocks = [b for ev in chunks for b in tlc.split_blocks(ev)]
    live = []
    for b in blocks:
        fit = next((e for e in b if e["e"] == "Fit"), None)
        if not fit:
            continue
        dr = next((e for e in b if e["e"] == "Dropped"), None)
        if dr:
            ndrop += 1
            drops[dr["why"]] = drops.get(dr["why"], 0) + 1
            continue
        live.append((fit, b))
    if not live:
        raise InfraError("c09 harness produced no fits")
    stags = _tag_shapes(ctx, {(f["n"], tuple(f["widths"]), f["nproc"]) for f, b in live})
    mt_calls = 0
    for fit, b in live:
        nfit += 1
        ctx.case((fit["blocks"], tuple(fit["widths"]), fit["n"], fit["scaling"], fit["npc"], fit["nproc"]) + tuple(fit[k] for k in CLS_FIELDS) + tuple(fit["bm"]), fit["diffw"] == 1)
        for t in list(stags[(fit["n"], tuple(fit["widths"]), fit["nproc"])]) + _feature_tags(fit):
            ctx.cls(t)
        done = any(e["e"] == "Truth" for e in b)
        if done:
            mt = next((e for e in b if e["e"] == "Mt"), None)
            its = next((e for e in b if e["e"] == "Iters"), None)
            if mt is None or its is None or not any(e["e"] == "Proj" for e in b) or not any(e["e"] == "Proj2" for e in b):
                raise InfraError("c09 harness: Proj / Proj2 / Mt / Iters events missing for %s" % fit)
            if fit["nproc"] > 1:
                if mt["calls"] <= 0 or not any(e["e"] == "Slices" for e in b):
                    raise InfraError("c09: forced nproc=%d but the slice hook (H3) did not fire in the CPCA() under test (%s)" % (fit["nproc"], fit))
                mt_calls += mt["calls"]
            if len(its["its"]) != fit["npc"] or min(its["its"]) < 1:
                raise InfraError("c09: the iteration hook (H4) did not fire for every component of the CPCA() under test (%s: %s)" % (fit, its))
            if fit["hist"] and not any(e["e"] in ("Again", "Abort") for e in b):
                raise InfraError("c09: history case without an Again event (%s)" % fit)
        sig2 = next((e["sig2"] for e in b if e["e"] == "Spectrum"), [])
        share = next((e["share"] for e in b if e["e"] == "Shares"), [])
        nzb = next((e["nz"] for e in b if e["e"] == "Shares"), [])
        m, n = _ncmp(sig2), fit["n"]
        btc = [max(x, 1e-7) for x in _bounds_t(sig2, math.sqrt(n * 1e-18))]
        btp = _bounds_t(sig2, math.sqrt(n * 1e-10))
        st = 0
        bv = []
        for e in b:
            if e["e"] == "Cpca":
                bv = e["blockVar"]
                st += e["totalVar"]
                worst["superErr"] = max(worst["superErr"], e["superErr"])
                worst["blockref"] = max([worst["blockref"]] + [abs(x - y) for x, y, z in zip(e["blockVar"], e["blockRef"], nzb) if z])
                ws = sum(s * min(max(v, 0), 10 ** 9) // 10 ** 9 for s, v in zip(share, e["blockVar"]))
                worst["share"] = max(worst["share"], abs(st - ws))
                if e["k"] <= m:
                    worst["reproj"] = max(worst["reproj"], e["reproj"] * 1e-9 / btc[e["k"] - 1])
            elif e["e"] == "Truth" and e["k"] <= m:
                worst["truth"] = max(worst["truth"], e["dist"] * 1e-9 / btc[e["k"] - 1])
                tol = 4 * math.ceil(math.sqrt(n)) + (len(sig2) + 1) * (10 ** 9 // sig2[e["k"] - 1]) + 100
                worst["tvErr"] = max(worst["tvErr"], e["tvErr"] / tol)
                btol = 4 * min(sum(btc[:e["k"]]), 0.2) * 1e9 + 10
                worst["blocktruth"] = max([worst["blocktruth"]] + [abs(x - y) / btol for x, y, z in zip(bv, e["blockTruth"], nzb) if z])
            elif e["e"] == "Proj2":
                for k in range(min(m, len(e["err"]))):
                    worst["proj2"] = max(worst["proj2"], e["err"][k] * 1e-9 / btc[k])
            elif e["e"] == "PcaRef" and e["k"] <= m:
                worst["pcaref"] = max(worst["pcaref"], e["dist"] * 1e-9 / (btc[e["k"] - 1] + btp[e["k"] - 1]))
            elif e["e"] == "Oracle":
                worst["oracle"] = max(worst["oracle"], e["err"])
            elif e["e"] == "Scale":
                for k in range(min(m, len(e["terr"]))):
                    worst["scale_pair"] = max(worst.get("scale_pair", 0.0), e["terr"][k] * 1e-9 / (2 * btc[k]))
                    worst["scale_var_1e-9"] = max(worst.get("scale_var_1e-9", 0), e["verr"][k], e["berr"][k])
            elif e["e"] == "Again":
                for k in range(min(m, len(e["terr"]))):
                    worst["again"] = max(worst["again"], e["terr"][k] * 1e-9 / (2 * btc[k]))
    fits = [(f, next((e["sig2"] for e in b if e["e"] == "Spectrum"), [])) for f, b in live]
    classes = dict(compared=sum(1 for f, s2 in fits if _ncmp(s2) >= 1), two_compared=sum(1 for f, s2 in fits if _ncmp(s2) >= 2),
                   multi_component=sum(1 for f, s2 in fits if f["npc"] >= 2), different_widths=sum(1 for f, s2 in fits if f["diffw"]))
    classes["magnitude_pairs"] = sum(1 for ev in chunks for e in ev if e["e"] == "Scale")
    classes["small_magnitude_multi_component"] = sum(1 for f, s2 in fits if f["scaling"] == 0 and f["dec"] <= -6 and f["npc"] >= 2)
    classes["large_magnitude"] = sum(1 for f, s2 in fits if f["scaling"] == 0 and f["dec"] >= 4)
    classes["constant_variable_compared"] = sum(1 for f, s2 in fits if 1 <= f["cc"] <= 6 and _ncmp(s2) >= 1)
    classes["again_events"] = sum(1 for ev in chunks for e in ev if e["e"] == "Again")
    classes["proj2_fewer_components"] = sum(1 for ev in chunks for e in ev if e["e"] == "Proj2" and e["req"] == 1)
    classes["proj2_more_components"] = sum(1 for ev in chunks for e in ev if e["e"] == "Proj2" and e["req"] > 1)
    classes["slices_events"] = sum(1 for ev in chunks for e in ev if e["e"] == "Slices")
    classes["zero_block_models"] = sum(1 for ev in chunks for e in ev if e["e"] == "Shares" and 0 in e["nz"])
    for nbk in (2, 3, 4):
        classes["blocks_%d" % nbk] = sum(1 for f, s2 in fits if f["blocks"] == nbk)
    ctx.steps["classes"] = classes
    ctx.steps["worst_observed"] = {k: (round(v, 4) if isinstance(v, float) else v) for k, v in worst.items()}
    ctx.steps["models"] = dict(fitted=nfit, dropped_outside_quantifier=ndrop, dropped_why=drops)
    ctx.steps["mt_kernel_calls_in_fits_under_test"] = mt_calls
    return nfit, ndrop


def _vacuity(ctx):
    """every class the check claims was really executed (evaluated after the validation: a violating tree may abort cases)"""
    classes, m = ctx.steps["classes"], ctx.steps["models"]
    missing = [k for k, v in classes.items() if v == 0] + [k for k in REQUIRED_CLASSES if not ctx.classes.get(k)]
    if not ctx.quick:
        missing += [k for k in ("K6:nproc5", "K6:nproc24") if not ctx.classes.get(k)]
    if missing and not ctx.violations:
        raise InfraError("c09 recording does not exercise: %s (vacuous antecedents)" % missing)
    nfit, ndrop = m["fitted"], m["dropped_outside_quantifier"]
    if ndrop > 0.25 * (nfit + ndrop):
        raise InfraError("c09: %d of %d planned cases were dropped as outside the quantifier (%s): the generator is off target" % (ndrop, nfit + ndrop, m["dropped_why"]))


def _name(block, ev):
    """name the violated conjunct (naming only; the verdict is TLC's)"""
    fit = next((e for e in block if e["e"] == "Fit"), {})
    sig2 = next((e["sig2"] for e in block if e["e"] == "Spectrum"), [])
    share = next((e["share"] for e in block if e["e"] == "Shares"), [])
    nzb = next((e["nz"] for e in block if e["e"] == "Shares"), [1] * len(share))
    n = fit.get("n", 5)
    m = _ncmp(sig2)
    btc = [max(x, 1e-7) for x in _bounds_t(sig2, math.sqrt(n * 1e-18))]
    btp = _bounds_t(sig2, math.sqrt(n * 1e-10))
    e = ev.get("e")
    if e == "Fit":
        return "generator", "recorded case outside the quantifier (PropFitC): %s" % ev
    if e == "Diverge":
        return "no-convergence", "NIPALS loop of %s did not converge within %s iterations (component %s)" % (ev.get("site"), ev.get("it"), ev.get("comp"))
    if e == "Abort":
        return ("no-convergence" if ev.get("why") == "iteration-budget" else "crash:%s" % ev.get("why")), "fit did not finish: %s" % ev
    if e == "Oracle":
        return "oracle", "oracles disagree: %s" % ev
    if e == "Proj":
        return "reproj:shape", "CPCAScorePredictor left a %sx%s super-score matrix for %s objects and %s components (output sized before: kind %s)" % (
            ev.get("rows"), ev.get("cols"), n, fit.get("npc"), fit.get("sized"))
    if e == "Proj2":
        return "reproj:components", "CPCAScorePredictor asked for %s components of a %s-component model left a %sx%s matrix, distances to the model's super scores %s (1e-9)" % (
            ev.get("req"), fit.get("npc"), ev.get("rows"), ev.get("cols"), ev.get("err"))
    if e == "Slices":
        return "mt:slices", "threaded kernel (nproc %s) does not hand every index of a length-%s result to exactly one worker: from %s to %s" % (fit.get("nproc"), ev.get("len"), ev.get("fr"), ev.get("to"))
    if e == "Cpca":
        prev, st, last = [0] * fit.get("blocks", 0), 0, 10 ** 9
        for x in block:
            if x is ev:
                break
            if x["e"] == "Cpca":
                prev, st, last = x["blockVar"], st + x["totalVar"], x["totalVar"]
        if ev["superErr"] > 10000:
            return "super", "component %d: super score differs from block scores x super weights by %.3g (relative)" % (ev["k"], ev["superErr"] * 1e-12)
        for b, (v, r) in enumerate(zip(ev["blockVar"], ev["blockRef"])):
            if v < -3 or v > 10 ** 9 + 3:
                return "blockvar", "component %d block %d: explained variance %.6f %% outside [0,100]" % (ev["k"], b + 1, v * 1e-7)
            if v < prev[b] - 3:
                return "blockvar", "component %d block %d: cumulative explained variance decreases (%.6f %% after %.6f %%)" % (ev["k"], b + 1, v * 1e-7, prev[b] * 1e-7)
            if nzb[b] and abs(v - r) > 10:
                return "blockvar", "component %d block %d: explained variance %.6f %% but the model's own residual leaves %.6f %% explained (not cumulative / wrong block total?)" % (ev["k"], b + 1, v * 1e-7, r * 1e-7)
        if ev["totalVar"] < 0 or ev["totalVar"] > last + 3 or st + ev["totalVar"] > 10 ** 9 + 3:
            return "totalvar", "component %d: total explained variance %.6f %% (previous %.6f %%, running sum %.6f %%)" % (ev["k"], ev["totalVar"] * 1e-7, last * 1e-7, (st + ev["totalVar"]) * 1e-7)
        ws = sum(s * min(max(v, 0), 10 ** 9) // 10 ** 9 for s, v in zip(share, ev["blockVar"]))
        if abs(st + ev["totalVar"] - ws) > 30 + 10 * ev["k"]:
            return "totalvar", "component %d: running total %.7f %% differs from the share-weighted block variances %.7f %%" % (ev["k"], (st + ev["totalVar"]) * 1e-7, ws * 1e-7)
        if ev["k"] <= m and ev["reproj"] * 1e-9 > btc[ev["k"] - 1]:
            return "reproj", "component %d: projecting the training tensor gives super scores off by %.3g (bound %.3g)" % (ev["k"], ev["reproj"] * 1e-9, btc[ev["k"] - 1])
        if ev.get("k") != sum(1 for x in block[:block.index(ev)] if x["e"] == "Cpca") + 1:
            return "components", "component index %s out of order" % ev.get("k")
        return "ledger", "event rejected: %s" % ev
    if e == "Scale":
        return "equivariance:scale", ("CPCA(2^%d X) differs from CPCA(X) (data decade 1e%s): normalised super scores %s, total explained variance (relative) %s, "
                                      "block explained variance %s (1e-9 units, per component)" % (ev["kexp"], fit.get("dec"), ev["terr"], ev["verr"], ev["berr"]))
    if e == "Again":
        return "history", ("the same data fitted again after other fits in the same process gives another model: normalised super scores differ by %s, total explained variance (relative) %s "
                           "(1e-9 units, per component)" % (ev["terr"], ev["verr"]))
    if e == "Truth":
        if ev["k"] <= m and ev["dist"] * 1e-9 > btc[ev["k"] - 1]:
            return "super", "component %d: super score differs from +-(PCA score of the block-scaled concatenation, oracle) by %.3g relative (bound %.3g)" % (ev["k"], ev["dist"] * 1e-9, btc[ev["k"] - 1])
        tv = next((x["totalVar"] for x in block if x["e"] == "Cpca" and x["k"] == ev["k"]), 0)
        bvk = next((x["blockVar"] for x in block if x["e"] == "Cpca" and x["k"] == ev["k"]), [])
        tol = 4 * math.ceil(math.sqrt(n)) + (len(sig2) + 1) * (10 ** 9 // max(1, sig2[ev["k"] - 1])) + 100 if ev["k"] <= len(sig2) else 0
        if ev["k"] <= m and ev["tvErr"] <= tol:
            btol = 4 * min(sum(btc[:ev["k"]]), 0.2) * 1e9 + 10
            for b, (v, r, z) in enumerate(zip(bvk, ev.get("blockTruth", []), nzb)):
                if z and abs(v - r) > btol:
                    return "blockvar", ("component %d block %d: explained variance %.6f %% but the first %d PCA scores of the concatenation (oracle) explain %.6f %% of that block "
                                        "(wrong block total / not cumulative)" % (ev["k"], b + 1, v * 1e-7, ev["k"], r * 1e-7))
        return "totalvar", "component %d: total explained variance %.5f %% differs from that PCA's explained variance (lambda_k/trace of the concatenation, oracle) by %.3g relative" % (ev["k"], tv * 1e-7, ev["tvErr"] * 1e-9)
    if e == "PcaRef":
        return "pcaref", ("component %d: library PCA on the block-scaled concatenation: score distance %.3g (bound %.3g), explained variance %.7f %% vs CPCA total %.7f %% "
                          "(CPCA itself agrees with the oracle: the deviation is on PCA's side)" % (
                              ev["k"], ev["dist"] * 1e-9, (btc[ev["k"] - 1] + btp[ev["k"] - 1]) if ev["k"] <= m else float("nan"), ev["varexp"] * 1e-7,
                              next((x["totalVar"] for x in block if x["e"] == "Cpca" and x["k"] == ev["k"]), 0) * 1e-7))
    return "trace", "event %s rejected" % ev


def _validate(ctx, chunks, label, max_rounds):
    def on_reject(ev, idx, block):
        fit = next((e for e in block if e["e"] == "Fit"), {})
        nm, what = _name(block, ev)
        if nm == "oracle":
            raise InfraError("C09 oracles (Jacobi / dsyev / construction) disagree on %s: %s" % (fit, ev))
        if nm == "generator":
            raise InfraError("C09 generator left the quantifier: %s" % fit)
        cls = ", ".join("%s=%s" % (k, fit.get(k)) for k in ("nproc", "cc", "off", "bm", "hist", "sized", "deg") if fit.get(k) not in (None, 0, 1 if k == "nproc" else 0) and (k != "bm" or any(fit.get(k))))
        ctx.violation("CPCA:%s" % nm, "n=%s widths=%s scaling=%s npc=%s decade=%s seed=%s%s: %s" % (
            fit.get("n"), fit.get("widths"), fit.get("scaling"), fit.get("npc"), fit.get("dec"), fit.get("seed"), (" [" + cls + "]") if cls else "", what),
            dict(_case_of(fit) or {}, event=ev))

    def one(args):
        i, ev = args
        return trace.check_trace(ctx, "TraceCpca", "Trace_Cpca.cfg", "Trace_Cpca_prop.cfg", ev + [{"e": "Reset"}], on_reject, drop="block", max_rounds=max_rounds,
                                 label="%s_%d" % (label, i), timeout=1500)
    # every model starts from a Reset: small recordings are concatenated so that one TLC start validates ~75 models or more
    merged, cur = [], []
    for ch in chunks:
        cur = cur + ch
        if sum(1 for e in cur if e.get("e") == "Fit") >= 75:
            merged.append(cur)
            cur = []
    if cur:
        merged.append(cur)
    with ThreadPoolExecutor(W) as ex:
        return sum(ex.map(one, list(enumerate(merged))))


def _binding(ctx, chunks):
    allb = [b for ch in chunks for b in tlc.split_blocks(ch) if any(e["e"] == "PcaRef" for e in b) and _ncmp(next((e["sig2"] for e in b if e["e"] == "Spectrum"), [])) >= 1
            and not any(e["e"] in ("Abort", "Diverge") for e in b)]
    if not allb:
        if ctx.violations:
            ctx.note("binding self-test skipped: no completed model in the recording (violations reported above)")
            return
        raise InfraError("c09: no completed model for the binding self-tests")
    pick = allb[:10]
    for want in ("Again", "Slices"):
        pick += [b for b in allb if any(e["e"] == want for e in b)][:2]
    pick += [b for b in allb if any(e["e"] == "Cpca" and e["k"] == 2 for e in b)][:2]
    pick += [b for b in allb if any(e["e"] == "Fit" and 1 <= e["cc"] <= 6 for e in b)][:2]
    ev = [e for b in pick for e in b]

    def first(kind, fn):
        def corrupt(evs):
            for e in evs:
                if e["e"] == kind and fn(e):
                    return True
            return False
        return corrupt

    def c_truth(e):
        if e["k"] != 1:
            return False
        e["dist"] = min(2000000000, max(1, e["dist"]) * 1000000)
        return True

    def c_tv(e):
        if e["k"] != 1:
            return False
        e["tvErr"] = 80000000          # 8 % relative: the size of the seeded "trace by width" deviation
        return True

    def c_bv(e):
        if e["k"] != 2:
            return False
        e["blockVar"][0] = e["blockVar"][0] // 2        # cumulative variance falling back: must be rejected
        return True

    def c_bref(e):
        if not any(v > 60000000 for v in e["blockVar"]):
            return False
        e["blockVar"] = [v - 50000000 if v > 60000000 else v for v in e["blockVar"]]      # 5 percentage points below the model's own residual
        return True

    def c_btruth(e):
        if e["k"] != 1 or not any(v > 60000000 for v in e["blockTruth"]):
            return False
        e["blockTruth"] = [v - 50000000 if v > 60000000 else v for v in e["blockTruth"]]
        return True

    def c_proj2(e):
        if e["req"] != 1:
            return False
        e["cols"] = 2
        return True

    def c_proj(e):
        e["rows"] += 1
        return True

    def c_again(e):
        e["terr"][0] = 2000000000
        return True

    def c_slices(e):
        e["to"][-1] -= 1
        return True

    def c_fit(e):
        e["cc"] = 9
        return True

    def c_mt(e):
        if e["nproc"] <= 1:
            return False
        e["calls"] = 0
        return True

    def c_iters(e):
        e["its"][0] = 0
        return True
    tests = [("Truth", c_truth, "binding_truth_dist_x1e6", "Trace_Cpca_prop.cfg"), ("Truth", c_tv, "binding_truth_total_variance", "Trace_Cpca_prop.cfg"),
             ("Cpca", c_bref, "binding_blockvar_vs_residual", "Trace_Cpca_prop.cfg"), ("Proj", c_proj, "binding_proj_shape", "Trace_Cpca_prop.cfg"),
             ("Fit", c_fit, "binding_fit_quantifier", "Trace_Cpca_prop.cfg"), ("Iters", c_iters, "binding_iters_impl", "Trace_Cpca.cfg"),
             ("Truth", c_btruth, "binding_truth_block_variance", "Trace_Cpca_prop.cfg")]
    if any(e["e"] == "Proj2" and e["req"] == 1 for e in ev):
        tests.append(("Proj2", c_proj2, "binding_proj2_components", "Trace_Cpca_prop.cfg"))
    if any(e["e"] == "Cpca" and e["k"] == 2 for e in ev):
        tests.append(("Cpca", c_bv, "binding_blockvar_monotone", "Trace_Cpca_prop.cfg"))
    if any(e["e"] == "Again" for e in ev):
        tests.append(("Again", c_again, "binding_again", "Trace_Cpca_prop.cfg"))
    if any(e["e"] == "Slices" for e in ev):
        tests += [("Slices", c_slices, "binding_slices_cover", "Trace_Cpca_prop.cfg"), ("Mt", c_mt, "binding_mt_impl", "Trace_Cpca.cfg")]

    def run1(t):
        kind, fn, label, cfg = t
        trace.binding_selftest(ctx, "TraceCpca", cfg, ev, first(kind, fn), label)
    with ThreadPoolExecutor(W) as ex:
        list(ex.map(run1, tests))
    ctx.steps["binding_selftests"] = [t[2] for t in tests]


def _refit_extra(ctx, exe, rd, shapes):
    """outside the statement of C09: CPCA() into a model object that already holds a fit (EXTRA-FINDING only, a trace of its own)"""
    rng = random.Random(ctx.seed + 4711)
    small = sorted(k for k in shapes if k[2] == 1 and sum(k[1]) <= 12 and k[0] <= 12)
    jobs = [_job(rng, rng.choice(small), scaling=i % 6, dec=0) for i in range(4 if ctx.quick else 24)]
    chunks = _record(ctx, exe, rd, [], {"refit": jobs}, mode="refit", extra=True)
    n = sum(1 for ch in chunks for e in ch if e["e"] in ("Refit", "Abort"))
    if n == 0:
        raise InfraError("c09 refit mode produced no Refit event")

    ev = [e for ch in chunks for e in ch] + [{"e": "Reset"}]
    ok, upto, r = tlc.validate_trace("TraceCpca", "Trace_Cpca_prop.cfg", ev, timeout=600)
    ctx.add_tlc(r, "trace_refit")
    if not ok:
        bad = ev[upto] if upto < len(ev) else {}
        fit = next((e for e in reversed(ev[:upto + 1]) if e.get("e") == "Fit"), {})
        ctx.extra("CPCA:history:refit-into-used-model",
                  "CPCA() called on a CPCAMODEL that already holds a fit does not rebuild it (n=%s widths=%s scaling=%s npc=%s seed=%s: %s): scaling_factor, colaverage/colscaling, block_scores, "
                  "block_loadings, total_expvar and block_expvar are appended to, so the model keeps the first fit's tables in front" % (
                      fit.get("n"), fit.get("widths"), fit.get("scaling"), fit.get("npc"), fit.get("seed"), bad))
    ctx.steps["refit_cases"] = n


def run(ctx):
    ctx.assumptions += [
        "sampled inputs (seeded); no exhaustiveness claim: level exploration",
        "reference = eigen-decomposition (long-double cyclic Jacobi, cross-checked per model against LAPACK dsyev and, for scaling 0 without class features, the constructed SVD) of the concatenation of "
        "MatrixPreprocess(block)/sqrt(width) computed by the harness; MatrixPreprocess is the definition of 'preprocessed identically' (C10)",
        "bounds computed by TLC from the logged spectrum: K = 30, CPCA eps = sqrt(n*1e-18) with floor 1e-7, PCA eps = sqrt(n*1e-10) for the PcaRef comparison; components judged up to the first squared singular ratio > 0.7225",
        "inputs whose column scale falls into the zero-scale guard zone (< 1.2e-2, constant variables excepted), with every block constant, with a component requested beyond the numerical rank, "
        "with a value at the missing code or (added classes only) with an unseparated requested spectrum are dropped and counted by reason",
        "the harness's residual evaluation and quantisation are trusted; binding self-tests corrupt one field of every event kind and insist on rejection",
    ]
    bg = ThreadPoolExecutor(2)
    fut_model = bg.submit(_model_checks, ctx)          # (M) is independent of the recording: a few small TLC runs beside the harness processes
    shapes = _gen(ctx)
    lib = build.build_lib("san")
    exe = build.build_harness("c09", ["c09_drv.c"], lib)
    rd = tlc.rundir()
    try:
        s = ctx.seed
        sweep = [(s + 977 * i, 75, 1) for i in range(4)] if ctx.quick else [(s + 977 * i, 1500, 1) for i in range(6)] + [(s + 5003, 60, 2), (s + 5004, 30, 16)]
        audit = os.environ.get("C09_AUDIT_OLD") == "1"
        groups = {} if audit else _plan(ctx, shapes)
        deferred = Deferred(ctx)
        chunks = _record(ctx, exe, rd, sweep, groups, deferred=deferred)
        if not chunks:
            deferred.add("c09 harness recorded no complete model")
            deferred.settle()
            return
        fut_acc = bg.submit(_account, ctx, chunks, audit)       # accounting + the TLC run that tags the executed shapes, beside the validation
        for b in tlc.split_blocks(chunks[0])[:2] + [b for ch in chunks[len(sweep):] for b in tlc.split_blocks(ch)[:1]][:4]:
            ctx.sample(b)
        ctx.cov["rule"] = ("random multi-block data (2..4 blocks x 1..8 variables, 5..30 objects, scalings 0..5, npc 1..min width; data decades 1e-8..1e6 for scaling 0 plus a paired run rescaled by 2^+-(4..27), decades 1..1e3 for scalings 1..5) whose block-scaled "
                           "concatenation is built from a known separated SVD, plus stratified class cases drawn from the shapes CpcaGen.tla emits (planned per group: %s); one evaluation = one CPCA model (+ projection + library PCA reference) validated by TLC; "
                           "distinct = distinct (blocks, widths, n, scaling, npc, nproc, class coordinates); non-trivial = at least two blocks of different width" % {k: len(v) for k, v in groups.items()})
        rej = _validate(ctx, chunks, "trace_cpca", 4 if ctx.quick else 10)
        fut_model.result()
        nfit, ndrop = fut_acc.result()
        ctx.note("recorded %d models (%d dropped as outside the quantifier: %s); worst observed: %s" % (nfit, ndrop, ctx.steps["models"]["dropped_why"], ctx.steps["worst_observed"]))
        if not audit:
            deferred.guard(_vacuity, ctx)
        ctx.traces(max(0, nfit - rej))
        if not deferred:
            _binding(ctx, chunks)
            if not audit:
                _refit_extra(ctx, exe, rd, shapes)
        deferred.settle()
    finally:
        bg.shutdown(wait=True)
        shutil.rmtree(rd, ignore_errors=True)


def replay(ctx, body):
    case = body.get("case") or {}
    if case.get("kind") != "model" or case.get("seed") is None or not case.get("widths"):
        return run(ctx)
    lib = build.build_lib("san")
    exe = build.build_harness("c09", ["c09_drv.c"], lib)
    rd = tlc.rundir()
    try:
        out = os.path.join(rd, "replay.ndjson")
        w = list(case["widths"])
        j = dict(seed=case["seed"], n=case["n"], scaling=case["scaling"], npc=case["npc"], dec=case["dec"], nproc=case.get("nproc") or 1, w=w, cc=case.get("cc", 0), off=case.get("off", 0),
                 bm=list(case.get("bm") or [0] * len(w)), hist=case.get("hist", 0), sized=case.get("sized", 0), deg=case.get("deg", 0))
        env = dict(ASAN_OPTIONS=hrun.SAN_ENV["ASAN_OPTIONS"] + ":quarantine_size_mb=0:thread_local_quarantine_size_kb=0") if j["hist"] or j["sized"] else None
        h = hrun.run(exe, [out, "job"] + _line(j).split(), timeout=900, env=env)
        ev = [e for e in hrun.read_ndjson(out) if e.get("e") != "Summary"]
        if h.san:
            ctx.violation("CPCA:%s" % h.san, h.err[:1500], case)
        if not ev:
            raise InfraError("replay produced no events: %s" % h.err[-500:])
        ctx.case(("replay", len(w), tuple(w), case["scaling"], case["npc"]))
        ctx.case(("replay-seed", case["seed"]))
        ctx.sample(ev)
        ctx.cov["rule"] = "replay of one recorded model (seed, n, widths, scaling, npc, decade, class coordinates) refitted on the current tree"
        rej = _validate(ctx, [ev], "replay", 3)
        ctx.traces(0 if rej else 1)
    finally:
        shutil.rmtree(rd, ignore_errors=True)
