"""C09 - CPCA super scores are the PCA scores of the block-scaled concatenated data.

Mode 3 (ledger) relating two recorded models and an oracle.
(M)  Cpca.tla: an ideal CPCA over small integer block budgets; the ledger (cumulative block variances within [0,100] and
     non-decreasing, total = share-weighted blocks, totals non-increasing and summing to <= 100) accepts every ideal run and
     rejects three injected faults.
(C)  c09_drv fits the real CPCA() on multi-block data whose block-scaled concatenation has a known separated spectrum,
     computes the reference PCA scores itself (long-double Jacobi on the block-scaled concatenation, cross-checked with LAPACK
     dsyev), re-projects the training tensor with CPCAScorePredictor, also runs the library's PCA on the concatenation, and
     TLC validates every model against TraceCpca.tla with bounds it computes from the logged spectrum (CPCA criterion
     eps = sqrt(n*1e-18), floor 1e-7; PCA criterion for the PcaRef comparison).
"""
import math, os, shutil
from concurrent.futures import ThreadPoolExecutor
from vf import build, tlc, trace
from vf import run as hrun
from vf.core import InfraError

LEVEL = "exploration"
READY = True
TECHNIQUE = ("TLC model checking of the CPCA block-variance ledger (Cpca.tla: ideal runs accepted, three faults rejected) + TLC trace validation of ledgers recorded "
             "from the real CPCA/CPCAScorePredictor against an eigen-decomposition of the block-scaled concatenation computed by the harness (long-double Jacobi, "
             "LAPACK dsyev) and against the library's own PCA, with criterion-implied bounds computed by TLC")
LEVEL_TEXT = ("Sampled inputs: 2..4 blocks x 1..8 variables, 5..30 objects, scalings 0..5, 1..min-width components, separated spectra over data magnitudes 1e-8..1e6 (scaling 0; 1..1e3 for the normalising options) are fitted by the "
              "real CPCA(); TLC validates per component that the super score equals +- the oracle PCA score of the identically preprocessed, sqrt(width)-scaled concatenation "
              "within the CPCA criterion's bound, that total explained variance equals that PCA's, super = block scores x super weights, block variances are cumulative, "
              "monotone, within [0,100] and consistent with the total, and that projecting the training tensor reproduces the super scores.")
LEVEL_NOTE = ("Exploration, not exhaustive. Trusts TLC, the harness's construction of the reference (MatrixPreprocess per block as the definition of 'preprocessed identically', "
              "long-double Jacobi cross-checked against dsyev on every model), its residual evaluation and quantisation (binding self-test). The comparison against the "
              "library's own PCA inherits PCA's looser criterion and any PCA defect (finding F11).")


def _ncmp(sig2):
    k = 0
    while k < len(sig2) and k < 6:
        rho9 = (sig2[k + 1] * 10 ** 9 // sig2[k]) if k + 1 < len(sig2) and sig2[k] > 0 else 0
        if sig2[k] < 1000 or rho9 > 722500000:
            break
        k += 1
    return k


def _bounds_t(sig2, eps, K=30.0):
    bt, bp = [], []
    for k in range(_ncmp(sig2)):
        rho = sig2[k + 1] / sig2[k] if k + 1 < len(sig2) else 0.0
        gt, gp = max(rho / (1 - rho), 0.05), max(math.sqrt(rho) / (1 - rho), 0.05)
        lp = sum(bp)
        lt = sum(bp[j] * math.sqrt(sig2[j] / sig2[k]) for j in range(k))
        bp.append(min(1.0, K * eps * gp + lp / (1 - rho)))
        bt.append(min(1.0, K * eps * gt + lt / (1 - rho)))
    return bt


def _ceil_sqrt(x):
    r = math.isqrt(x)
    return r if r * r == x else r + 1


def _model_checks(ctx):
    cfg = "MC_Cpca_quick.cfg" if ctx.quick else "MC_Cpca_thorough.cfg"
    r = tlc.run("Cpca", cfg, timeout=1500)
    ctx.add_tlc(r, "mc_cpca_ledger")
    if not r.ok:
        raise InfraError("Cpca.tla: the ledger rejects an ideal CPCA run (%s):\n%s" % (r.violation, r.trace_text[:1500]))
    z = r.zero_actions(ignore=("CInit",))
    if z:
        raise InfraError("Cpca.tla model: actions never taken: %s" % z)
    rd = tlc.rundir()
    try:
        base = open(os.path.join(tlc.SPEC, "MC_Cpca_quick.cfg")).read()
        faults = ["not_cumulative", "over_100", "total_unrelated"]

        def one(f):
            p = os.path.join(rd, "fault_%s.cfg" % f)
            open(p, "w").write(base.replace('CFault = "none"', 'CFault = "%s"' % f))
            return f, tlc.run("Cpca", p, timeout=600, workers=2, coverage=False)
        with ThreadPoolExecutor(3) as ex:
            for f, rf in ex.map(one, faults):
                ctx.add_tlc(rf, "mc_cpca_fault_%s" % f)
                if rf.ok or rf.violation != "CLedgerAccepts":
                    raise InfraError("Cpca.tla: injected fault %s is not rejected by the ledger (vacuous)" % f)
    finally:
        shutil.rmtree(rd, ignore_errors=True)
    ctx.note("ledger model: %d states, ideal runs accepted; faults not_cumulative, over_100, total_unrelated rejected" % r.distinct)


def _record(ctx, exe, rd, plan, timeout=2400):
    jobs = [[os.path.join(rd, "c09_%d.ndjson" % i), "sweep", sd & 0x3FFFFFFF, cnt, nproc] for i, (sd, cnt, nproc) in enumerate(plan)]
    res = hrun.run_many(exe, jobs, timeout=timeout, workers=6)
    chunks = []
    for j, h in zip(jobs, res):
        ev = hrun.read_ndjson(j[0])
        if h.san:
            last = next((e for e in reversed(ev) if e.get("e") == "Fit"), {})
            ctx.violation("CPCA:%s" % h.san, "sanitizer report while fitting %s:\n%s" % (last, h.err[:1500]), dict(kind="model", fit=last))
        if h.timed_out:
            raise InfraError("c09 harness timed out")
        if h.rc != 0 and not h.san:
            raise InfraError("c09 harness failed rc=%d\n%s" % (h.rc, h.err[-800:]))
        if not any(e.get("e") == "Summary" for e in ev):
            raise InfraError("c09 harness wrote no Summary")
        if any(e.get("e") == "Abort" and e.get("why") == "watchdog" for e in ev):
            raise InfraError("c09 harness: wall-clock watchdog fired without the iteration budget (machine load)")
        chunks.append([e for e in ev if e.get("e") != "Summary"])
    return chunks


def _account(ctx, chunks):
    nfit = ndrop = 0
    worst = dict(truth=0.0, reproj=0.0, pcaref=0.0, superErr=0, blockref=0, share=0, oracle=0)
    for ev in chunks:
        for b in tlc.split_blocks(ev):
            fit = next((e for e in b if e["e"] == "Fit"), None)
            if not fit:
                continue
            if any(e["e"] == "Dropped" for e in b):
                ndrop += 1
                continue
            nfit += 1
            ctx.case((fit["blocks"], tuple(fit["widths"]), fit["scaling"], fit["npc"]), fit["diffw"] == 1)
            sig2 = next((e["sig2"] for e in b if e["e"] == "Spectrum"), [])
            share = next((e["share"] for e in b if e["e"] == "Shares"), [])
            m, n = _ncmp(sig2), fit["n"]
            btc = [max(x, 1e-7) for x in _bounds_t(sig2, math.sqrt(n * 1e-18))]
            btp = _bounds_t(sig2, math.sqrt(n * 1e-10))
            st = 0
            for e in b:
                if e["e"] == "Cpca":
                    st += e["totalVar"]
                    worst["superErr"] = max(worst["superErr"], e["superErr"])
                    worst["blockref"] = max(worst["blockref"], max(abs(x - y) for x, y in zip(e["blockVar"], e["blockRef"])))
                    ws = sum(s * min(max(v, 0), 10 ** 9) // 10 ** 9 for s, v in zip(share, e["blockVar"]))
                    worst["share"] = max(worst["share"], abs(st - ws))
                    if e["k"] <= m:
                        worst["reproj"] = max(worst["reproj"], e["reproj"] * 1e-9 / btc[e["k"] - 1])
                elif e["e"] == "Truth" and e["k"] <= m:
                    worst["truth"] = max(worst["truth"], e["dist"] * 1e-9 / btc[e["k"] - 1])
                elif e["e"] == "PcaRef" and e["k"] <= m:
                    worst["pcaref"] = max(worst["pcaref"], e["dist"] * 1e-9 / (btc[e["k"] - 1] + btp[e["k"] - 1]))
                elif e["e"] == "Oracle":
                    worst["oracle"] = max(worst["oracle"], e["err"])
                elif e["e"] == "Scale":
                    for k in range(min(m, len(e["terr"]))):
                        worst["scale_pair"] = max(worst.get("scale_pair", 0.0), e["terr"][k] * 1e-9 / (2 * btc[k]))
                        worst["scale_var_1e-9"] = max(worst.get("scale_var_1e-9", 0), e["verr"][k], e["berr"][k])
    if nfit == 0:
        raise InfraError("c09 harness produced no fits")
    fits = [(next((e for e in b if e["e"] == "Fit"), None), next((e["sig2"] for e in b if e["e"] == "Spectrum"), [])) for ev in chunks for b in tlc.split_blocks(ev)]
    classes = dict(compared=sum(1 for f, s2 in fits if f and _ncmp(s2) >= 1), two_compared=sum(1 for f, s2 in fits if f and _ncmp(s2) >= 2),
                   multi_component=sum(1 for f, s2 in fits if f and f["npc"] >= 2), different_widths=sum(1 for f, s2 in fits if f and f["diffw"]))
    classes["magnitude_pairs"] = sum(1 for ev in chunks for e in ev if e["e"] == "Scale")
    classes["small_magnitude_multi_component"] = sum(1 for f, s2 in fits if f and f["scaling"] == 0 and f["dec"] <= -6 and f["npc"] >= 2)
    classes["large_magnitude"] = sum(1 for f, s2 in fits if f and f["scaling"] == 0 and f["dec"] >= 4)
    for sc in range(0, 6):
        classes["scaling_%d" % sc] = sum(1 for f, s2 in fits if f and f["scaling"] == sc)
    for nbk in (2, 3, 4):
        classes["blocks_%d" % nbk] = sum(1 for f, s2 in fits if f and f["blocks"] == nbk)
    ctx.steps["classes"] = classes
    missing = [k for k, v in classes.items() if v == 0]
    if missing:
        raise InfraError("c09 recording does not exercise: %s (vacuous antecedents)" % missing)
    ctx.steps["worst_observed"] = {k: (round(v, 4) if isinstance(v, float) else v) for k, v in worst.items()}
    ctx.steps["models"] = dict(fitted=nfit, dropped_outside_quantifier=ndrop)
    return nfit, ndrop


def _name(block, ev):
    """name the violated conjunct (naming only; the verdict is TLC's)"""
    fit = next((e for e in block if e["e"] == "Fit"), {})
    sig2 = next((e["sig2"] for e in block if e["e"] == "Spectrum"), [])
    share = next((e["share"] for e in block if e["e"] == "Shares"), [])
    n = fit.get("n", 5)
    m = _ncmp(sig2)
    btc = [max(x, 1e-7) for x in _bounds_t(sig2, math.sqrt(n * 1e-18))]
    btp = _bounds_t(sig2, math.sqrt(n * 1e-10))
    e = ev.get("e")
    if e == "Diverge":
        return "no-convergence", "NIPALS loop of %s did not converge within %s iterations (component %s)" % (ev.get("site"), ev.get("it"), ev.get("comp"))
    if e == "Abort":
        return ("no-convergence" if ev.get("why") == "iteration-budget" else "crash:%s" % ev.get("why")), "fit did not finish: %s" % ev
    if e == "Oracle":
        return "oracle", "oracles disagree: %s" % ev
    if e == "Cpca":
        prev, st, last = [0] * fit.get("blocks", 0), 0, 10 ** 9
        for x in block:
            if x is ev:
                break
            if x["e"] == "Cpca":
                prev, st, last = x["blockVar"], st + x["totalVar"], x["totalVar"]
        if ev["superErr"] > 10000:
            return "super", "component %d: super score differs from block scores x super weights by %.3g (relative)" % (ev["k"], ev["superErr"] * 1e-12)
        for b, (v, r) in enumerate(zip(ev["blockVar"], ev["blockRef"])):
            if v < -3 or v > 10 ** 9 + 3:
                return "blockvar", "component %d block %d: explained variance %.6f %% outside [0,100]" % (ev["k"], b + 1, v * 1e-7)
            if v < prev[b] - 3:
                return "blockvar", "component %d block %d: cumulative explained variance decreases (%.6f %% after %.6f %%)" % (ev["k"], b + 1, v * 1e-7, prev[b] * 1e-7)
            if abs(v - r) > 10:
                return "blockvar", "component %d block %d: explained variance %.6f %% but the model's own residual leaves %.6f %% explained (not cumulative?)" % (ev["k"], b + 1, v * 1e-7, r * 1e-7)
        if ev["totalVar"] < 0 or ev["totalVar"] > last + 3 or st + ev["totalVar"] > 10 ** 9 + 3:
            return "totalvar", "component %d: total explained variance %.6f %% (previous %.6f %%, running sum %.6f %%)" % (ev["k"], ev["totalVar"] * 1e-7, last * 1e-7, (st + ev["totalVar"]) * 1e-7)
        ws = sum(s * min(max(v, 0), 10 ** 9) // 10 ** 9 for s, v in zip(share, ev["blockVar"]))
        if abs(st + ev["totalVar"] - ws) > 30 + 10 * ev["k"]:
            return "totalvar", "component %d: running total %.7f %% differs from the share-weighted block variances %.7f %%" % (ev["k"], (st + ev["totalVar"]) * 1e-7, ws * 1e-7)
        if ev["k"] <= m and ev["reproj"] * 1e-9 > btc[ev["k"] - 1]:
            return "reproj", "component %d: projecting the training tensor gives super scores off by %.3g (bound %.3g)" % (ev["k"], ev["reproj"] * 1e-9, btc[ev["k"] - 1])
        if ev.get("k") != sum(1 for x in block[:block.index(ev)] if x["e"] == "Cpca") + 1:
            return "components", "component index %s out of order" % ev.get("k")
        return "ledger", "event rejected: %s" % ev
    if e == "Scale":
        return "equivariance:scale", ("CPCA(2^%d X) differs from CPCA(X) (data decade 1e%s): normalised super scores %s, total explained variance (relative) %s, "
                                      "block explained variance %s (1e-9 units, per component)" % (ev["kexp"], fit.get("dec"), ev["terr"], ev["verr"], ev["berr"]))
    if e == "Truth":
        if ev["k"] <= m and ev["dist"] * 1e-9 > btc[ev["k"] - 1]:
            return "super", "component %d: super score differs from +-(PCA score of the block-scaled concatenation, oracle) by %.3g relative (bound %.3g)" % (ev["k"], ev["dist"] * 1e-9, btc[ev["k"] - 1])
        return "totalvar", "component %d: total explained variance differs from lambda_k/trace of the concatenation by %.3g relative" % (ev["k"], ev["tvErr"] * 1e-9)
    if e == "PcaRef":
        return "pcaref", ("component %d: library PCA on the block-scaled concatenation: score distance %.3g (bound %.3g), explained variance %.7f %% vs CPCA total %.7f %% "
                          "(CPCA itself agrees with the oracle: the deviation is on PCA's side)" % (
                              ev["k"], ev["dist"] * 1e-9, (btc[ev["k"] - 1] + btp[ev["k"] - 1]) if ev["k"] <= m else float("nan"), ev["varexp"] * 1e-7,
                              next((x["totalVar"] for x in block if x["e"] == "Cpca" and x["k"] == ev["k"]), 0) * 1e-7))
    return "trace", "event %s rejected" % ev


def _validate(ctx, chunks, label, max_rounds):
    def on_reject(ev, idx, block):
        fit = next((e for e in block if e["e"] == "Fit"), {})
        nm, what = _name(block, ev)
        if nm == "oracle":
            raise InfraError("C09 oracles (Jacobi / dsyev / construction) disagree on %s: %s" % (fit, ev))
        ctx.violation("CPCA:%s" % nm, "n=%s widths=%s scaling=%s npc=%s decade=%s seed=%s: %s" % (
            fit.get("n"), fit.get("widths"), fit.get("scaling"), fit.get("npc"), fit.get("dec"), fit.get("seed"), what),
            dict(kind="model", seed=fit.get("seed"), n=fit.get("n"), widths=fit.get("widths"), scaling=fit.get("scaling"), npc=fit.get("npc"), dec=fit.get("dec"),
                 nproc=fit.get("nproc", 1), event=ev))

    def one(args):
        i, ev = args
        return trace.check_trace(ctx, "TraceCpca", "Trace_Cpca.cfg", "Trace_Cpca_prop.cfg", ev, on_reject, drop="block", max_rounds=max_rounds,
                                 label="%s_%d" % (label, i), timeout=1500)
    with ThreadPoolExecutor(6) as ex:
        return sum(ex.map(one, list(enumerate(chunks))))


def _binding(ctx, chunks):
    blocks = [b for ch in chunks[:3] for b in tlc.split_blocks(ch) if any(e["e"] == "PcaRef" for e in b)][:15]
    ev = [e for b in blocks for e in b]
    if not any(e["e"] == "Truth" for e in ev) and ctx.violations:
        ctx.note("binding self-test skipped: no completed model in the recording (violations reported above)")
        return

    def corrupt(evs):
        for e in evs:
            if e["e"] == "Truth" and e["k"] == 1:
                e["dist"] = min(2000000000, max(1, e["dist"]) * 1000000)
                return True
        return False
    trace.binding_selftest(ctx, "TraceCpca", "Trace_Cpca_prop.cfg", ev, corrupt, "binding_truth_dist_x1e6")

    def corrupt2(evs):
        for e in evs:
            if e["e"] == "Cpca" and e["k"] == 2:
                e["blockVar"][0] = e["blockVar"][0] // 2        # cumulative variance falling back: must be rejected
                return True
        return False
    if any(e["e"] == "Cpca" and e["k"] == 2 for e in ev):
        trace.binding_selftest(ctx, "TraceCpca", "Trace_Cpca_prop.cfg", ev, corrupt2, "binding_blockvar_monotone")


def run(ctx):
    ctx.assumptions += [
        "sampled inputs (seeded); no exhaustiveness claim: level exploration",
        "reference = eigen-decomposition (long-double cyclic Jacobi, cross-checked per model against LAPACK dsyev and, for scaling 0, the constructed SVD) of the concatenation of "
        "MatrixPreprocess(block)/sqrt(width) computed by the harness; MatrixPreprocess is the definition of 'preprocessed identically' (C10)",
        "bounds computed by TLC from the logged spectrum: K = 30, CPCA eps = sqrt(n*1e-18) with floor 1e-7, PCA eps = sqrt(n*1e-10) for the PcaRef comparison; components judged up to the first squared singular ratio > 0.7225",
        "inputs whose column scale falls into the zero-scale guard zone (< 1.2e-2) or with a constant block are dropped and counted",
        "the harness's residual evaluation and quantisation are trusted; binding self-test multiplies a logged distance by 1e6 and insists on rejection",
    ]
    _model_checks(ctx)
    lib = build.build_lib("san")
    exe = build.build_harness("c09", ["c09_drv.c"], lib)
    rd = tlc.rundir()
    try:
        s = ctx.seed
        plan = [(s + 977 * i, 75, 1) for i in range(4)] if ctx.quick else [(s + 977 * i, 1500, 1) for i in range(6)] + [(s + 5003, 60, 2), (s + 5004, 30, 16)]
        chunks = _record(ctx, exe, rd, plan)
        nfit, ndrop = _account(ctx, chunks)
        ctx.note("recorded %d models (%d dropped as outside the quantifier); worst observed: %s" % (nfit, ndrop, ctx.steps["worst_observed"]))
        for b in tlc.split_blocks(chunks[0])[:2]:
            ctx.sample(b)
        ctx.cov["rule"] = ("random multi-block data (2..4 blocks x 1..8 variables, 5..30 objects, scalings 0..5, npc 1..min width; data decades 1e-8..1e6 for scaling 0 plus a paired run rescaled by 2^+-(4..27), decades 1..1e3 for scalings 1..5) whose block-scaled "
                           "concatenation is built from a known separated SVD; one evaluation = one CPCA model (+ projection + library PCA reference) validated by TLC; "
                           "distinct = distinct (blocks, widths, scaling, npc); non-trivial = at least two blocks of different width")
        rej = _validate(ctx, chunks, "trace_cpca", 4 if ctx.quick else 10)
        ctx.traces(max(0, nfit - rej))
        _binding(ctx, chunks)
    finally:
        shutil.rmtree(rd, ignore_errors=True)


def replay(ctx, body):
    case = body.get("case") or {}
    if case.get("kind") != "model" or case.get("seed") is None or not case.get("widths"):
        return run(ctx)
    lib = build.build_lib("san")
    exe = build.build_harness("c09", ["c09_drv.c"], lib)
    rd = tlc.rundir()
    try:
        out = os.path.join(rd, "replay.ndjson")
        w = list(case["widths"])
        h = hrun.run(exe, [out, "one", case["seed"], case["n"], case["scaling"], case["npc"], case["dec"], case.get("nproc") or 1, len(w)] + w, timeout=900)
        ev = [e for e in hrun.read_ndjson(out) if e.get("e") != "Summary"]
        if h.san:
            ctx.violation("CPCA:%s" % h.san, h.err[:1500], case)
        if not ev:
            raise InfraError("replay produced no events: %s" % h.err[-500:])
        ctx.case(("replay", len(w), tuple(w), case["scaling"], case["npc"]))
        ctx.case(("replay-seed", case["seed"]))
        ctx.sample(ev)
        ctx.cov["rule"] = "replay of one recorded model (seed, n, widths, scaling, npc, decade) refitted on the current tree"
        rej = _validate(ctx, [ev], "replay", 3)
        ctx.traces(0 if rej else 1)
    finally:
        shutil.rmtree(rd, ignore_errors=True)
