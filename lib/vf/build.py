"""Build /repo's library (current working tree) and the C harnesses.

Every check calls build_lib(); the result is content-addressed on the bytes of /repo/src
(sources, headers, CMake lists) plus the flag set, so a check always links against a build of
the tree as it is *now*; an unchanged tree re-uses the previous objects.  Nothing lives under /tmp.
"""
import hashlib, os, re, subprocess, sys, shutil, fcntl, time
from concurrent.futures import ThreadPoolExecutor

VERIF = os.path.dirname(os.path.dirname(os.path.dirname(os.path.abspath(__file__))))
REPO = os.environ.get("VERIF_REPO", "/repo")
BUILD = os.path.join(VERIF, ".build")
GUARD = "LIBSCIENTIFIC_VERIF"

CONFIGS = {
    # name: (compiler, cflags, ldflags)
    "san": ("clang", ["-fsanitize=address,undefined", "-fno-omit-frame-pointer", "-fno-sanitize-recover=undefined",
                      "-g", "-O1"], ["-fsanitize=address,undefined"]),
    "plain": ("gcc", ["-O2", "-g"], []),
}
BASE_CFLAGS = ["-std=c99", "-D_GNU_SOURCE", "-fPIC", "-pthread", "-D" + GUARD, "-w"]
LIBS = ["-llapack", "-lblas", "-lsqlite3", "-lm", "-lpthread"]


class BuildError(Exception):
    pass


def _src_files():
    src = os.path.join(REPO, "src")
    txt = open(os.path.join(src, "CMakeLists.txt")).read()
    m = re.search(r"set\(Scientific_C_SRCS(.*?)\)", txt, re.S)
    if not m:
        raise BuildError("cannot find Scientific_C_SRCS in src/CMakeLists.txt")
    return [os.path.join(src, f) for f in m.group(1).split()]


def src_hash(extra=""):
    h = hashlib.sha1()
    src = os.path.join(REPO, "src")
    names = sorted(f for f in os.listdir(src) if f.endswith((".c", ".h", ".txt", ".in")))
    for n in names:
        h.update(n.encode())
        h.update(open(os.path.join(src, n), "rb").read())
    h.update(open(os.path.join(REPO, "CMakeLists.txt"), "rb").read())
    h.update(os.path.realpath(REPO).encode())      # the build dir holds a symlink into REPO/src: never share it between repositories
    h.update(extra.encode())
    return h.hexdigest()[:16]


def _gen_config_h(incdir):
    top = open(os.path.join(REPO, "CMakeLists.txt")).read()
    vals = {}
    for k in ("VERSION_MAJOR", "VERSION_MINOR", "VERSION_PATCH"):
        m = re.search(r"set\(%s\s+(\d+)\)" % k, top)
        vals[k] = m.group(1) if m else "0"
    tpl = open(os.path.join(REPO, "src", "scientificconfig.h.in")).read()
    for k, v in vals.items():
        tpl = tpl.replace("@%s@" % k, v)
    open(os.path.join(incdir, "scientificconfig.h"), "w").write(tpl)


class _Lock:
    def __init__(self, path):
        self.path = path

    def __enter__(self):
        os.makedirs(os.path.dirname(self.path), exist_ok=True)
        self.f = open(self.path, "w")
        fcntl.flock(self.f, fcntl.LOCK_EX)
        return self

    def __exit__(self, *a):
        fcntl.flock(self.f, fcntl.LOCK_UN)
        self.f.close()


def _prune(prefix, keep):
    """remove stale content-addressed dirs of the same kind (keeps disk bounded)"""
    try:
        for d in os.listdir(BUILD):
            if d.startswith(prefix) and d != keep:
                p = os.path.join(BUILD, d)
                if time.time() - os.path.getmtime(p) > 2 * 3600:
                    shutil.rmtree(p, ignore_errors=True)
    except OSError:
        pass


def build_lib(config="san", extra_defs=()):
    """returns dict(dir, lib, inc[], cc, cflags, ldflags)"""
    cc, cflags, ldflags = CONFIGS[config]
    key = src_hash(config + " ".join(extra_defs))
    out = os.path.join(BUILD, "lib-%s-%s" % (config, key))
    info = dict(dir=out, lib=os.path.join(out, "libsci.a"), inc=[os.path.join(out, "inc"), os.path.join(REPO, "src")],
                cc=cc, cflags=BASE_CFLAGS + cflags + ["-D" + d for d in extra_defs], ldflags=ldflags, key=key, config=config)
    with _Lock(os.path.join(BUILD, "lock-lib-%s" % config)):
        if os.path.exists(info["lib"]):
            os.utime(out)
            return info
        tmp = out + ".tmp%d" % os.getpid()
        shutil.rmtree(tmp, ignore_errors=True)
        os.makedirs(os.path.join(tmp, "inc"))
        _gen_config_h(os.path.join(tmp, "inc"))
        # <scientific/xxx.h> layout used by scientific.h
        os.symlink(os.path.join(REPO, "src"), os.path.join(tmp, "inc", "scientific"))
        files = _src_files()

        def comp(f):
            b = os.path.basename(f)[:-2]
            o = os.path.join(tmp, b + ".o")
            if b == "datasets":
                # clang+ASan does not terminate on this file (DESIGN section 1); data tables only
                cmd = ["gcc", "-O0"] + BASE_CFLAGS
            else:
                cmd = [cc] + info["cflags"]
            cmd += ["-I" + os.path.join(tmp, "inc"), "-I" + os.path.join(REPO, "src"), "-c", f, "-o", o]
            r = subprocess.run(cmd, capture_output=True, text=True)
            if r.returncode != 0:
                raise BuildError("compile failed: %s\n%s" % (" ".join(cmd), r.stderr[-4000:]))
            return o

        with ThreadPoolExecutor(16) as ex:
            objs = list(ex.map(comp, files))
        r = subprocess.run(["ar", "rcs", os.path.join(tmp, "libsci.a")] + objs, capture_output=True, text=True)
        if r.returncode != 0:
            raise BuildError("ar failed: " + r.stderr)
        # also a shared object for ctypes/nm based checks
        r = subprocess.run([cc] + ldflags + ["-shared", "-o", os.path.join(tmp, "libsci.so")] + objs + LIBS,
                           capture_output=True, text=True)
        if r.returncode != 0:
            raise BuildError("link failed: " + r.stderr[-2000:])
        shutil.rmtree(out, ignore_errors=True)
        os.rename(tmp, out)
        # symlink target was created relative to tmp: recreate
        _prune("lib-%s-" % config, os.path.basename(out))
    return info


def build_harness(name, sources, lib, extra_cflags=(), extra_libs=()):
    """compile harness C sources (paths relative to /verif/harness) against a build_lib() result"""
    hdir = os.path.join(VERIF, "harness")
    srcs = [s if os.path.isabs(s) else os.path.join(hdir, s) for s in sources]
    h = hashlib.sha1()
    for s in srcs + [os.path.join(hdir, f) for f in sorted(os.listdir(hdir)) if f.endswith(".h")]:
        h.update(open(s, "rb").read())
    h.update(lib["key"].encode())
    h.update(lib["config"].encode())
    h.update(" ".join(extra_cflags).encode())
    exe = os.path.join(BUILD, "h-%s-%s-%s" % (name, lib["config"], h.hexdigest()[:12]))
    with _Lock(os.path.join(BUILD, "lock-h-%s" % name)):
        if os.path.exists(exe):
            os.utime(exe)
            return exe
        cmd = [lib["cc"]] + lib["cflags"] + list(extra_cflags) + ["-I" + i for i in lib["inc"]] + ["-I" + hdir] + srcs + \
              [lib["lib"]] + lib["ldflags"] + LIBS + list(extra_libs) + ["-o", exe + ".tmp"]
        r = subprocess.run(cmd, capture_output=True, text=True)
        if r.returncode != 0:
            raise BuildError("harness build failed: %s\n%s" % (" ".join(cmd), r.stderr[-4000:]))
        os.rename(exe + ".tmp", exe)
        for d in os.listdir(BUILD):
            if d.startswith("h-%s-%s-" % (name, lib["config"])) and os.path.join(BUILD, d) != exe and not d.endswith(".tmp"):
                try:
                    if time.time() - os.path.getmtime(os.path.join(BUILD, d)) > 6 * 3600:
                        os.remove(os.path.join(BUILD, d))
                except OSError:
                    pass
    return exe


if __name__ == "__main__":
    t = time.time()
    i = build_lib(sys.argv[1] if len(sys.argv) > 1 else "san")
    print(i["lib"], "%.1fs" % (time.time() - t))
