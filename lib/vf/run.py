"""Run harness executables (possibly in parallel) and classify sanitizer reports."""
import json, os, re, subprocess, time
from concurrent.futures import ThreadPoolExecutor

SAN_ENV = {
    "ASAN_OPTIONS": "detect_leaks=0:exitcode=99:abort_on_error=0:allocator_may_return_null=1:detect_stack_use_after_return=0",
    "UBSAN_OPTIONS": "print_stacktrace=1:halt_on_error=1:exitcode=98",
}


class HRes:
    def __init__(self, rc, out, err, wall, args):
        self.rc, self.out, self.err, self.wall, self.args = rc, out, err, wall, args
        self.san = classify(err)
        self.timed_out = rc == 124


def classify(err):
    """-> short sanitizer kind or None"""
    m = re.search(r"ERROR: AddressSanitizer: ([\w-]+)", err)
    if m:
        k = m.group(1)
        loc = re.search(r"#\d+ 0x[0-9a-f]+ in (\w+) (/repo/src/)?(\w+\.c):(\d+)", err)
        return "asan:%s%s" % (k, (":" + loc.group(1)) if loc else "")
    m = re.search(r"(\S+\.c):(\d+):\d+: runtime error: (.*)", err)
    if m:
        return "ubsan:%s:%s" % (os.path.basename(m.group(1)), re.sub(r"[^a-z ]", "", m.group(3).lower())[:40].strip().replace(" ", "-"))
    if "AddressSanitizer" in err or "LeakSanitizer" in err:
        return "asan:other"
    return None


def run(exe, args, timeout=600, env=None, cwd=None, stdin=None):
    e = dict(os.environ)
    e.update(SAN_ENV)
    if env:
        e.update({k: str(v) for k, v in env.items()})
    t0 = time.time()
    try:
        p = subprocess.run([exe] + [str(a) for a in args], capture_output=True, text=True, timeout=timeout, env=e, cwd=cwd,
                           input=stdin, errors="replace")
        return HRes(p.returncode, p.stdout, p.stderr, time.time() - t0, args)
    except subprocess.TimeoutExpired as ex:
        out = ex.stdout.decode(errors="replace") if isinstance(ex.stdout, bytes) else (ex.stdout or "")
        err = ex.stderr.decode(errors="replace") if isinstance(ex.stderr, bytes) else (ex.stderr or "")
        return HRes(124, out, err, time.time() - t0, args)


def run_many(exe, arglists, timeout=600, env=None, workers=16, cwd=None):
    with ThreadPoolExecutor(workers) as ex:
        return list(ex.map(lambda a: run(exe, a, timeout=timeout, env=env, cwd=cwd), arglists))


def read_ndjson(path):
    ev = []
    try:
        with open(path) as f:
            for line in f:
                line = line.strip()
                if not line:
                    continue
                try:
                    ev.append(json.loads(line))
                except ValueError:
                    break       # truncated last line of a crashed process
    except FileNotFoundError:
        pass
    return ev
