"""Helpers shared by the ledger checks C03 / C04 / C07 (harness fan-out, block bookkeeping, chunked trace validation).

Nothing here decides anything: TLC accepts or rejects the recorded events; these helpers run the drivers in
parallel, attach the case context to every event (so a rejected event can be labelled and replayed) and feed the
trace to vf.trace.check_trace in chunks that keep TLC's memory bounded.
"""
import os, re
from . import tlc, trace
from . import run as hrun
from .core import InfraError


_RE_ACT = re.compile(r"^<(\w+) line \d+, col \d+ to line \d+, col \d+ of module \w+(?: \([\d ]+\))?>: (\d+):(\d+)", re.M)


def action_counts(r):
    """per-action (distinct, generated) from TLC's coverage output, including the lines that carry a source range suffix
    (tlc.TlcResult.coverage misses those)"""
    out = {}
    for m in _RE_ACT.finditer(r.out):
        d, g = int(m.group(2)), int(m.group(3))
        a = out.get(m.group(1), (0, 0))
        out[m.group(1)] = (max(a[0], d), max(a[1], g))
    return out


def never_taken(r, expected):
    """actions of `expected` that TLC never generated a successor for (vacuity check)"""
    c = action_counts(r)
    return [a for a in expected if c.get(a, (0, 0))[1] == 0]


def par(n):
    """parallelism actually used: n, capped by VERIF_MAXPAR (shared machines)"""
    try:
        return max(1, min(n, int(os.environ.get("VERIF_MAXPAR", "16"))))
    except ValueError:
        return n


def drive(ctx, exe, rd, prefix, seed, total, parts, extra=(), timeout=1500, workers=8):
    """run `exe out seed first count *extra` over [0,total) split into `parts` index ranges.
    returns (events, maxima, results); maxima = per-identity largest residual printed on the 'M' side channel"""
    per = (total + parts - 1) // parts
    jobs = []
    lo = 0
    i = 0
    while lo < total:
        cnt = min(per, total - lo)
        jobs.append([os.path.join(rd, "%s%d.ndjson" % (prefix, i)), seed, lo, cnt] + list(extra))
        lo += cnt
        i += 1
    res = hrun.run_many(exe, jobs, timeout=timeout, workers=par(workers))
    events, maxima = [], {}
    for j, h in zip(jobs, res):
        if h.timed_out:
            raise InfraError("%s timed out on cases %s..+%s" % (os.path.basename(exe), j[2], j[3]))
        ev = hrun.read_ndjson(j[0])
        if h.rc != 0 and not h.san:
            raise InfraError("%s failed rc=%d on cases %s..+%s: %s" % (os.path.basename(exe), h.rc, j[2], j[3], h.err[-600:]))
        for line in h.out.splitlines():
            if line.startswith("M "):
                for kv in line.split()[1:]:
                    k, _, v = kv.partition("=")
                    try:
                        maxima[k] = max(maxima.get(k, 0.0), float(v))
                    except ValueError:
                        pass
        events += ev
    return events, maxima, list(zip(jobs, res))


def annotate(events, ctx_fields=("n", "p", "ny", "nlv", "xs", "ys", "noise")):
    """attach the case index and the Fit/Case context to every event of its Reset block (fields `case`, `cx`)"""
    case, cx = None, None
    for ev in events:
        e = ev.get("e")
        if e in ("Reset", "Skip", "Abort"):
            case = ev.get("case")
            cx = None
        elif e in ("Fit", "Case"):
            cx = {k: ev[k] for k in ctx_fields if k in ev}
        if case is not None and "case" not in ev:
            ev["case"] = case
        if cx is not None and e not in ("Fit", "Case"):
            ev["cx"] = cx
    return events


def chunks(events, limit=40000):
    """split at Reset boundaries into pieces of at most ~limit events"""
    out, cur = [], []
    for b in tlc.split_blocks(events):
        if cur and len(cur) + len(b) > limit:
            out.append(cur)
            cur = []
        cur += b
    if cur:
        out.append(cur)
    return out


def check(ctx, module, cfg_impl, cfg_prop, events, on_reject, label, limit=40000, xmx="4g"):
    rejected = 0
    for i, ch in enumerate(chunks(events, limit)):
        rejected += trace.check_trace(ctx, module, cfg_impl, cfg_prop, ch, on_reject, drop="event", label="%s_%d" % (label, i), xmx=xmx)
    return rejected


def sanitizer_reports(ctx, results, area, replay_of):
    """a sanitizer report from a child of the driver is a violation (memory safety is the monitor's verdict)"""
    for j, h in results:
        if h.san:
            ctx.violation("%s:%s" % (area, h.san), "sanitizer report while driving cases %s..+%s:\n%s" % (j[2], j[3], h.err[:1500]), replay_of(j))
