#!/usr/bin/env python3
"""MANIFEST.setup_cmd: offline setup after a fresh restore.  Builds both configurations of the library from
/repo's working tree (so the first check does not pay for it) and syntax-checks every specification."""
import os, sys, glob
sys.path.insert(0, os.path.join(os.path.dirname(os.path.abspath(__file__)), ".."))
from vf import build, tlc

def main():
    os.makedirs(build.BUILD, exist_ok=True)
    for cfg in ("san", "plain"):
        i = build.build_lib(cfg)
        print("built", i["lib"])
    bad = 0
    for f in sorted(glob.glob(os.path.join(tlc.SPEC, "*.tla"))):
        ok, out = tlc.sany(os.path.basename(f))
        if not ok:
            bad += 1
            print("SANY FAILED:", f, out[-800:])
    print("specs parsed: %d failed" % bad)
    return 1 if bad else 0

if __name__ == "__main__":
    sys.exit(main())
