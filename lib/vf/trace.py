"""Trace validation with the alarm discipline of DESIGN section 0.

check_trace(): validate events against <module> with the Impl layer on; if rejected, re-validate with the
Impl layer off (PropOnly cfg).  Events (or whole Reset blocks) that the Prop layer rejects are violations:
each is reported through on_reject(event, index, block) and removed so that the REST of the trace is still
checked.  A trace rejected only by the Impl layer is SPEC-DRIFT (exit 0).
"""
import copy, json
from . import tlc
from .core import InfraError


def _block_bounds(events, idx):
    lo = idx
    while lo > 0 and events[lo].get("e") != "Reset":
        lo -= 1
    hi = idx + 1
    while hi < len(events) and events[hi].get("e") != "Reset":
        hi += 1
    return lo, hi


def check_trace(ctx, module, cfg_impl, cfg_prop, events, on_reject, drop="event", max_rounds=12, env=None,
                timeout=900, label="trace", xmx="4g"):
    """returns number of rejected events/blocks (0 = accepted)"""
    if not events:
        raise InfraError("empty trace for %s (hook removed or harness produced nothing)" % module)
    ok, n, r = tlc.validate_trace(module, cfg_impl, events, env=env, timeout=timeout, xmx=xmx)
    ctx.add_tlc(r, label)
    if ok:
        return 0
    impl_first = n
    ev = list(events)
    if drop == "block" and n < len(ev):
        # the prefix accepted with the Impl layer on is accepted by the Prop layer too
        ev = ev[_block_bounds(ev, n)[0]:]
    rejected = 0
    dups = 0
    for _ in range(max_rounds):
        ok, n, r = tlc.validate_trace(module, cfg_prop or cfg_impl, ev, env=env, timeout=timeout, xmx=xmx)
        if ok:
            break
        if n >= len(ev):
            raise InfraError("trace rejected but every line matched (%s)" % module)
        lo, hi = _block_bounds(ev, n) if drop == "block" else (n, n + 1)
        same = on_reject(ev[n], n, ev[lo:hi])
        rejected += 1
        if same == "dup":
            dups += 1
            if dups >= 6:
                ctx.note("%s: the same violation signatures keep repeating; remaining trace not examined" % label)
                break
        if drop == "block":
            # everything before this block was accepted and blocks are independent (each starts from Reset): continue after it
            ev = ev[hi:]
        else:
            del ev[lo:hi]
        if callable(same) and drop == "event":
            # the same signature would be reported again for every similar event: drop them, keep checking the rest
            ev = [e for e in ev if not same(e)]
        if not ev:
            break
    else:
        ctx.note("more than %d rejected events in %s; remaining trace not examined" % (max_rounds, label))
    if rejected == 0:
        bad = events[impl_first] if impl_first < len(events) else None
        ctx.spec_drift("%s: implementation-shaped layer of %s no longer matches at event %d %s; property layer accepts the whole trace"
                       % (label, module, impl_first, json.dumps(bad)[:300]))
    return rejected


def binding_selftest(ctx, module, cfg, events, corrupt, label="binding"):
    """corrupt one recorded field (callable mutates a deep copy and returns True if it changed something);
    the corrupted trace MUST be rejected, else the spec is not bound to the implementation -> InfraError"""
    ev = copy.deepcopy(events)
    if not corrupt(ev):
        raise InfraError("binding self-test could not find a field to corrupt (%s)" % label)
    ok, n, r = tlc.validate_trace(module, cfg, ev)
    if ok:
        raise InfraError("binding lost: corrupted trace accepted by %s (%s)" % (module, label))
    ctx.steps[label] = dict(rejected_at=n, ok=True)
    return True
