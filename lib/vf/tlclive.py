"""Liveness runs of TLC (C18): this TLC build reports `Error: Temporal property <P> was violated.` which
vf.tlc.run does not recognise as a verdict (it raises TlcInfraError).  run_live() wraps the same command
line and returns a TlcResult whose .violation is "temporal:<P>" and whose .lasso holds the counterexample
(list of (action, {var: value}) plus the index of the state the behaviour loops back to / 'stuttering')."""
import os, re, shutil, subprocess, time
from . import tlc

_RE_TEMPORAL = re.compile(r"Error: Temporal propert(?:y (\w+) was|ies were) violated")
_RE_STATE = re.compile(r"^State (\d+): <(\w+)[ (]?([^>]*)>", re.M)


def run_live(module, cfg, workers=4, timeout=600, xmx="4g", specdir=tlc.SPEC):
    rd = tlc.rundir()
    e = dict(os.environ)
    e["JAVA_TOOL_OPTIONS"] = "-Djava.io.tmpdir=%s" % rd
    cmd = tlc._java_cmd(xmx) + ["-noGenerateSpecTE", "-metadir", os.path.join(rd, "meta"), "-workers", str(workers), "-coverage", "1",
                                "-config", cfg if os.path.isabs(cfg) else os.path.join(specdir, cfg),
                                module if module.endswith(".tla") else module + ".tla"]
    t0 = time.time()
    try:
        p = subprocess.run(cmd, cwd=specdir, env=e, capture_output=True, text=True, timeout=timeout)
    except subprocess.TimeoutExpired:
        raise tlc.TlcInfraError("TLC timeout after %ss on %s/%s" % (timeout, module, cfg))
    finally:
        shutil.rmtree(rd, ignore_errors=True)
    out = p.stdout + p.stderr
    r = tlc.TlcResult()
    r.wall = time.time() - t0
    r.out = out
    r.lasso, r.back_to = [], None
    for m in tlc._RE_STATES.finditer(out):
        r.generated, r.distinct = int(m.group(1)), int(m.group(2))
    for m in tlc._RE_COV.finditer(out):
        name, t, g = m.group(1), int(m.group(3)), int(m.group(4))
        if name in r.coverage:
            t, g = max(t, r.coverage[name][0]), max(g, r.coverage[name][1])
        r.coverage[name] = (t, g)
    if "Parsing or semantic analysis failed" in out or "***Parse Error***" in out or "unexpected exception" in out or "OutOfMemoryError" in out:
        raise tlc.TlcInfraError("TLC failed on %s/%s:\n%s" % (module, cfg, out[-3000:]))
    mt = _RE_TEMPORAL.search(out)
    mi = tlc._RE_INV.search(out)
    if mt:
        r.violation = "temporal:%s" % (mt.group(1) or "?")
        i = out.find("Error: Temporal")
        j = out.find("The coverage statistics", i)
        r.trace_text = out[i:j if j > 0 else i + 20000]
        # states of the counterexample
        parts = re.split(r"^State (\d+): ", r.trace_text, flags=re.M)
        for k in range(1, len(parts) - 1, 2):
            body = parts[k + 1]
            head = body.split("\n", 1)[0]
            act = re.match(r"<(\w+)(\(([^)]*)\))?", head)
            vals = dict(re.findall(r"/\\ (\w+) = (.+)", body))
            r.lasso.append(((act.group(1) if act else "?"), (act.group(3) if act and act.group(3) else ""), vals))
        mb = re.search(r"Back to state (\d+)", r.trace_text)
        if mb:
            r.back_to = int(mb.group(1))
        elif "Stuttering" in r.trace_text:
            r.back_to = "stuttering"
    elif mi:
        r.violation = mi.group(1)
        i = out.find("Error: Invariant")
        r.trace_text = out[i:i + 6000]
    elif "Error:" in out:
        raise tlc.TlcInfraError("TLC error on %s/%s:\n%s" % (module, cfg, out[-3000:]))
    elif "Model checking completed. No error has been found" not in out:
        raise tlc.TlcInfraError("TLC did not complete on %s/%s:\n%s" % (module, cfg, out[-2000:]))
    r.ok = r.violation is None
    return r
