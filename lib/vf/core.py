"""Check context: violations, known findings, replay artefacts, evidence."""
import hashlib, json, os, sys, time

VERIF = os.path.dirname(os.path.dirname(os.path.dirname(os.path.abspath(__file__))))
EVID = os.path.join(VERIF, "evidence")
REPLAYS = os.path.join(VERIF, "replays")
KNOWN = os.path.join(VERIF, "known_findings.json")


class InfraError(Exception):
    """harness/tooling failure that is not attributable to the code under test -> exit 2"""


class Ctx:
    def __init__(self, pid, tier, seed, level):
        self.pid, self.tier, self.seed, self.level = pid, tier, seed, level
        self.t0 = time.time()
        self.violations = []          # (signature, what, replay path)
        self.known_hits = {}          # signature -> what
        self.drift = []
        self.extras = {}              # signature -> what (observations on routines OUTSIDE the property's statement: never a verdict)
        self.cov = dict(evaluations=0, distinct_nontrivial=0, rule="", samples=[], states=0, transitions=0,
                        traces_validated_against_impl=0)
        self.assumptions = []
        self.steps = {}               # free-form per-step record copied into coverage
        self._distinct = set()
        self.classes = {}             # input-class tag (INPUT-CLASSES.md K1..K10) -> executed cases, measured
        self._known = self._load_known()
        self.quick = tier == "quick"

    # ---- known findings
    def _load_known(self):
        out = []
        paths = [KNOWN]
        d = os.path.join(VERIF, "known_findings.d")
        if os.path.isdir(d):
            paths += [os.path.join(d, f) for f in sorted(os.listdir(d)) if f.endswith(".json")]
        for p in paths:
            try:
                k = json.load(open(p))
            except FileNotFoundError:
                continue
            out += [f for f in k.get("findings", []) if f.get("property") == self.pid]
        return out

    def is_known(self, signature):
        for f in self._known:
            if f["signature"] == signature:
                return f
        return None

    # ---- reporting
    def violation(self, signature, what, replay=None):
        """record a property violation keyed by signature; known findings are reported once and do not fail"""
        f = self.is_known(signature)
        if f:
            if signature not in self.known_hits:
                self.known_hits[signature] = f.get("what", what)
                print("KNOWN-FINDING: property=%s %s [%s]" % (self.pid, f.get("what", what), signature), flush=True)
            return None
        for v in self.violations:
            if v[0] == signature:
                return v[2]        # one replay per signature is enough
        rdir = REPLAYS
        scratch = os.environ.get("VERIF_REPO")
        if scratch and os.path.realpath(scratch) != "/repo":
            rdir = os.path.join(VERIF, ".build", "replays-scratch")     # mutant / candidate-fix runs keep their replays apart
        os.makedirs(rdir, exist_ok=True)
        body = dict(property=self.pid, signature=signature, what=what, seed=self.seed, tier=self.tier, case=replay)
        sha = hashlib.sha1(json.dumps(body, sort_keys=True, default=str).encode()).hexdigest()[:10]
        path = os.path.join(rdir, "%s-%s.json" % (self.pid, sha))
        with open(path, "w") as fh:
            json.dump(body, fh, indent=1, default=str)
        self.violations.append((signature, what, path))
        print("VIOLATION property=%s replay=%s" % (self.pid, path), flush=True)
        print("  signature=%s : %s" % (signature, what), flush=True)
        return path

    def spec_drift(self, what):
        self.drift.append(what)
        print("SPEC-DRIFT property=%s %s" % (self.pid, what), flush=True)

    def extra(self, signature, what):
        """a deviation observed on behaviour the specification covers but the listed property does not state: reported, exit code unaffected"""
        if signature not in self.extras:
            self.extras[signature] = what
            print("EXTRA-FINDING (outside the statement of %s, not a verdict): %s [%s]" % (self.pid, what, signature), flush=True)

    def note(self, msg):
        print("[%s %6.1fs] %s" % (self.pid, time.time() - self.t0, msg), flush=True)

    # ---- coverage accounting
    def case(self, key=None, nontrivial=True, n=1):
        """count an evaluated case; key identifies distinct non-trivial cases"""
        self.cov["evaluations"] += n
        if key is not None and nontrivial:
            self._distinct.add(key if isinstance(key, (str, int, tuple)) else json.dumps(key, sort_keys=True, default=str))

    def cls(self, tag, n=1):
        """count an executed case under an input-class tag of INPUT-CLASSES.md (e.g. 'K1:wide', 'K6:nproc3')"""
        self.classes[tag] = self.classes.get(tag, 0) + n

    def sample(self, obj, limit=6):
        if len(self.cov["samples"]) < limit:
            self.cov["samples"].append(obj)

    def add_tlc(self, r, label=None):
        self.cov["states"] += r.distinct
        self.cov["transitions"] += r.generated
        if label:
            self.steps[label] = dict(distinct=r.distinct, generated=r.generated, wall_s=round(r.wall, 2),
                                     coverage={k: list(v) for k, v in r.coverage.items()})

    def traces(self, n=1):
        self.cov["traces_validated_against_impl"] += n

    # ---- finish
    def finish(self):
        cov = dict(self.cov)
        cov["distinct_nontrivial"] = len(self._distinct)
        cov["steps"] = self.steps
        if self.classes:
            cov["classes"] = dict(sorted(self.classes.items()))
        if self.known_hits:
            cov["known_findings_hit"] = sorted(self.known_hits)
        if self.drift:
            cov["spec_drift"] = self.drift
        if self.extras:
            cov["extra_findings_outside_property"] = [dict(signature=k, what=v) for k, v in sorted(self.extras.items())]
        if self.violations:
            cov["violation_signatures"] = [v[0] for v in self.violations]
        ev = dict(property_id=self.pid, tier=self.tier, seed=self.seed, level=self.level, coverage=cov,
                  assumptions=self.assumptions, wall_s=round(time.time() - self.t0, 2), violations=len(self.violations))
        evdir = os.environ.get("VERIF_EVIDENCE_DIR") or EVID    # seed sweeps keep their evidence apart
        scratch = os.environ.get("VERIF_REPO")
        if scratch and os.path.realpath(scratch) != "/repo":
            # a run against a scratch copy (mutant / candidate fix) must never overwrite the evidence of /repo itself
            evdir = os.path.join(VERIF, ".build", "evidence-scratch")
        os.makedirs(evdir, exist_ok=True)
        tmp = os.path.join(evdir, "%s.json.tmp%d" % (self.pid, os.getpid()))
        with open(tmp, "w") as fh:
            json.dump(ev, fh, indent=1, default=str)
        os.replace(tmp, os.path.join(evdir, "%s.json" % self.pid))
        if self.violations:
            print("%s: %d violation signature(s), %d evaluations, %.1fs" % (self.pid, len(self.violations), cov["evaluations"], ev["wall_s"]))
            return 1
        print("%s: held on everything explored (%d evaluations, %d distinct non-trivial, %d TLC states, %d impl traces, %.1fs)%s" % (
            self.pid, cov["evaluations"], cov["distinct_nontrivial"], cov["states"], cov["traces_validated_against_impl"], ev["wall_s"],
            " [known findings: %d]" % len(self.known_hits) if self.known_hits else ""))
        return 0
