"""TLC runner: model checking (MC), behaviour generation (GEN), trace validation (TRACE).

Every run gets a private run directory under /verif/.build/run-<pid>-<n>/ (metadir, java tmpdir),
removed afterwards.  Exit-code policy (DESIGN section 0): TLC crash / parse error / timeout is an
*infrastructure* failure (TlcInfraError -> exit 2 by the caller), never a verdict.
"""
import json, os, re, shutil, subprocess, time, itertools

VERIF = os.path.dirname(os.path.dirname(os.path.dirname(os.path.abspath(__file__))))
SPEC = os.path.join(VERIF, "spec")
BUILD = os.path.join(VERIF, ".build")
JAR = "/opt/veriftools/tla/tla2tools.jar:/opt/veriftools/tla/CommunityModules-deps.jar"
_counter = itertools.count()


class TlcInfraError(Exception):
    pass


class TlcResult:
    def __init__(self):
        self.ok = False              # finished without any violation
        self.violation = None        # name of violated invariant / property / 'deadlock' / 'postcondition'
        self.generated = 0
        self.distinct = 0
        self.depth = 0
        self.coverage = {}           # action name -> (taken/distinct, generated)
        self.emits = []              # decoded "@@{json}" PrintT lines
        self.prints = []             # other PrintT tuples (raw text)
        self.out = ""
        self.wall = 0.0
        self.trace_text = ""         # counterexample text if any

    def zero_actions(self, ignore=()):
        return [a for a, (t, g) in self.coverage.items() if t == 0 and a not in ignore]


def rundir():
    d = os.path.join(BUILD, "run-%d-%d" % (os.getpid(), next(_counter)))
    os.makedirs(d, exist_ok=True)
    return d


def _java_cmd(xmx, extra_props=()):
    return ["java", "-XX:+UseParallelGC", "-Xss128m", "-Xmx%s" % xmx] + ["-D" + p for p in extra_props] + ["-cp", JAR, "tlc2.TLC"]


_RE_STATES = re.compile(r"(\d+) states generated, (\d+) distinct states found, (\d+) states left on queue")
_RE_DEPTH = re.compile(r"The depth of the complete state graph search is (\d+)")
_RE_COV = re.compile(r"^<(\w+) line \d+, col \d+ to line \d+, col \d+ of module (\w+)(?: \([\d ]+\))?>: (\d+):(\d+)", re.M)
_RE_INV = re.compile(r"Error: Invariant (\w+) is violated")
_RE_PROP = re.compile(r"Error: (?:Temporal properties were violated|Action property (\w+) is violated)")


def run(module, cfg, workers=16, timeout=600, simulate=None, depth=None, seed=None, env=None, coverage=True,
        xmx="8g", cont=False, deadlock=True, dfs_queue=False, specdir=SPEC, keep=False, extra_args=()):
    """Run TLC on spec/<module>.tla with spec/<cfg>.  simulate='num=200' switches to simulation mode."""
    rd = rundir()
    e = dict(os.environ)
    e["JAVA_TOOL_OPTIONS"] = "-Djava.io.tmpdir=%s" % rd
    if env:
        e.update({k: str(v) for k, v in env.items()})
    props = []
    if dfs_queue:
        props.append("tlc2.tool.queue.IStateQueue=StateDeque")
    cmd = _java_cmd(xmx, props) + ["-noGenerateSpecTE", "-metadir", os.path.join(rd, "meta"), "-workers", str(workers),
                                   "-config", cfg if os.path.isabs(cfg) else os.path.join(specdir, cfg)]
    if coverage and not simulate:
        cmd += ["-coverage", "1"]
    if simulate:
        cmd += ["-simulate", simulate]
        if depth:
            cmd += ["-depth", str(depth)]
    if seed is not None:
        cmd += ["-seed", str(seed)]
    if cont:
        cmd += ["-continue"]
    if not deadlock:
        cmd += ["-deadlock"]
    cmd += list(extra_args)
    cmd += [module if module.endswith(".tla") else module + ".tla"]
    t0 = time.time()
    try:
        p = subprocess.run(cmd, cwd=specdir, env=e, capture_output=True, text=True, timeout=timeout)
    except subprocess.TimeoutExpired as ex:
        shutil.rmtree(rd, ignore_errors=True)
        raise TlcInfraError("TLC timeout after %ss on %s/%s" % (timeout, module, cfg))
    finally:
        if not keep:
            shutil.rmtree(rd, ignore_errors=True)
    r = TlcResult()
    r.wall = time.time() - t0
    out = p.stdout + p.stderr
    r.out = out
    for m in _RE_STATES.finditer(out):
        r.generated, r.distinct = int(m.group(1)), int(m.group(2))
    m = _RE_DEPTH.search(out)
    if m:
        r.depth = int(m.group(1))
    for m in _RE_COV.finditer(out):
        name = m.group(1)
        t, g = int(m.group(3)), int(m.group(4))
        if name in r.coverage:
            t0_, g0_ = r.coverage[name]
            t, g = max(t, t0_), max(g, g0_)
        r.coverage[name] = (t, g)
    for line in out.splitlines():
        s = line.strip()
        if s.startswith('"@@'):
            try:
                r.emits.append(json.loads(json.loads(s)[2:]))
            except Exception:
                raise TlcInfraError("cannot decode emit line: " + s[:200])
        elif (s.startswith("<<") or s.startswith('"')) and not s.startswith('<<"@l"'):
            r.prints.append(s)
    if "Parsing or semantic analysis failed" in out or "***Parse Error***" in out or "Error: TLC threw an unexpected exception" in out \
            or "Error: Parsing" in out or "java.lang.OutOfMemoryError" in out:
        raise TlcInfraError("TLC failed on %s/%s:\n%s" % (module, cfg, out[-3000:]))
    mi = _RE_INV.search(out)
    if mi:
        r.violation = mi.group(1)
    elif "Error: Deadlock reached" in out:
        r.violation = "deadlock"
    elif "Temporal properties were violated" in out or re.search(r"Temporal property \w+ was violated", out):
        r.violation = "temporal"
    elif re.search(r"Error: Action property (\w+)", out):
        r.violation = re.search(r"Error: Action property (\w+)", out).group(1)
    elif re.search(r"Error: Postcondition \w+ .*is false", out) or (re.search(r"[Pp]ost-?condition", out) and "violated" in out):
        r.violation = "postcondition"
    elif "Error:" in out and "Model checking completed" not in out and not simulate:
        # evaluation errors etc. are infrastructure problems, not verdicts
        raise TlcInfraError("TLC error on %s/%s:\n%s" % (module, cfg, out[-3000:]))
    elif simulate and "Error:" in out:
        raise TlcInfraError("TLC error (simulate) on %s/%s:\n%s" % (module, cfg, out[-3000:]))
    if r.violation:
        i = out.find("Error:")
        r.trace_text = out[i:i + 6000]
    r.ok = r.violation is None
    return r


def write_cfg(path, spec=None, init=None, next_=None, constants=None, invariants=(), properties=(), constraints=(),
              postcondition=None, deadlock=None, view=None, action_constraints=()):
    """generate a .cfg (used where constants are computed per run)"""
    lines = []
    if spec:
        lines.append("SPECIFICATION %s" % spec)
    if init:
        lines.append("INIT %s" % init)
    if next_:
        lines.append("NEXT %s" % next_)
    if constants:
        lines.append("CONSTANTS")
        for k, v in constants.items():
            lines.append("  %s = %s" % (k, _cfgval(v)))
    for i in invariants:
        lines.append("INVARIANT %s" % i)
    for p in properties:
        lines.append("PROPERTY %s" % p)
    for c in constraints:
        lines.append("CONSTRAINT %s" % c)
    for c in action_constraints:
        lines.append("ACTION_CONSTRAINT %s" % c)
    if postcondition:
        lines.append("POSTCONDITION %s" % postcondition)
    if view:
        lines.append("VIEW %s" % view)
    if deadlock is not None:
        lines.append("CHECK_DEADLOCK %s" % ("TRUE" if deadlock else "FALSE"))
    open(path, "w").write("\n".join(lines) + "\n")
    return path


def _cfgval(v):
    if isinstance(v, bool):
        return "TRUE" if v else "FALSE"
    if isinstance(v, int):
        return str(v)
    if isinstance(v, str):
        return v if v.startswith('"') or v.startswith("{") else '"%s"' % v
    if isinstance(v, (set, frozenset, list, tuple)):
        return "{" + ", ".join(_cfgval(x) for x in sorted(v, key=str)) + "}"
    raise ValueError(v)


def validate_trace(module, cfg, events, env=None, timeout=600, xmx="4g", constants=None, specdir=SPEC):
    """Validate one ndjson trace (list of dicts) against a trace spec.

    The trace spec reads IOEnv.TRACE, keeps its cursor in variable l, and is accepted iff TLC's diameter
    equals len(trace)+1 (POSTCONDITION TraceAccepted).  Returns (accepted, matched_prefix_len, result).
    On rejection a second run with DIAG=1 prints the cursor from a state constraint so the longest matched
    prefix is known.
    """
    rd = rundir()
    tp = os.path.join(rd, "trace.ndjson")
    with open(tp, "w") as f:
        for ev in events:
            _check_ints(ev)
            f.write(json.dumps(ev, separators=(",", ":")) + "\n")
    try:
        e = dict(env or {})
        e["TRACE"] = tp
        e["DIAG"] = "1"      # the cursor is printed from a state constraint: the longest matched prefix is always known
        r = run(module, cfg, workers=1, timeout=timeout, env=e, coverage=False, xmx=xmx, deadlock=True, specdir=specdir)
        if r.ok:
            return True, len(events), r
        mx = 0
        for m in re.finditer(r'<<"@l", (\d+)>>', r.out):
            mx = max(mx, int(m.group(1)))
        # cursor l points at the NEXT line to consume: l-1 lines were matched
        return False, max(0, mx - 1), r
    finally:
        shutil.rmtree(rd, ignore_errors=True)


def _check_ints(o):
    if isinstance(o, bool):
        return
    if isinstance(o, int):
        if abs(o) > 2000000000:
            raise TlcInfraError("integer out of TLC range in trace: %r" % o)
    elif isinstance(o, float):
        raise TlcInfraError("float in trace (must be quantised): %r" % o)
    elif isinstance(o, dict):
        for v in o.values():
            _check_ints(v)
    elif isinstance(o, (list, tuple)):
        for v in o:
            _check_ints(v)


def split_blocks(events):
    """split a concatenated trace into Reset-delimited blocks (each block starts with its Reset line)"""
    blocks, cur = [], []
    for ev in events:
        if ev.get("e") == "Reset" and cur:
            blocks.append(cur)
            cur = []
        cur.append(ev)
    if cur:
        blocks.append(cur)
    return blocks


def sany(module, specdir=SPEC):
    p = subprocess.run(["java", "-cp", JAR, "tla2sany.SANY", module if module.endswith(".tla") else module + ".tla"],
                       cwd=specdir, capture_output=True, text=True)
    return p.returncode == 0 and "error" not in p.stdout.lower(), p.stdout + p.stderr
