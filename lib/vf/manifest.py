#!/usr/bin/env python3
"""Generates /verif/MANIFEST.json from the check modules (run after adding or changing a check).
A property is claimed iff lib/checks/<id>.py exists and sets READY = True; it must define
LEVEL, TECHNIQUE, LEVEL_TEXT, LEVEL_NOTE (strings) and optionally DESIGN_REF, NA_REASON."""
import importlib, json, os, subprocess, sys

VERIF = os.path.dirname(os.path.dirname(os.path.dirname(os.path.abspath(__file__))))
sys.path.insert(0, os.path.join(VERIF, "lib"))


def main():
    props = [json.loads(l) for l in open(os.path.join(VERIF, "properties.jsonl"))]
    commits = subprocess.run(["git", "-C", "/repo", "log", "--format=%h %s"], capture_output=True, text=True).stdout.splitlines()
    hook_commits = [c.split()[0] for c in commits if c.split(" ", 1)[1].startswith("verif hooks")]
    checks, na = [], []
    for p in props:
        pid = p["id"]
        try:
            mod = importlib.import_module("checks.%s" % pid.lower())
        except ImportError:
            mod = None
        if mod is not None and getattr(mod, "READY", False):
            checks.append(dict(
                property_id=pid,
                quick_cmd="bin/check %s --tier quick" % pid,
                thorough_cmd="bin/check %s --tier thorough" % pid,
                evidence_file="evidence/%s.json" % pid,
                replay_cmd_template="bin/check %s --replay {path}" % pid,
                engine="tlc",
                level_claimed=dict(category=mod.LEVEL, text=mod.LEVEL_TEXT, design_ref=getattr(mod, "DESIGN_REF", "DESIGN.md section 5 %s" % pid)),
                level_note=mod.LEVEL_NOTE,
                technique=mod.TECHNIQUE))
        else:
            na.append(dict(property_id=pid, reason=getattr(mod, "NA_REASON", None) or
                           "not claimed yet: the check for this property is still being built (DESIGN.md section 5 has the planned TLA+ model and conformance step)"))
    claimed = [c["property_id"] for c in checks]
    man = dict(
        version=1,
        setup_cmd="python3 lib/vf/setup.py",
        hooks=dict(guard="LIBSCIENTIFIC_VERIF",
                   enable="every check compiles /repo/src (file list from src/CMakeLists.txt) into /verif/.build/lib-<config>-<hash>/ with -DLIBSCIENTIFIC_VERIF; "
                          "harnesses install the libsci_verif_* function pointers declared in src/verif_hooks.h",
                   baseline_off_cmd="bin/baseline_off",
                   source_commits=hook_commits,
                   add_only=True),
        engines=[dict(name="tlc", path="spec/", serves_properties=claimed, kind_free_text="TLA+ specifications checked with TLC 1.8.0 (model checking, behaviour generation, trace validation)"),
                 dict(name="harness", path="harness/", serves_properties=claimed, kind_free_text="C conformance drivers linked against a fresh ASan/UBSan build of /repo/src with hooks on")],
        checks=checks,
        notes="bin/check <id> --tier quick|thorough; exit 0 held / 1 violation / 2 infrastructure failure. Known findings: known_findings.json. See DESIGN.md.",
        not_applicable=na,
    )
    with open(os.path.join(VERIF, "MANIFEST.json"), "w") as f:
        json.dump(man, f, indent=1)
    print("MANIFEST.json: %d checks (%s), %d not claimed" % (len(checks), " ".join(claimed), len(na)))


if __name__ == "__main__":
    main()
