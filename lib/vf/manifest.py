#!/usr/bin/env python3
"""Generates /verif/MANIFEST.json from the table below (run after adding or changing a check)."""
import json, os, subprocess, sys

VERIF = os.path.dirname(os.path.dirname(os.path.dirname(os.path.abspath(__file__))))

# id -> (level, technique, level text, level note, design ref)
CHECKS = {
    "C13": ("model_checking",
            "TLC model checking of Slicing.tla (all rows x threads) + TLC trace validation of ranges/values/index positions recorded from the real kernels (hooks H2,H3)",
            "The slicing recurrences and the condensed index map are model-checked exhaustively for every (rows, threads) pair of the property's quantifier; "
            "the real library is then driven through the same pairs at all ten slicing sites and TLC validates every recorded range, value flag, index position and "
            "integer distance table against the specification (exactly-once cover, bijection, metric axioms recomputed by TLC).",
            "Trusts TLC, the H2/H3 hook placement, the harness's double-precision comparison of MT vs definition (logged as flags), ASan/UBSan as memory monitor.",
            "DESIGN.md section 5 C13"),
}

PENDING = {}


def main():
    props = [json.loads(l) for l in open(os.path.join(VERIF, "properties.jsonl"))]
    commits = subprocess.run(["git", "-C", "/repo", "log", "--format=%h %s"], capture_output=True, text=True).stdout.splitlines()
    hook_commits = [c.split()[0] for c in commits if c.split(" ", 1)[1].startswith("verif hooks")]
    man = dict(
        version=1,
        setup_cmd="python3 lib/vf/setup.py",
        hooks=dict(guard="LIBSCIENTIFIC_VERIF",
                   enable="every check compiles /repo/src (file list from src/CMakeLists.txt) into /verif/.build/lib-<config>-<hash>/ with -DLIBSCIENTIFIC_VERIF; "
                          "harnesses install the libsci_verif_* function pointers declared in src/verif_hooks.h",
                   baseline_off_cmd="bin/baseline_off",
                   source_commits=hook_commits,
                   add_only=True),
        engines=[dict(name="tlc", path="spec/", serves_properties=sorted(CHECKS), kind_free_text="TLA+ specifications checked with TLC 1.8.0 (model checking, behaviour generation, trace validation)"),
                 dict(name="harness", path="harness/", serves_properties=sorted(CHECKS), kind_free_text="C conformance drivers linked against a fresh ASan/UBSan build of /repo/src with hooks on")],
        checks=[],
        notes="bin/check <id> --tier quick|thorough; exit 0 held / 1 violation / 2 infrastructure failure. Known findings: known_findings.json. See DESIGN.md.",
        not_applicable=[],
    )
    for p in props:
        pid = p["id"]
        if pid in CHECKS:
            level, tech, text, note, ref = CHECKS[pid]
            man["checks"].append(dict(
                property_id=pid,
                quick_cmd="bin/check %s --tier quick" % pid,
                thorough_cmd="bin/check %s --tier thorough" % pid,
                evidence_file="evidence/%s.json" % pid,
                replay_cmd_template="bin/check %s --replay {path}" % pid,
                engine="tlc",
                level_claimed=dict(category=level, text=text, design_ref=ref),
                level_note=note,
                technique=tech))
        else:
            man["not_applicable"].append(dict(property_id=pid, reason=PENDING.get(pid, "not claimed yet: the check for this property is still being built (see DESIGN.md section 5 for the planned TLA+ model and conformance step)")))
    with open(os.path.join(VERIF, "MANIFEST.json"), "w") as f:
        json.dump(man, f, indent=1)
    print("MANIFEST.json: %d checks, %d not claimed" % (len(man["checks"]), len(man["not_applicable"])))


if __name__ == "__main__":
    main()
