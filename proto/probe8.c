#include <stdio.h>
#include <stdlib.h>
#include <math.h>
#include <string.h>
#include "scientific.h"
extern void dgels_(char*,int*,int*,int*,double*,int*,double*,int*,double*,int*,int*);
static double urand(unsigned *s){ *s = *s*1664525u+1013904223u; return ((*s>>8)&0xFFFFFF)/16777216.0; }
static double nrand(unsigned *s){ double a=0; for(int i=0;i<12;i++) a+=urand(s); return a-6; }
int main(){
  unsigned seed=99;
  /* ---- MLR vs dgels ---- */
  double w_b=0,w_ne=0,w_r2=0,w_sdec=0,w_sum=0; int r2out=0;
  for(int rep=0;rep<400;rep++){
    int n=4+(int)(urand(&seed)*47), p=1+(int)(urand(&seed)*10), ny=1+(int)(urand(&seed)*4); if(p>n-2)p=n-2; if(p<1)p=1;
    matrix *x,*y; NewMatrix(&x,n,p); NewMatrix(&y,n,ny); double noise=(rep%3==0)?0:pow(10,urand(&seed)*3-2);
    for(int j=0;j<p;j++){ double off=(urand(&seed)-0.5)*20, sc=pow(10,urand(&seed)*2-1); for(int i=0;i<n;i++) x->data[i][j]=off+sc*nrand(&seed);} 
    for(int k=0;k<ny;k++){ double b0=nrand(&seed)*10; double b[16]; for(int j=0;j<p;j++) b[j]=nrand(&seed); for(int i=0;i<n;i++){ double v=b0; for(int j=0;j<p;j++) v+=b[j]*x->data[i][j]; y->data[i][k]=v+noise*nrand(&seed);} }
    MLRMODEL *m; NewMLRModel(&m); MLR(x,y,m,NULL);
    int M=n,N=p+1,NR=ny,lda=n,ldb=n,info,lwork=-1; double wk; double *A=malloc(sizeof(double)*n*(p+1)), *B=malloc(sizeof(double)*n*ny);
    for(int i=0;i<n;i++){A[i]=1; for(int j=0;j<p;j++)A[i+(j+1)*n]=x->data[i][j]; for(int k=0;k<ny;k++)B[i+k*n]=y->data[i][k];}
    dgels_("N",&M,&N,&NR,A,&lda,B,&ldb,&wk,&lwork,&info); lwork=(int)wk; double *work=malloc(sizeof(double)*lwork); dgels_("N",&M,&N,&NR,A,&lda,B,&ldb,work,&lwork,&info);
    for(int k=0;k<ny;k++){ double bn=0,be=0; for(int j=0;j<=p;j++){ double d=m->b->data[j][k]-B[j+k*n]; be+=d*d; bn+=B[j+k*n]*B[j+k*n]; } if(sqrt(be/(bn+1e-300))>w_b) w_b=sqrt(be/(bn+1e-300));
      double rss=0,tss=0,mean=0,rs=0; for(int i=0;i<n;i++) mean+=y->data[i][k]; mean/=n; for(int i=0;i<n;i++){ double r=m->recalculated_y->data[i][k]-y->data[i][k]; rss+=r*r; rs+=r; tss+=(y->data[i][k]-mean)*(y->data[i][k]-mean);} 
      double r2=1-rss/tss; if(fabs(r2-m->r2y_model->data[k])>w_r2) w_r2=fabs(r2-m->r2y_model->data[k]); if(m->r2y_model->data[k]<-1e-9||m->r2y_model->data[k]>1+1e-9) r2out++;
      if(fabs(sqrt(rss/n)-m->sdec->data[k])/(sqrt(rss/n)+1e-300)>w_sdec && rss>1e-20) w_sdec=fabs(sqrt(rss/n)-m->sdec->data[k])/sqrt(rss/n);
      double sc=sqrt(tss*n)+1e-300; if(fabs(rs)/sc>w_sum) w_sum=fabs(rs)/sc;
      for(int j=0;j<p;j++){ double d=0,nx=0; for(int i=0;i<n;i++){ double r=m->recalculated_y->data[i][k]-y->data[i][k]; d+=r*x->data[i][j]; nx+=x->data[i][j]*x->data[i][j]; } double v=fabs(d)/(sqrt(nx*tss)+1e-300); if(v>w_ne) w_ne=v; } }
    free(A);free(B);free(work); DelMLRModel(&m); DelMatrix(&x); DelMatrix(&y);
  }
  printf("MLR: rel |b-b_dgels| %.3g ; resid.x/(|x||y-ybar|) %.3g ; |sum resid| scaled %.3g ; |R2-def| %.3g ; SDEC rel %.3g ; R2 outside[0,1]: %d\n", w_b,w_ne,w_sum,w_r2,w_sdec,r2out);
  /* ---- MaxDis vs MaxDis_Fast, MT equality ---- */
  int neq=0, tot=0; for(int rep=0;rep<200;rep++){ int n=3+(int)(urand(&seed)*78), d=1+(int)(urand(&seed)*6); matrix *m; NewMatrix(&m,n,d); for(int i=0;i<n;i++)for(int j=0;j<d;j++) m->data[i][j]=nrand(&seed)*3+j; int ns=1+(int)(urand(&seed)*n); int metric=rep%3; int nth=1+rep%8;
    uivector *a,*b; initUIVector(&a); initUIVector(&b); MaxDis(m,ns,metric,a,nth); MaxDis_Fast(m,ns,metric,b,nth); tot++; int same=(a->size==b->size); for(size_t i=0;same&&i<a->size;i++) if(a->data[i]!=b->data[i]) same=0; if(!same){ neq++; if(neq<4) printf("MaxDis mismatch rep %d n=%d d=%d ns=%d metric=%d sizes %zu %zu\n",rep,n,d,ns,metric,a->size,b->size);} DelUIVector(&a); DelUIVector(&b); DelMatrix(&m);} 
  printf("MaxDis vs MaxDis_Fast: %d mismatches of %d\n", neq, tot);
  /* ---- KMeans invariants ---- */
  int kbad=0; for(int rep=0;rep<100;rep++){ int n=6+(int)(urand(&seed)*70), d=1+(int)(urand(&seed)*6), k=1+(int)(urand(&seed)*5); if(k>n)k=n; matrix *m; NewMatrix(&m,n,d); for(int i=0;i<n;i++)for(int j=0;j<d;j++) m->data[i][j]=nrand(&seed)+ (i%k)*8.0;
    int init = 2 + rep%2; uivector *lab; initUIVector(&lab); matrix *cen; initMatrix(&cen); KMeans(m,k,init,lab,cen,1+rep%4);
    for(int c=0;c<k;c++){ double mu[8]={0}; int cnt=0; for(int i=0;i<n;i++) if((int)lab->data[i]==c){cnt++; for(int j=0;j<d;j++) mu[j]+=m->data[i][j];} if(cnt) for(int j=0;j<d;j++) if(fabs(mu[j]/cnt-cen->data[c][j])>1e-9) kbad++; }
    for(int i=0;i<n;i++){ if(lab->data[i]>=(size_t)k) kbad++; double best=1e300; int bi=-1; for(int c=0;c<k;c++){ double dd=0; for(int j=0;j<d;j++) dd+=(m->data[i][j]-cen->data[c][j])*(m->data[i][j]-cen->data[c][j]); if(dd<best){best=dd;bi=c;} } double dl=0; for(int j=0;j<d;j++) dl+=(m->data[i][j]-cen->data[lab->data[i]][j])*(m->data[i][j]-cen->data[lab->data[i]][j]); if(sqrt(dl)-sqrt(best)>1e-2) kbad++; }
    DelUIVector(&lab); DelMatrix(&cen); DelMatrix(&m);} printf("KMeans invariant failures: %d\n", kbad);
  return 0;
}
