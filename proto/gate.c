/* prototype: force an interleaving word over workers onto real CV threads via the RNG hook */
#include <stdio.h>
#include <stdlib.h>
#include <string.h>
#include <math.h>
#include <pthread.h>
#include <stdint.h>
#include "scientific.h"
extern void (*libsci_verif_rng_hook)(int, const volatile uint32_t *, uint32_t);
static pthread_mutex_t mu = PTHREAD_MUTEX_INITIALIZER; static pthread_cond_t cv = PTHREAD_COND_INITIALIZER;
static const char *word; static int pos; static int nworkers; static uint32_t base_seed;
static __thread int me = -1; static int finished_mask = 0; static int steps[8];
static long viol = 0; static __thread uint32_t last_written; static __thread int have_last=0;

static int cnt[8]; static int Q;
static void hook(int point, const volatile uint32_t *wordp, uint32_t aux){
  if(point==0 && me<0){ me = (int)(aux - base_seed); if(me<0||me>=nworkers) me=-2; }
  if(me<0) return;
  if(point==0 || point==2 || point==3){
    pthread_mutex_lock(&mu);
    if(cnt[me] < Q){
      while(word[pos] && word[pos]-'A' != me) pthread_cond_wait(&cv,&mu);
      if(word[pos]) pos++;
      cnt[me]++;
    }
    if(point==3){ if(have_last && aux != last_written) viol++; }
    pthread_cond_broadcast(&cv); pthread_mutex_unlock(&mu);
  }
  if(point==1 || point==4){ last_written = aux; have_last=1; }
}
static double run(int nth, const char *w, matrix *x, matrix *y){
  MODELINPUT in = initModelInput(); in.mx=x; in.my=y; in.nlv=2; in.xautoscaling=1; in.yautoscaling=0;
  size_t group=3, iters=nth; /* one batch */
  base_seed = group + x->row + y->col + iters; nworkers=nth; word=w; pos=0; memset(cnt,0,sizeof cnt); Q=(int)strlen(w)/nth;
  matrix *py,*pr; initMatrix(&py); initMatrix(&pr);
  BootstrapRandomGroupsCV(&in, group, iters, _PLS_, py, pr, nth, NULL, 0);
  double s=0; for(int i=0;i<py->row;i++)for(int j=0;j<py->col;j++) s+=py->data[i][j]*(i+1)*(j+3);
  DelMatrix(&py); DelMatrix(&pr); return s;
}
int main(int argc,char**argv){
  matrix *x,*y; NewMatrix(&x,12,3); NewMatrix(&y,12,1);
  for(int i=0;i<12;i++){for(int j=0;j<3;j++) x->data[i][j]=sin(i*1.3+j*2.1)*3+j; y->data[i][0]=x->data[i][0]*2-x->data[i][1]+0.3*cos(i*7.0);}
  libsci_verif_rng_hook = 0; double ref = run(1,"",x,y); /* not comparable: iters differ; use sequential 2-iter as ref */
  libsci_verif_rng_hook = hook;
  const char *words[] = {"AAABBB", "ABABAB", "ABBAAB", "BBBAAA", "ABBBAA"};
  for(int k=0;k<5;k++){ viol=0; double s = run(2, words[k], x, y); printf("word %-14.14s result %.17g isolation-violations %ld\n", words[k], s, viol); }
  return 0;
}
