#!/bin/bash
# usage: runtests.sh <testsdir> <outdir>
D=$1; O=$2; mkdir -p $O
for t in $(ls $D | grep -v "\.\|CMake\|cmake"); do
  ( cd $O && timeout 900 $D/$t > $O/$t.out 2>&1; echo "$t $?" >> $O/exit.txt ) &
done
wait
sort $O/exit.txt
