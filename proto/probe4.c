#include <stdio.h>
#include <stdlib.h>
#include <math.h>
#include "scientific.h"
#include "preprocessing.h"
static double urand(unsigned *s){ *s = *s*1664525u+1013904223u; return ((*s>>8)&0xFFFFFF)/16777216.0; }
int main(){
  unsigned seed=12345; double worst_ortho=0, worst_recon=0, worst_proj=0, worst_sum=0, worst_score=0; 
  for(int rep=0; rep<300; rep++){
    int n = 2 + (int)(urand(&seed)*40), c = 1 + (int)(urand(&seed)*12); int scaling = (int)(urand(&seed)*7)-1;
    matrix *x; NewMatrix(&x,n,c); for(int j=0;j<c;j++){ double off=(urand(&seed)-0.5)*2000, sc=pow(10,urand(&seed)*5-1); for(int i=0;i<n;i++) x->data[i][j]=off+sc*(urand(&seed)-0.5);} 
    int rank = (n-1<c)?n-1:c; if(scaling==-1) rank=(n<c)?n:c; if(rank<1){DelMatrix(&x);continue;}
    int npc = rank; fprintf(stderr,"rep %d n=%d c=%d scaling=%d npc=%d\n",rep,n,c,scaling,npc);
    PCAMODEL *m; NewPCAModel(&m); PCA(x,scaling,npc,m,NULL);
    /* E0 */
    matrix *E; NewMatrix(&E,n,c); dvector *a,*s; initDVector(&a); initDVector(&s); MatrixPreprocess(x,scaling,a,s,E);
    double ss=0; for(int i=0;i<n;i++)for(int j=0;j<c;j++) ss+=E->data[i][j]*E->data[i][j];
    /* ortho */
    for(int p=0;p<npc;p++)for(int q=0;q<=p;q++){ double d=0; for(int j=0;j<c;j++) d+=m->loadings->data[j][p]*m->loadings->data[j][q]; double e=fabs(d-(p==q)); if(e>worst_ortho) worst_ortho=e; }
    /* recon: E0 - T P' */
    double r=0; for(int i=0;i<n;i++)for(int j=0;j<c;j++){ double v=E->data[i][j]; for(int p=0;p<npc;p++) v-=m->scores->data[i][p]*m->loadings->data[j][p]; r+=v*v; }
    double rel = sqrt(r/ss); if(npc==rank && rel>worst_recon) worst_recon=rel;
    double sum=0; for(int p=0;p<npc;p++) sum+=m->varexp->data[p]; if(fabs(sum-100)>worst_sum) worst_sum=fabs(sum-100);
    matrix *ps; initMatrix(&ps); PCAScorePredictor(x,m,npc,ps); double se=0,sn=0; for(int i=0;i<n;i++)for(int p=0;p<npc;p++){ double d=ps->data[i][p]-m->scores->data[i][p]; se+=d*d; sn+=m->scores->data[i][p]*m->scores->data[i][p]; }
    if(sqrt(se/sn)>worst_score) worst_score=sqrt(se/sn);
    DelMatrix(&ps); DelMatrix(&E); DelDVector(&a); DelDVector(&s); DelPCAModel(&m); DelMatrix(&x);
  }
  printf("worst ortho %.3g recon(rel) %.3g |sum-100| %.3g score reproj(rel) %.3g\n", worst_ortho, worst_recon, worst_sum, worst_score);
  return 0;
}
