---- MODULE Containers ----
(* Shadow model of `matrix` (matrix.c:33-608): row, col, cells. Only what the operations DEFINE:      *)
(* old cells preserved, newly exposed cells 0, counts updated, copies deep.                          *)
EXTENDS Integers, Sequences, FiniteSets, TLC, Json
CONSTANTS Pool, MaxDim, Vals, MaxLen
Mat(r, c, f) == [row |-> r, col |-> c, cell |-> f]              \* f \in [1..r -> [1..c -> Int]]
Zero(r, c) == Mat(r, c, [i \in 1..r |-> [j \in 1..c |-> 0]])
Dead == [row |-> -1, col |-> -1, cell |-> <<>>]
VARIABLES m, op, steps
vars == <<m, op, steps>>
Live(x) == m[x].row >= 0
Init == m = [x \in Pool |-> Dead] /\ op = [name |-> "init"] /\ steps = 0
Tick == steps < MaxLen /\ steps' = steps + 1
New(x, r, c) == /\ ~Live(x) /\ Tick /\ m' = [m EXCEPT ![x] = Zero(r, c)] /\ op' = [name |-> "NewMatrix", x |-> x, r |-> r, c |-> c]
Del(x) == /\ Live(x) /\ Tick /\ m' = [m EXCEPT ![x] = Dead] /\ op' = [name |-> "DelMatrix", x |-> x]
Resize(x, r, c) == /\ Live(x) /\ Tick /\ m' = [m EXCEPT ![x] = Zero(r, c)] /\ op' = [name |-> "ResizeMatrix", x |-> x, r |-> r, c |-> c]
SetV(x, i, j, v) == /\ Live(x) /\ Tick
                    /\ m' = IF i <= m[x].row /\ j <= m[x].col THEN [m EXCEPT ![x].cell[i][j] = v] ELSE m   \* out of range: message, no effect
                    /\ op' = [name |-> "setMatrixValue", x |-> x, i |-> i - 1, j |-> j - 1, v |-> v]
\* MatrixAppendRow(m, v): one more row; columns grow to max(col, len v); old cells kept, missing cells 0
AppendRow(x, v) == /\ Live(x) /\ Tick /\ m[x].row < MaxDim
   /\ LET r == m[x].row  c == m[x].col  nc == IF Len(v) > c THEN Len(v) ELSE c
      IN m' = [m EXCEPT ![x] = Mat(r + 1, nc, [i \in 1..(r + 1) |-> [j \in 1..nc |->
                 IF i <= r THEN (IF j <= c THEN m[x].cell[i][j] ELSE 0) ELSE (IF j <= Len(v) THEN v[j] ELSE 0)]])]
   /\ op' = [name |-> "MatrixAppendRow", x |-> x, v |-> v]
\* MatrixAppendCol(m, v): one more column; rows grow to max(row, len v); old cells kept, missing cells 0
AppendCol(x, v) == /\ Live(x) /\ Tick /\ m[x].col < MaxDim
   /\ LET r == m[x].row  c == m[x].col  nr == IF Len(v) > r THEN Len(v) ELSE r
      IN m' = [m EXCEPT ![x] = Mat(nr, c + 1, [i \in 1..nr |-> [j \in 1..(c + 1) |->
                 IF j <= c THEN (IF i <= r THEN m[x].cell[i][j] ELSE 0) ELSE (IF i <= Len(v) THEN v[i] ELSE 0)]])]
   /\ op' = [name |-> "MatrixAppendCol", x |-> x, v |-> v]
DelRow(x, k) == /\ Live(x) /\ Tick /\ k <= m[x].row
   /\ m' = [m EXCEPT ![x] = Mat(m[x].row - 1, m[x].col, [i \in 1..(m[x].row - 1) |-> m[x].cell[IF i < k THEN i ELSE i + 1]])]
   /\ op' = [name |-> "MatrixDeleteRowAt", x |-> x, k |-> k - 1]
DelCol(x, k) == /\ Live(x) /\ Tick /\ k <= m[x].col /\ m[x].row > 0
   /\ m' = [m EXCEPT ![x] = Mat(m[x].row, m[x].col - 1, [i \in 1..m[x].row |-> [j \in 1..(m[x].col - 1) |-> m[x].cell[i][IF j < k THEN j ELSE j + 1]]])]
   /\ op' = [name |-> "MatrixDeleteColAt", x |-> x, k |-> k - 1]
Copy(x, y) == /\ Live(x) /\ Live(y) /\ x # y /\ Tick /\ m' = [m EXCEPT ![y] = m[x]] /\ op' = [name |-> "MatrixCopy", src |-> x, dst |-> y]
Vecs == UNION {[1..n -> Vals] : n \in 0..MaxDim}
Next == \E x \in Pool :
          \/ \E r, c \in 0..MaxDim : New(x, r, c) \/ Resize(x, r, c)
          \/ Del(x)
          \/ \E i, j \in 1..(MaxDim + 1), v \in Vals : SetV(x, i, j, v)
          \/ \E v \in Vecs : AppendRow(x, v) \/ AppendCol(x, v)
          \/ \E k \in 1..MaxDim : DelRow(x, k) \/ DelCol(x, k)
          \/ \E y \in Pool : Copy(x, y)
Spec == Init /\ [][Next]_vars
Shape == \A x \in Pool : Live(x) => /\ DOMAIN m[x].cell = 1..m[x].row
                                     /\ \A i \in 1..m[x].row : DOMAIN m[x].cell[i] = 1..m[x].col
Proj(x) == IF Live(x) THEN [row |-> m[x].row, col |-> m[x].col, cell |-> m[x].cell] ELSE [row |-> -1, col |-> -1, cell |-> <<>>]
Emit == PrintT("@@" \o ToJson([lvl |-> TLCGet("level"), op |-> op, post |-> [x \in Pool |-> Proj(x)]]))
====
