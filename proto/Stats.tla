---- MODULE Stats ----
(* ROC / AUC (statistic.c:373-425, numeric.c:207-232) on a truth vector and a strict score ORDER.      *)
(* ord[r] = object at rank r (descending score). Curve points as <<fp, tp>> counts; AUC as a rational   *)
(* with denominator 2*P*N:  AUC2 = sum over steps of (fp_{i+1}-fp_i) * (tp_i + tp_{i+1}).               *)
EXTENDS Integers, Sequences, FiniteSets, TLC
CONSTANTS MaxN
Perms(n) == {f \in [1..n -> 1..n] : \A a, b \in 1..n : a # b => f[a] # f[b]}
RECURSIVE Curve(_, _, _, _, _)
Curve(y, ord, r, fp, tp) == IF r > Len(ord) THEN <<>>
   ELSE LET pos == y[ord[r]] = 1  nfp == IF pos THEN fp ELSE fp + 1  ntp == IF pos THEN tp + 1 ELSE tp
        IN <<<<nfp, ntp>>>> \o Curve(y, ord, r + 1, nfp, ntp)
Roc(y, ord) == <<<<0, 0>>>> \o Curve(y, ord, 1, 0, 0)
RECURSIVE Area2(_, _)
Area2(c, i) == IF i >= Len(c) THEN 0 ELSE (c[i + 1][1] - c[i][1]) * (c[i][2] + c[i + 1][2]) + Area2(c, i + 1)
P(y) == Cardinality({i \in DOMAIN y : y[i] = 1})
N(y) == Cardinality({i \in DOMAIN y : y[i] = 0})
RankOf(ord, o) == CHOOSE r \in DOMAIN ord : ord[r] = o
Wins(y, ord) == Cardinality({pr \in (DOMAIN y) \X (DOMAIN y) : y[pr[1]] = 1 /\ y[pr[2]] = 0 /\ RankOf(ord, pr[1]) < RankOf(ord, pr[2])})
Rev(ord) == [r \in DOMAIN ord |-> ord[Len(ord) + 1 - r]]
VARIABLES n, y, ord
Init == /\ n \in 2..MaxN /\ y \in [1..n -> {0, 1}] /\ ord \in Perms(n) /\ P(y) > 0 /\ N(y) > 0
Next == UNCHANGED <<n, y, ord>>
Spec == Init /\ [][Next]_<<n, y, ord>>
MannWhitney == Area2(Roc(y, ord), 1) = 2 * Wins(y, ord)                       \* AUC = Wins / (P N)
Monotone == LET c == Roc(y, ord) IN /\ c[1] = <<0, 0>> /\ c[Len(c)] = <<N(y), P(y)>>
                                     /\ \A i \in 1..(Len(c) - 1) : c[i + 1][1] >= c[i][1] /\ c[i + 1][2] >= c[i][2]
Complement == Area2(Roc(y, Rev(ord)), 1) = 2 * P(y) * N(y) - Area2(Roc(y, ord), 1)   \* negated scores -> 1 - AUC
====
