#include <stdio.h>
#include <math.h>
#include "scientific.h"
int main(){ matrix *x,*y; NewMatrix(&x,5,2); NewMatrix(&y,5,1); double xv[5][2]={{1,2},{2,1},{3,5},{4,3},{6,1}}; for(int i=0;i<5;i++){x->data[i][0]=xv[i][0];x->data[i][1]=xv[i][1]; y->data[i][0]=5;}
  PLSMODEL *p; NewPLSModel(&p); PLS(x,y,2,0,0,p,NULL); puts("constant y: recalculated"); PrintMatrix(p->recalculated_y); PrintDVector(p->xvarexp);
  /* collinear X, nlv > rank */ for(int i=0;i<5;i++){ x->data[i][1]=2*x->data[i][0]; y->data[i][0]=3*x->data[i][0]+1+(i%2); } PLSMODEL *q; NewPLSModel(&q); PLS(x,y,2,0,0,q,NULL); puts("collinear X nlv=2: recalculated, xvarexp, b"); PrintMatrix(q->recalculated_y); PrintDVector(q->xvarexp); PrintDVector(q->b); return 0; }
