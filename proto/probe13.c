#include <stdio.h>
#include <stdlib.h>
#include <math.h>
#include <string.h>
#include "scientific.h"
#include "io.h"
static double urand(unsigned *s){ *s = *s*1664525u+1013904223u; return ((*s>>8)&0xFFFFFF)/16777216.0; }
static double nrand(unsigned *s){ double a=0; for(int i=0;i<12;i++) a+=urand(s); return a-6; }
static int dimq; static double Aq[6][6], cq[6];
static double fq(dvector *x){ double s=0; for(int i=0;i<dimq;i++)for(int j=0;j<dimq;j++) s+=(x->data[i]-cq[i])*Aq[i][j]*(x->data[j]-cq[j]); return s+3.5; }
int main(){ unsigned seed=17;
  /* ---- IO precision: single write/read of PCA model with values 1e-9..1e9 ---- */
  double w_io=0; int dimbad=0; for(int rep=0;rep<20;rep++){ int n=3+(int)(urand(&seed)*8), c=2+(int)(urand(&seed)*4); matrix *x; NewMatrix(&x,n,c); double mag=pow(10,urand(&seed)*18-9); for(int i=0;i<n;i++)for(int j=0;j<c;j++) x->data[i][j]=mag*nrand(&seed)+mag*j;
    PCAMODEL *m,*r; NewPCAModel(&m); PCA(x,0,2,m,NULL); char path[64]; sprintf(path,"/tmp/scratch/io_%d.db",rep); remove(path); WritePCA(path,m); NewPCAModel(&r); ReadPCA(path,r);
    if(r->scores->row!=m->scores->row||r->scores->col!=m->scores->col||r->loadings->row!=m->loadings->row||r->colaverage->size!=m->colaverage->size||r->colscaling->size!=m->colscaling->size||r->varexp->size!=m->varexp->size) dimbad++;
    else { for(size_t i=0;i<m->scores->row;i++)for(size_t j=0;j<m->scores->col;j++){ double v=m->scores->data[i][j], e=fabs(r->scores->data[i][j]-v)/fmax(1,fabs(v)); if(e>w_io)w_io=e; } for(size_t i=0;i<m->colaverage->size;i++){ double v=m->colaverage->data[i], e=fabs(r->colaverage->data[i]-v)/fmax(1,fabs(v)); if(e>w_io)w_io=e; } }
    remove(path); DelPCAModel(&m); DelPCAModel(&r); DelMatrix(&x);} printf("IO single write/read: dim mismatches %d ; worst |diff|/max(1,|v|) %.3g (property bound 1e-15)\n", dimbad, w_io);
  /* ---- Nelder-Mead on convex quadratics ---- */
  double w_nm=0; int worse=0, valbad=0; for(int rep=0;rep<200;rep++){ dimq=2+rep%5; for(int i=0;i<dimq;i++){ cq[i]=nrand(&seed)*5; for(int j=0;j<dimq;j++) Aq[i][j]=0; Aq[i][i]=1+urand(&seed)*30; } for(int i=0;i<dimq;i++)for(int j=0;j<i;j++){ double o=(urand(&seed)-0.5)*0.6; Aq[i][j]=Aq[j][i]=o; }
    dvector *x0,*best,*st; NewDVector(&x0,dimq); NewDVector(&st,dimq); for(int i=0;i<dimq;i++){ x0->data[i]=nrand(&seed)*10; st->data[i]=0.2+urand(&seed)*3; } initDVector(&best); double f0=fq(x0);
    double res=NelderMeadSimplex(fq,x0,(rep%2)?st:NULL,1e-12,20000,best); double fb=fq(best); if(fb!=res) valbad++; if(res>f0) worse++; double d=0; for(int i=0;i<dimq;i++) d+=(best->data[i]-cq[i])*(best->data[i]-cq[i]); d=sqrt(d); if(d>w_nm) w_nm=d; DelDVector(&x0);DelDVector(&best);DelDVector(&st);} 
  printf("NelderMead: reported!=f(best) %d ; worse than start %d ; worst distance to minimiser %.3g\n", valbad, worse, w_nm);
  /* ---- PLS betas vs score predictor (single y) ---- */
  double w_beta=0; for(int rep=0;rep<200;rep++){ int n=8+(int)(urand(&seed)*30), p=1+(int)(urand(&seed)*8); if(p>n-3)p=n-3; int xs=(int)(urand(&seed)*6), ys=(int)(urand(&seed)*6); matrix *x,*y,*xn; NewMatrix(&x,n,p); NewMatrix(&y,n,1); NewMatrix(&xn,5,p);
    for(int j=0;j<p;j++){ double off=urand(&seed)*50+20, sc=pow(10,urand(&seed)*2-0.5); for(int i=0;i<n;i++) x->data[i][j]=off+sc*nrand(&seed); for(int i=0;i<5;i++) xn->data[i][j]=off+sc*nrand(&seed);} for(int i=0;i<n;i++){ double v=30; for(int j=0;j<p;j++) v+=(j+1)*0.3*x->data[i][j]; y->data[i][0]=v+nrand(&seed); }
    PLSMODEL *m; NewPLSModel(&m); int nlv=1+(int)(urand(&seed)*p); PLS(x,y,nlv,xs,ys,m,NULL); dvector *b; initDVector(&b); PLSBetasCoeff(m,nlv,b);
    matrix *ts,*yp; initMatrix(&ts); initMatrix(&yp); PLSScorePredictor(xn,m,nlv,ts); PLSYPredictor(ts,m,nlv,yp);
    for(int i=0;i<5;i++){ double v=0; for(int j=0;j<p;j++){ double xc=xn->data[i][j]-m->xcolaverage->data[j]; double s=(m->xcolscaling->size>0)?m->xcolscaling->data[j]:1; v+=xc/s*b->data[j]; } double sy=(m->ycolscaling->size>0)?m->ycolscaling->data[0]:1; v=v*sy+m->ycolaverage->data[0]; double e=fabs(v-yp->data[i][0])/(1+fabs(v)); if(e>w_beta) w_beta=e; }
    DelDVector(&b);DelMatrix(&ts);DelMatrix(&yp);DelPLSModel(&m);DelMatrix(&x);DelMatrix(&y);DelMatrix(&xn);} printf("PLS betas vs score predictor on unseen rows: worst rel diff %.3g\n", w_beta);
  /* ---- regression stats with missing ---- */
  { dvector *yt,*yp; NewDVector(&yt,6); NewDVector(&yp,6); double t[6]={1,2,MISSING,4,5,7}, p[6]={1.5,1.5,100,4,6,6}; for(int i=0;i<6;i++){yt->data[i]=t[i];yp->data[i]=p[i];} printf("stats w/ missing: R2 %.12g MSE %.12g RMSE^2 %.12g MAE %.12g BIAS %.12g\n", R2(yt,yp), MSE(yt,yp), RMSE(yt,yp)*RMSE(yt,yp), MAE(yt,yp), BIAS(yt,yp)); }
  return 0; }
