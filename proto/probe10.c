#include <stdio.h>
#include <stdlib.h>
#include <math.h>
#include <string.h>
#include "scientific.h"
#include "preprocessing.h"
static double urand(unsigned *s){ *s = *s*1664525u+1013904223u; return ((*s>>8)&0xFFFFFF)/16777216.0; }
static double nrand(unsigned *s){ double a=0; for(int i=0;i<12;i++) a+=urand(s); return a-6; }
static int ri(unsigned *s,int lo,int hi){ return lo+(int)(urand(s)*(hi-lo+1)); }
int main(){
  unsigned seed=31; long bad=0, cases=0;
  /* kernels on integer data, all shapes 0..17 */
  for(int r=0;r<=17;r++)for(int k=0;k<=17;k++)for(int c=0;c<=17;c+= (r%3==0?1:4)){
    matrix *a,*b,*p; NewMatrix(&a,r,k); NewMatrix(&b,k,c); NewMatrix(&p,r,c);
    for(int i=0;i<r;i++)for(int j=0;j<k;j++) a->data[i][j]=ri(&seed,-5,5); for(int i=0;i<k;i++)for(int j=0;j<c;j++) b->data[i][j]=ri(&seed,-5,5);
    MatrixDotProduct(a,b,p); for(int i=0;i<r;i++)for(int j=0;j<c;j++){ double v=0; for(int q=0;q<k;q++) v+=a->data[i][q]*b->data[q][j]; if(v!=p->data[i][j]) bad++; } cases++;
    dvector *v,*o,*o2; NewDVector(&v,k); for(int q=0;q<k;q++) v->data[q]=ri(&seed,-5,5); NewDVector(&o,r); MatrixDVectorDotProduct(a,v,o); NewDVector(&o2,r); MT_MatrixDVectorDotProduct(a,v,o2);
    for(int i=0;i<r;i++){ double s=0; for(int q=0;q<k;q++) s+=a->data[i][q]*v->data[q]; if(s!=o->data[i]||s!=o2->data[i]) bad++; }
    dvector *w,*u1,*u2; NewDVector(&w,r); for(int q=0;q<r;q++) w->data[q]=ri(&seed,-5,5); NewDVector(&u1,k); NewDVector(&u2,k); DVectorMatrixDotProduct(a,w,u1); MT_DVectorMatrixDotProduct(a,w,u2);
    for(int j=0;j<k;j++){ double s=0; for(int q=0;q<r;q++) s+=w->data[q]*a->data[q][j]; if(s!=u1->data[j]||s!=u2->data[j]) bad++; }
    matrix *t; NewMatrix(&t,k,r); MatrixTranspose(a,t); for(int i=0;i<r;i++)for(int j=0;j<k;j++) if(t->data[j][i]!=a->data[i][j]) bad++;
    DelMatrix(&a);DelMatrix(&b);DelMatrix(&p);DelDVector(&v);DelDVector(&o);DelDVector(&o2);DelDVector(&w);DelDVector(&u1);DelDVector(&u2);DelMatrix(&t);
  }
  printf("kernels: %ld shape cases, %ld wrong cells\n", cases, bad);
  /* covariance / sort / outer */
  bad=0; for(int rep=0;rep<300;rep++){ int r=ri(&seed,2,17), c=ri(&seed,1,17); matrix *a,*cv; NewMatrix(&a,r,c); for(int i=0;i<r;i++)for(int j=0;j<c;j++) a->data[i][j]=ri(&seed,-9,9); initMatrix(&cv); MatrixCovariance(a,cv);
    for(int i=0;i<c;i++)for(int j=0;j<c;j++){ double si=0,sj=0; for(int q=0;q<r;q++){si+=a->data[q][i]; sj+=a->data[q][j];} double s=0; for(int q=0;q<r;q++) s+=(a->data[q][i]-si/r)*(a->data[q][j]-sj/r); s/=(r-1); if(fabs(s-cv->data[i][j])>1e-9*(1+fabs(s))) bad++; }
    int key=ri(&seed,0,c-1); matrix *so; initMatrix(&so); MatrixCopy(a,&so); MatrixSort(so,key); for(int i=1;i<r;i++) if(so->data[i-1][key]>so->data[i][key]) bad++;
    /* permutation check via row multiset hash */ double h1=0,h2=0; for(int i=0;i<r;i++){ double ha=0,hb=0; for(int j=0;j<c;j++){ ha=ha*31+a->data[i][j]; hb=hb*31+so->data[i][j]; } h1+=sin(ha); h2+=sin(hb);} if(fabs(h1-h2)>1e-9) bad++;
    DelMatrix(&a);DelMatrix(&cv);DelMatrix(&so);} printf("covariance/sort failures: %ld\n", bad);
  /* preprocessing exact on integer data */
  bad=0; double w=0; for(int rep=0;rep<500;rep++){ int r=ri(&seed,2,60), c=ri(&seed,1,20), type=ri(&seed,-1,5); matrix *x,*t,*t2; NewMatrix(&x,r,c); for(int j=0;j<c;j++){ int off=ri(&seed,-1000,1000), sp=(urand(&seed)<0.1)?0:ri(&seed,1,50); for(int i=0;i<r;i++) x->data[i][j]=off+ (sp?ri(&seed,-sp,sp):0); }
    NewMatrix(&t,r,c); dvector *a,*s; initDVector(&a); initDVector(&s); MatrixPreprocess(x,type,a,s,t);
    for(int j=0;j<c;j++){ double S=0,Q=0,mn=1e300,mx=-1e300; for(int i=0;i<r;i++){ S+=x->data[i][j]; if(x->data[i][j]<mn)mn=x->data[i][j]; if(x->data[i][j]>mx)mx=x->data[i][j]; } double m=S/r, var=0; for(int i=0;i<r;i++){ var+=(x->data[i][j]-m)*(x->data[i][j]-m); Q+=x->data[i][j]*x->data[i][j]; } var/=(r-1);
      double sc= type==1?sqrt(var): type==2?sqrt(Q/r): type==3?sqrt(sqrt(var)): type==4?(mx-mn): type==5?m: 1.0; if(type<0) continue;
      if(fabs(a->data[j]-m)>1e-9*(1+fabs(m))) { bad++; if(bad<4) printf("avg mismatch type %d col mean %.17g got %.17g\n",type,m,a->data[j]); }
      if(fabs(s->data[j]-sc)>1e-9*(1+fabs(sc))) { bad++; if(bad<4) printf("scale mismatch type %d exp %.17g got %.17g\n",type,sc,s->data[j]); }
      for(int i=0;i<r;i++){ double e = (fabs(sc)<1e-3)?0:(x->data[i][j]-m)/sc; double d=fabs(e-t->data[i][j]); if(d>w) w=d; if(d>1e-9*(1+fabs(e))) { bad++; if(bad<6) printf("cell mismatch type %d sc %.6g exp %.17g got %.17g\n",type,sc,e,t->data[i][j]); } } }
    NewMatrix(&t2,r,c); if(type>=0){ MatrixPreprocess(x,-1,a,s,t2); for(int i=0;i<r;i++)for(int j=0;j<c;j++) if(fabs(t2->data[i][j]-t->data[i][j])>1e-12*(1+fabs(t->data[i][j]))) { bad++; if(bad<8) printf("apply!=fit type %d scale %.6g fit %.6g apply %.6g\n",type,s->data[j],t->data[i][j],t2->data[i][j]); } }
    DelMatrix(&x);DelMatrix(&t);DelMatrix(&t2);DelDVector(&a);DelDVector(&s);} printf("preprocess failures: %ld (worst cell diff %.3g)\n", bad, w);
  return 0;
}
