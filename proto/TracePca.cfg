SPECIFICATION Spec
POSTCONDITION TraceAccepted
CHECK_DEADLOCK FALSE
