---- MODULE Rng ----
(* The library's generator: ONE 32-bit word (numeric.c:55). srand_ stores Gen(seed);       *)
(* every rand_/randInt/randDouble call READS the word into a local xorshift state, then   *)
(* WRITES Gen(word) back (re-reading the word), then returns a function of the local copy. *)
EXTENDS Naturals, Sequences, FiniteSets, TLC
CONSTANTS Workers, K, PerThread      \* K draws per worker; PerThread \in BOOLEAN
M == 17
Gen(s) == (5 * s + 3) % M           \* uninterpreted-ish injective step on a small domain
SeedOf(w) == CHOOSE i \in 1..Cardinality(Workers) : TRUE  \* replaced below
VARIABLES word, pc, loc, drawn, nd
vars == <<word, pc, loc, drawn, nd>>
Idx == CHOOSE f \in [Workers -> 1..Cardinality(Workers)] : \A a, b \in Workers : a # b => f[a] # f[b]
Seed(w) == Idx[w]                   \* distinct seeds, as srand_init = base + th + iteration
Cell(w) == IF PerThread THEN w ELSE "g"
Cells == IF PerThread THEN Workers ELSE {"g"}
RECURSIVE Stream(_, _)
Stream(s, n) == IF n = 0 THEN <<>> ELSE <<s>> \o Stream(Gen(s), n - 1)   \* words a lone worker would read
Init == /\ word = [c \in Cells |-> 0]
        /\ pc = [w \in Workers |-> "seed"]
        /\ loc = [w \in Workers |-> 0]
        /\ drawn = [w \in Workers |-> <<>>]
        /\ nd = [w \in Workers |-> 0]
DoSeed(w) == /\ pc[w] = "seed"
             /\ word' = [word EXCEPT ![Cell(w)] = Gen(Seed(w))]
             /\ pc' = [pc EXCEPT ![w] = "read"]
             /\ UNCHANGED <<loc, drawn, nd>>
DoRead(w) == /\ pc[w] = "read" /\ nd[w] < K
             /\ loc' = [loc EXCEPT ![w] = word[Cell(w)]]
             /\ drawn' = [drawn EXCEPT ![w] = Append(@, word[Cell(w)])]
             /\ pc' = [pc EXCEPT ![w] = "write"]
             /\ UNCHANGED <<word, nd>>
DoWrite(w) == /\ pc[w] = "write"
              /\ word' = [word EXCEPT ![Cell(w)] = Gen(word[Cell(w)])]   \* re-reads the word, as the C does
              /\ nd' = [nd EXCEPT ![w] = @ + 1]
              /\ pc' = [pc EXCEPT ![w] = "read"]
              /\ UNCHANGED <<loc, drawn>>
Next == \E w \in Workers : DoSeed(w) \/ DoRead(w) \/ DoWrite(w)
Spec == Init /\ [][Next]_vars
StreamIsolation == \A w \in Workers : drawn[w] = SubSeq(Stream(Gen(Seed(w)), K), 1, Len(drawn[w]))
====
