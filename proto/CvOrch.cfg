SPECIFICATION Spec
CONSTANTS MaxIters = 12
 MaxTh = 8
INVARIANTS SameAsSequentialWhenDivides ExtraIterationsOtherwise NoMergeBeforeJoin
CHECK_DEADLOCK FALSE
