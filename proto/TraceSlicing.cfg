SPECIFICATION TSpec
CONSTANTS MaxRows = 40
 MaxThreads = 24
 PropOnly = TRUE
POSTCONDITION TraceAccepted
CHECK_DEADLOCK FALSE
