#include <stdio.h>
#include <stdlib.h>
#include <math.h>
#include "scientific.h"
#include "preprocessing.h"
static double urand(unsigned *s){ *s = *s*1664525u+1013904223u; return ((*s>>8)&0xFFFFFF)/16777216.0; }
static long q12(double x){ double v=ceil(fabs(x)/1e-12); return v>2e9?2000000000L:(long)v; }   /* residual -> units of 1e-12, saturating */
static long u9(double x){ double v=floor(x*1e9+0.5); if(v>2e9) v=2e9; if(v<-2e9) v=-2e9; return (long)v; } /* fraction of ss0 -> units of 1e-9 */
int main(int argc,char**argv){ FILE *out=fopen(argv[1],"w"); unsigned seed=atoi(argv[2]); int reps=atoi(argv[3]);
  for(int rep=0;rep<reps;rep++){ int n=2+(int)(urand(&seed)*59), c=1+(int)(urand(&seed)*25), scaling=(int)(urand(&seed)*7)-1;
    matrix *x; NewMatrix(&x,n,c); for(int j=0;j<c;j++){ double off=(urand(&seed)-0.5)*2e3, sc=pow(10,urand(&seed)*4-1); for(int i=0;i<n;i++) x->data[i][j]=off+sc*(urand(&seed)-0.5)*3; }
    matrix *E0; NewMatrix(&E0,n,c); dvector *a,*s; initDVector(&a); initDVector(&s); MatrixPreprocess(x,scaling,a,s,E0);
    int rank=(scaling==-1)?((n<c)?n:c):((n-1<c)?n-1:c); if(rank<1){ continue; } int npc=1+(int)(urand(&seed)*rank); if(rep%4==0) npc=rank;
    double ss0=0; for(int i=0;i<n;i++)for(int j=0;j<c;j++) ss0+=E0->data[i][j]*E0->data[i][j];
    PCAMODEL *m; NewPCAModel(&m); PCA(x,scaling,npc,m,NULL);
    fprintf(out,"{\"e\":\"Fit\",\"n\":%d,\"c\":%d,\"scaling\":%d,\"npc\":%d,\"rank\":%d}\n",n,c,scaling,npc,rank);
    matrix *E; initMatrix(&E); MatrixCopy(E0,&E);
    for(int k=0;k<npc;k++){ double tt=0; for(int i=0;i<n;i++) tt+=m->scores->data[i][k]*m->scores->data[i][k];
      /* proj: t_k = E_{k-1} p_k */ double pe=0; for(int i=0;i<n;i++){ double v=0; for(int j=0;j<c;j++) v+=E->data[i][j]*m->loadings->data[j][k]; pe+=(v-m->scores->data[i][k])*(v-m->scores->data[i][k]); }
      for(int i=0;i<n;i++)for(int j=0;j<c;j++) E->data[i][j]-=m->scores->data[i][k]*m->loadings->data[j][k];
      double res=0; for(int i=0;i<n;i++)for(int j=0;j<c;j++) res+=E->data[i][j]*E->data[i][j];
      double ortho=0; for(int q=0;q<=k;q++){ double d=0; for(int j=0;j<c;j++) d+=m->loadings->data[j][k]*m->loadings->data[j][q]; d=fabs(d-(q==k)); if(d>ortho)ortho=d; }
      double ro=0; for(int q=0;q<=k;q++){ double nn=0; for(int i=0;i<n;i++){ double v=0; for(int j=0;j<c;j++) v+=E->data[i][j]*m->loadings->data[j][q]; nn+=v*v; } if(sqrt(nn/ss0)>ro) ro=sqrt(nn/ss0); }
      fprintf(out,"{\"e\":\"Extract\",\"k\":%d,\"eval\":%ld,\"resid\":%ld,\"varexp\":%ld,\"ortho\":%ld,\"proj\":%ld,\"rorth\":%ld}\n",k+1,u9(tt/ss0),u9(res/ss0),u9(m->varexp->data[k]/100.0),q12(ortho),q12(sqrt(pe/ss0)),q12(ro)); }
    matrix *ps; initMatrix(&ps); PCAScorePredictor(x,m,npc,ps); double se=0; for(int i=0;i<n;i++)for(int k=0;k<npc;k++){ double d=ps->data[i][k]-m->scores->data[i][k]; se+=d*d; }
    matrix *bx; initMatrix(&bx); PCAIndVarPredictor(m->scores,m->loadings,m->colaverage,m->colscaling,npc,bx); double be=0,bn=0; for(int i=0;i<n;i++)for(int j=0;j<c;j++){ double d=bx->data[i][j]-x->data[i][j]; be+=d*d; bn+=x->data[i][j]*x->data[i][j]; }
    fprintf(out,"{\"e\":\"Finish\",\"project\":%ld,\"back\":%ld,\"full\":%d,\"toleig\":%ld}\n", q12(sqrt(se/ss0)), q12(sqrt(be/bn)), npc==rank, u9(4*sqrt(n*1e-10)));
    DelMatrix(&ps);DelMatrix(&bx);DelMatrix(&E);DelMatrix(&E0);DelDVector(&a);DelDVector(&s);DelPCAModel(&m);DelMatrix(&x); }
  fclose(out); return 0; }
