SPECIFICATION Spec
CONSTANTS MaxN = 6
INVARIANTS MannWhitney Monotone Complement
CHECK_DEADLOCK FALSE
