SPECIFICATION Spec
CONSTANTS Pool = {"a", "b"}
 MaxDim = 2
 Vals = {0, 1}
 MaxLen = 3
INVARIANT Shape
CHECK_DEADLOCK FALSE
