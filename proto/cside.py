import json,subprocess,sys,glob,os
hdrs=sorted(glob.glob('/repo/src/*.h'))
src=''.join('#include "%s"\n'%h for h in hdrs if os.path.basename(h) not in ('scientific.h','variableselection.h','vectorspace.h'))
open('/tmp/scratch/all.c','w').write(src)
out=subprocess.run(['clang','-Xclang','-ast-dump=json','-fsyntax-only','-I/repo/_build','-I/repo/src','/tmp/scratch/all.c'],capture_output=True,text=True).stdout
d=json.loads(out)
funcs={}; recs={}; typedefs={}
def walk(n):
    k=n.get('kind')
    if k=='FunctionDecl' and n.get('name') and not n.get('isImplicit'):
        params=[c['type'].get('desugaredQualType',c['type']['qualType']) for c in n.get('inner',[]) if c.get('kind')=='ParmVarDecl']
        qt=n['type']['qualType']; ret=qt[:qt.index('(')].strip()
        funcs[n['name']]={'ret':ret,'params':params,'variadic': '...' in qt}
    if k=='TypedefDecl':
        inner=n.get('inner',[])
        typedefs[n['name']]=n['type'].get('desugaredQualType',n['type']['qualType'])
        for c in inner:
            if c.get('kind')=='ElaboratedType':
                od=c.get('ownedTagDecl')
                if od: typedefs['@'+od['id']]=n['name']
    if k=='RecordDecl' and n.get('completeDefinition'):
        recs[n['id']]=[(f['name'], f['type'].get('desugaredQualType',f['type']['qualType'])) for f in n.get('inner',[]) if f['kind']=='FieldDecl']
    for c in n.get('inner',[]): walk(c)
walk(d)
structs={typedefs['@'+i]:v for i,v in recs.items() if '@'+i in typedefs}
json.dump({'funcs':funcs,'structs':structs,'typedefs':{k:v for k,v in typedefs.items() if not k.startswith('@')}}, open('/tmp/scratch/c_abi.json','w'), indent=1)
print(len(funcs),'funcs',len(structs),'structs')
