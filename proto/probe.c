#include <stdio.h>
#include <stdlib.h>
#include <string.h>
#include <math.h>
#include "scientific.h"
int main(int argc, char **argv){
  const char *t = argv[1];
  if(!strcmp(t,"appendcol")){
    matrix *m; NewMatrix(&m, 3, 2); dvector *v; NewDVector(&v, 1); v->data[0]=7;
    MatrixAppendCol(m, v); PrintMatrix(m); DelMatrix(&m); DelDVector(&v);
  } else if(!strcmp(t,"pca_rank")){
    matrix *m; NewMatrix(&m, 2, 2); m->data[0][0]=1; m->data[0][1]=2; m->data[1][0]=3; m->data[1][1]=4;
    PCAMODEL *p; NewPCAModel(&p); PCA(m, 0, 2, p, NULL); PrintPCA(p); DelPCAModel(&p); DelMatrix(&m);
  } else if(!strcmp(t,"pls_consty")){
    matrix *x,*y; NewMatrix(&x,4,2); NewMatrix(&y,4,1);
    double xv[4][2]={{1,2},{2,1},{3,5},{4,3}}; for(int i=0;i<4;i++){x->data[i][0]=xv[i][0];x->data[i][1]=xv[i][1]; y->data[i][0]=5;}
    PLSMODEL *p; NewPLSModel(&p); PLS(x,y,1,0,0,p,NULL); PrintPLSModel(p); DelPLSModel(&p);
  } else if(!strcmp(t,"inv_perm")){
    matrix *m,*inv; NewMatrix(&m,2,2); m->data[0][1]=1; m->data[1][0]=1; initMatrix(&inv);
    MatrixInversion(m, inv); PrintMatrix(inv);
    MatrixLUInversion(m, inv); PrintMatrix(inv);
  } else if(!strcmp(t,"lda1")){
    matrix *x,*y; NewMatrix(&x,8,2); NewMatrix(&y,8,1);
    double xv[8][2]={{0,0},{0,1},{1,0},{1,1.2},{10,10},{10,11},{11,10.5},{11,11}};
    for(int i=0;i<8;i++){x->data[i][0]=xv[i][0];x->data[i][1]=xv[i][1]; y->data[i][0]= (i<4)?1:2;}
    LDAMODEL *l; NewLDAModel(&l); LDA(x,y,l);
    matrix *pf,*pr,*mn,*pred; initMatrix(&pf);initMatrix(&pr);initMatrix(&mn);initMatrix(&pred);
    LDAPrediction(x,l,pf,pr,mn,pred); PrintMatrix(pred);
  } else if(!strcmp(t,"io2")){
    matrix *m; NewMatrix(&m, 3, 2); for(int i=0;i<3;i++)for(int j=0;j<2;j++) m->data[i][j]=i*2+j+1.5;
    m->data[2][1] = 7;
    PCAMODEL *p; NewPCAModel(&p); PCA(m, 1, 1, p, NULL);
    matrix *m2; NewMatrix(&m2, 4, 3); for(int i=0;i<4;i++)for(int j=0;j<3;j++) m2->data[i][j]=(i*i+1)*(j+1)+ (i==j);
    PCAMODEL *p2; NewPCAModel(&p2); PCA(m2, 1, 2, p2, NULL);
    remove("/tmp/scratch/t.db");
    WritePCA("/tmp/scratch/t.db", p); WritePCA("/tmp/scratch/t.db", p2);
    PCAMODEL *r; NewPCAModel(&r); ReadPCA("/tmp/scratch/t.db", r);
    printf("written scores %zux%zu read %zux%zu varexp size %zu (expected %zu)\n", p2->scores->row,p2->scores->col, r->scores->row, r->scores->col, r->varexp->size, p2->varexp->size);
  } else if(!strcmp(t,"spline")){
    matrix *xy; NewMatrix(&xy, 6, 2); for(int i=0;i<6;i++){xy->data[i][0]=i*0.001; xy->data[i][1]=(i%2)?1.0:-1.0+i;}
    matrix *S; initMatrix(&S); cubic_spline_interpolation(xy,S);
    dvector *x; NewDVector(&x,6); for(int i=0;i<6;i++) x->data[i]=xy->data[i][0];
    dvector *y; initDVector(&y); cubic_spline_predict(x,S,y);
    for(int i=0;i<6;i++) printf("%g expected %g got %g\n", x->data[i], xy->data[i][1], y->data[i]);
  } else if(!strcmp(t,"svdrect")){
    matrix *m; NewMatrix(&m, 3, 2); double v[3][2]={{1,2},{3,4},{5,7}}; for(int i=0;i<3;i++)for(int j=0;j<2;j++)m->data[i][j]=v[i][j];
    matrix *u,*s,*vt; initMatrix(&u);initMatrix(&s);initMatrix(&vt);
    SVDlapack(m,u,s,vt); puts("U");PrintMatrix(u);puts("S");PrintMatrix(s);puts("VT");PrintMatrix(vt);
  } else if(!strcmp(t,"svdrect2")){
    matrix *m; NewMatrix(&m, 2, 3); double v[2][3]={{1,2,3},{4,5,7}}; for(int i=0;i<2;i++)for(int j=0;j<3;j++)m->data[i][j]=v[i][j];
    matrix *u,*s,*vt; initMatrix(&u);initMatrix(&s);initMatrix(&vt);
    SVDlapack(m,u,s,vt); puts("U");PrintMatrix(u);puts("S");PrintMatrix(s);puts("VT");PrintMatrix(vt);
  } else if(!strcmp(t,"svdint")){
    matrix *m; NewMatrix(&m, 3, 2); double v[3][2]={{1,2},{3,4},{5,7}}; for(int i=0;i<3;i++)for(int j=0;j<2;j++)m->data[i][j]=v[i][j];
    matrix *u,*s,*vt; initMatrix(&u);initMatrix(&s);initMatrix(&vt);
    SVD(m,u,s,vt); puts("U");PrintMatrix(u);puts("S");PrintMatrix(s);puts("VT");PrintMatrix(vt);
  } else if(!strcmp(t,"lse")){
    matrix *m; NewMatrix(&m,3,4); double v[3][4]={{1,1,0,2},{1,1,1,3},{0,1,1,2}}; for(int i=0;i<3;i++)for(int j=0;j<4;j++)m->data[i][j]=v[i][j];
    dvector *s; initDVector(&s); SolveLSE(m,s); PrintDVector(s); /* expect 1,1,1 */
  } else if(!strcmp(t,"plsres")){
    matrix *x,*y; NewMatrix(&x,6,3); NewMatrix(&y,6,2);
    double xv[6][3]={{1,2,0},{2,1,1},{3,5,2},{4,3,1},{5,9,4},{6,2,8}}; for(int i=0;i<6;i++){for(int j=0;j<3;j++)x->data[i][j]=xv[i][j]; y->data[i][0]=xv[i][0]+2*xv[i][1]; y->data[i][1]=100-xv[i][2]*3+xv[i][0];}
    PLSMODEL *p; NewPLSModel(&p); PLS(x,y,2,1,0,p,NULL);
    puts("recalc"); PrintMatrix(p->recalculated_y); puts("resid"); PrintMatrix(p->recalc_residuals); puts("y"); PrintMatrix(y);
  }
  return 0;
}
