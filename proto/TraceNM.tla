---- MODULE TraceNM ----
(* Trace spec for NelderMeadSimplex (optimization.c:76-273) on the OBJECTIVE-CALLBACK trace: every  *)
(* Eval carries only the value (order-preserving 3-limb code of the double). Which move an Eval      *)
(* belongs to is NOT logged: it is inferred by the automaton (pc). Stop is unobservable -> nondeterministic. *)
EXTENDS Integers, Sequences, FiniteSets, TLC, Json, IOUtils
CONSTANT PropOnly
Tr == ndJsonDeserialize(IOEnv.TRACE)
Lt(a, b) == \/ a[1] < b[1] \/ (a[1] = b[1] /\ a[2] < b[2]) \/ (a[1] = b[1] /\ a[2] = b[2] /\ a[3] < b[3])
Le(a, b) == Lt(a, b) \/ a = b
VARIABLES l, n, f, pc, buf, fr, best0, seenMin, ret
vars == <<l, n, f, pc, buf, fr, best0, seenMin, ret>>
Zero == <<0,0,0>>
\* insertion sort of a sequence of codes (ascending); ties keep any order - values only
RECURSIVE Ins(_,_)
Ins(s, v) == IF s = <<>> THEN <<v>> ELSE IF Le(v, s[1]) THEN <<v>> \o s ELSE <<s[1]>> \o Ins(Tail(s), v)
RECURSIVE Sort(_)
Sort(s) == IF s = <<>> THEN <<>> ELSE Ins(Sort(Tail(s)), s[1])
ReplaceWorst(s, v) == Sort(SubSeq(s, 1, Len(s) - 1) \o <<v>>)
Min2(a, b) == IF Lt(b, a) THEN b ELSE a
Init == l = 1 /\ n = 0 /\ f = <<>> /\ pc = "idle" /\ buf = <<>> /\ fr = Zero /\ best0 = Zero /\ seenMin = Zero /\ ret = Zero
Ev == Tr[l]
Step == l' = l + 1
Reset == /\ l <= Len(Tr) /\ Ev.e = "Reset" /\ pc \in {"idle", "checked"} /\ Step
         /\ n' = Ev.n /\ f' = <<>> /\ pc' = "init" /\ buf' = <<>> /\ UNCHANGED <<fr, best0, seenMin, ret>>
IsEval == l <= Len(Tr) /\ Ev.e = "Eval"
V == <<Ev.v[1], Ev.v[2], Ev.v[3]>>
Track == seenMin' = IF pc = "init" /\ buf = <<>> THEN V ELSE Min2(seenMin, V)
InitEval == /\ IsEval /\ pc = "init" /\ Step /\ Track
            /\ IF Len(buf) + 1 = n + 1 THEN f' = Sort(buf \o <<V>>) /\ buf' = <<>> /\ pc' = "reflect" /\ best0' = Sort(buf \o <<V>>)[1]
                                       ELSE buf' = buf \o <<V>> /\ UNCHANGED <<f, pc, best0>>
            /\ UNCHANGED <<n, fr, ret>>
\* Impl layer: the Gao-Han move conditions decide what the NEXT eval means
Reflect == /\ IsEval /\ pc = "reflect" /\ Step /\ Track /\ UNCHANGED <<n, buf, best0, ret>>
           /\ LET r == V  f1 == f[1]  fn == f[n]  fw == f[n + 1] IN
              IF PropOnly THEN (fr' = r /\ pc' \in {"reflect", "expand", "oc", "ic"} /\ f' \in {f, ReplaceWorst(f, r)})
              ELSE CASE Lt(f1, r) /\ Lt(r, fn) -> f' = ReplaceWorst(f, r) /\ pc' = "reflect" /\ fr' = r
                     [] Lt(r, f1)              -> f' = f /\ pc' = "expand" /\ fr' = r
                     [] Le(fn, r) /\ Lt(r, fw) -> f' = f /\ pc' = "oc" /\ fr' = r
                     [] Le(fw, r)              -> f' = f /\ pc' = "ic" /\ fr' = r
                     [] OTHER                  -> f' = f /\ pc' = "reflect" /\ fr' = r       \* r = f1 < fn: no branch taken
Expand == /\ IsEval /\ pc = "expand" /\ Step /\ Track /\ UNCHANGED <<n, buf, best0, ret, fr>>
          /\ f' = ReplaceWorst(f, IF Lt(V, fr) THEN V ELSE fr) /\ pc' = "reflect"
OC == /\ IsEval /\ pc = "oc" /\ Step /\ Track /\ UNCHANGED <<n, best0, ret, fr>>
      /\ IF Le(V, fr) THEN f' = ReplaceWorst(f, V) /\ pc' = "reflect" /\ buf' = <<>>
                      ELSE f' = f /\ pc' = "shrink" /\ buf' = <<>>
IC == /\ IsEval /\ pc = "ic" /\ Step /\ Track /\ UNCHANGED <<n, best0, ret, fr>>
      /\ IF Lt(V, f[n + 1]) THEN f' = ReplaceWorst(f, V) /\ pc' = "reflect" /\ buf' = <<>>
                            ELSE f' = f /\ pc' = "shrink" /\ buf' = <<>>
Shrink == /\ IsEval /\ pc = "shrink" /\ Step /\ Track /\ UNCHANGED <<n, best0, ret, fr>>
          /\ IF Len(buf) + 1 = n + 1 THEN f' = Sort(buf \o <<V>>) /\ buf' = <<>> /\ pc' = "reflect"
                                     ELSE buf' = buf \o <<V>> /\ UNCHANGED <<f, pc>>
Return == /\ l <= Len(Tr) /\ Ev.e = "Return" /\ pc = "reflect" /\ Step
          /\ ret' = <<Ev.v[1], Ev.v[2], Ev.v[3]>> /\ pc' = "returned" /\ UNCHANGED <<n, f, buf, fr, best0, seenMin>>
          /\ Le(ret', best0)                                   \* Prop: never worse than the best initial vertex
          /\ (PropOnly \/ ret' = f[1])                         \* Impl: it is the best vertex of the final simplex
Check == /\ l <= Len(Tr) /\ Ev.e = "Check" /\ pc = "returned" /\ Step
         /\ <<Ev.v[1], Ev.v[2], Ev.v[3]>> = ret               \* Prop: reported value = f(returned point)
         /\ pc' = "checked" /\ UNCHANGED <<n, f, buf, fr, best0, seenMin, ret>>
Next == Reset \/ InitEval \/ Reflect \/ Expand \/ OC \/ IC \/ Shrink \/ Return \/ Check
Spec == Init /\ [][Next]_vars
BestNeverWorse == pc \in {"reflect", "expand", "oc", "ic", "shrink"} /\ f # <<>> => Le(f[1], best0)
TraceAccepted == TLCGet("stats").diameter = Len(Tr) + 1
====
