#include <stdio.h>
#include <stdlib.h>
#include <math.h>
#include <string.h>
#include "scientific.h"
static double urand(unsigned *s){ *s = *s*1664525u+1013904223u; return ((*s>>8)&0xFFFFFF)/16777216.0; }
static double nrand(unsigned *s){ double a=0; for(int i=0;i<12;i++) a+=urand(s); return a-6; }
static int ri(unsigned *s,int lo,int hi){ return lo+(int)(urand(s)*(hi-lo+1)); }
int main(){
  unsigned seed=8; double w_prior=0,w_mu=0,w_aff=0,w_perm=0; int miscls=0, predmis=0, notargmax=0, aucbad=0, total=0;
  for(int rep=0;rep<200;rep++){ int K=ri(&seed,2,5), d=ri(&seed,2,6); int cnt[5], n=0; for(int k=0;k<K;k++){ cnt[k]=ri(&seed,4,40); n+=cnt[k]; }
    matrix *x,*y; NewMatrix(&x,n,d); NewMatrix(&y,n,1); double cen[5][6]; for(int k=0;k<K;k++)for(int j=0;j<d;j++) cen[k][j]=ri(&seed,-3,3)*12.0+k*25.0*(j==k%d);
    int r=0; for(int k=0;k<K;k++)for(int i=0;i<cnt[k];i++){ for(int j=0;j<d;j++) x->data[r][j]=cen[k][j]+nrand(&seed); y->data[r][0]=k; r++; }
    /* shuffle rows */ for(int i=n-1;i>0;i--){ int j=ri(&seed,0,i); for(int q=0;q<d;q++){ double t=x->data[i][q]; x->data[i][q]=x->data[j][q]; x->data[j][q]=t;} double t=y->data[i][0]; y->data[i][0]=y->data[j][0]; y->data[j][0]=t; }
    LDAMODEL *m; NewLDAModel(&m); LDA(x,y,m); matrix *pf,*pr,*mn,*pred; initMatrix(&pf);initMatrix(&pr);initMatrix(&mn);initMatrix(&pred); LDAPrediction(x,m,pf,pr,mn,pred);
    double ps=0; for(int k=0;k<K;k++){ double e=fabs(m->pprob->data[k]-(double)cnt[k]/n); if(e>w_prior)w_prior=e; ps+=m->pprob->data[k]; for(int j=0;j<d;j++){ double mu=0; int c=0; for(int i=0;i<n;i++) if((int)y->data[i][0]==k){mu+=x->data[i][j];c++;} mu/=c; double e2=fabs(mu-m->mu->data[k][j]); if(e2>w_mu)w_mu=e2; } }
    for(int i=0;i<n;i++){ total++; if((int)pred->data[i][0]!=(int)y->data[i][0]) miscls++; int am=0; for(int k=1;k<K;k++) if(pr->data[i][k]>pr->data[i][am]) am=k; if(am!=(int)pred->data[i][0]) notargmax++; }
    /* affine map */ double A[6][6], b[6]; for(int i=0;i<d;i++){ b[i]=nrand(&seed)*5; for(int j=0;j<d;j++) A[i][j]=nrand(&seed)*0.3+((i==j)?2.0:0); }
    matrix *x2; NewMatrix(&x2,n,d); for(int i=0;i<n;i++)for(int j=0;j<d;j++){ double v=b[j]; for(int q=0;q<d;q++) v+=A[j][q]*x->data[i][q]; x2->data[i][j]=v; }
    LDAMODEL *m2; NewLDAModel(&m2); LDA(x2,y,m2); matrix *pf2,*pr2,*mn2,*pred2; initMatrix(&pf2);initMatrix(&pr2);initMatrix(&mn2);initMatrix(&pred2); LDAPrediction(x2,m2,pf2,pr2,mn2,pred2);
    for(int i=0;i<n;i++){ if(pred2->data[i][0]!=pred->data[i][0]) predmis++; for(int k=1;k<K;k++){ double d1=pr->data[i][k]-pr->data[i][0], d2=pr2->data[i][k]-pr2->data[i][0]; double e=fabs(d1-d2)/(1+fabs(d1)); if(e>w_aff)w_aff=e; } }
    /* multiclass stats on perfect predictions */ dvector *ra,*pa; initDVector(&ra); initDVector(&pa); LDAMulticlassStatistics(y,y,NULL,ra,NULL,pa); for(size_t k=0;k<ra->size;k++) if(fabs(ra->data[k]-1)>1e-9) aucbad++;
    DelDVector(&ra);DelDVector(&pa);
  }
  printf("LDA(0-based): prior err %.3g ; mu err %.3g ; misclassified %d/%d ; pred!=argmax %d ; affine: pred changed %d, score-diff rel err %.3g ; AUC!=1 on perfect preds: %d\n", w_prior,w_mu,miscls,total,notargmax,predmis,w_aff,aucbad);
  return 0;
}
