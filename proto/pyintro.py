import sys, types, ctypes, json
sys.path.insert(0, '/repo/src/python_bindings')
class FakeFn:
    def __init__(self, name): self.name=name; self.argtypes=None; self.restype='UNSET'
    def __call__(self,*a,**k): raise RuntimeError('no call')
class FakeLib:
    def __init__(self): object.__setattr__(self,'fns',{})
    def __getattr__(self, n):
        if n.startswith('__'): raise AttributeError(n)
        return self.fns.setdefault(n, FakeFn(n))
lib = FakeLib()
m = types.ModuleType('libscientific.loadlibrary'); m.load_libscientific_library = lambda: lib
sys.modules['libscientific.loadlibrary'] = m
import libscientific, importlib
for _m in ["matrix","vector","tensor","vectlist","pca","pls","cpca","clustering","interpolate","info","misc"]:
    importlib.import_module("libscientific."+_m)
def tname(t):
    if t is None: return 'void'
    if isinstance(t,str): return t
    n = t.__name__
    return n
out = {'funcs':{}, 'structs':{}}
for n,f in lib.fns.items():
    out['funcs'][n] = {'args': None if f.argtypes is None else [tname(a) for a in f.argtypes], 'ret': tname(f.restype)}
import inspect, pkgutil
for modname in ['matrix','vector','tensor','vectlist','pca','pls','cpca','clustering','interpolate']:
    mod = getattr(libscientific, modname)
    for k,v in vars(mod).items():
        if inspect.isclass(v) and issubclass(v, ctypes.Structure) and v.__module__==mod.__name__:
            out['structs'][k] = [(fn, tname(ft), getattr(v,fn).offset, getattr(v,fn).size) for fn,ft in v._fields_]
json.dump(out, open("/tmp/scratch/py_abi.json","w"), indent=1)
print(len(out['funcs']), 'functions', len(out['structs']), 'structs')
