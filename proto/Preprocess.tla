---- MODULE Preprocess ----
(* Exact column statistics behind MatrixPreprocess (preprocessing.c:8-123, matrix.c:1367-1521).       *)
(* A column is a sequence over Int \cup {MISSING}; statistics skip MISSING. Everything is kept as      *)
(* integer numerators over explicit positive denominators so that TLC arithmetic is exact.            *)
EXTENDS Integers, Sequences, FiniteSets, TLC
CONSTANTS MaxRows
MISSING == 99999999
Vals == -2..3
Present(x) == {i \in DOMAIN x : x[i] # MISSING}
RECURSIVE SumOver(_,_)
SumOver(f, S) == IF S = {} THEN 0 ELSE LET i == CHOOSE i \in S : TRUE IN f[i] + SumOver(f, S \ {i})
Nn(x) == Cardinality(Present(x))
S1(x) == SumOver(x, Present(x))
S2(x) == SumOver([i \in DOMAIN x |-> x[i] * x[i]], Present(x))
\* mean = S1/N ; centred_i = (N x_i - S1)/N ; SSD = sum (x_i - mean)^2 = (N S2 - S1^2)/N
CentredNum(x, i) == Nn(x) * x[i] - S1(x)
SSDNum(x) == Nn(x) * S2(x) - S1(x) * S1(x)            \* over denominator N
\* scale raised to the power p(type) at which it is rational, as <<num, den, p>>
ScalePow(x, type) ==
  CASE type = 1 -> <<SSDNum(x), Nn(x) * (Nn(x) - 1), 2>>        \* sample variance = SSD/(N-1)
    [] type = 2 -> <<S2(x), Nn(x), 2>>                           \* RMS^2 of the RAW column
    [] type = 3 -> <<SSDNum(x), Nn(x) * (Nn(x) - 1), 4>>        \* Pareto: sqrt(sdev)
    [] type = 4 -> LET P == {x[i] : i \in Present(x)} mx == CHOOSE v \in P : \A w \in P : w <= v  mn == CHOOSE v \in P : \A w \in P : w >= v IN <<mx - mn, 1, 1>>
    [] type = 5 -> <<S1(x), Nn(x), 1>>                           \* level scaling: the mean
    [] OTHER    -> <<1, 1, 1>>
ZeroScale(x, type) == ScalePow(x, type)[1] = 0
\* transformed cell t_i satisfies  t_i^p * scale^p = centred_i^p :  t^p = (cn/N)^p * den / num
VARIABLES x, type
Init == /\ \E n \in 2..MaxRows : x \in [1..n -> Vals \cup {MISSING}] 
        /\ Nn(x) >= 2 /\ type \in 0..5
Next == UNCHANGED <<x, type>>
Spec == Init /\ [][Next]_<<x, type>>
CentredSumsToZero == SumOver([i \in DOMAIN x |-> IF x[i] = MISSING THEN 0 ELSE CentredNum(x, i)], Present(x)) = 0
\* unit sample variance after autoscaling:  sum t_i^2 = N-1   <=>  sum cn_i^2 / N^2 * den/num = N-1
UnitVariance == (type = 1 /\ ~ZeroScale(x, 1)) =>
    LET sp == ScalePow(x, 1) N == Nn(x) IN SumOver([i \in DOMAIN x |-> IF x[i] = MISSING THEN 0 ELSE CentredNum(x, i) * CentredNum(x, i)], Present(x)) * sp[2] = (N - 1) * N * N * sp[1]
SsdIdentity == SumOver([i \in DOMAIN x |-> IF x[i] = MISSING THEN 0 ELSE CentredNum(x, i) * CentredNum(x, i)], Present(x)) = Nn(x) * SSDNum(x)
ZeroSpreadIffConstant == ZeroScale(x, 1) <=> Cardinality({x[i] : i \in Present(x)}) = 1
====
