SPECIFICATION Spec
CONSTANTS N = 3
INVARIANT SolveNeedsOnlyPrePass
CHECK_DEADLOCK FALSE
