#include <stdio.h>
#include <stdlib.h>
#include <stdint.h>
#include <string.h>
#include <math.h>
#include "scientific.h"
static FILE *out; static int dim; static double A[6][6], ctr[6];
static void enc(double v, long *l){ uint64_t u; memcpy(&u,&v,8); if(u>>63) u=~u; else u|=(1ULL<<63); l[0]=(long)(u>>42); l[1]=(long)((u>>21)&0x1FFFFF); l[2]=(long)(u&0x1FFFFF); }
static double f(dvector *x){ double s=0; for(int i=0;i<dim;i++)for(int j=0;j<dim;j++) s+=(x->data[i]-ctr[i])*A[i][j]*(x->data[j]-ctr[j]); long l[3]; enc(s,l); fprintf(out,"{\"e\":\"Eval\",\"v\":[%ld,%ld,%ld]}\n",l[0],l[1],l[2]); return s; }
int main(int argc,char**argv){ out=fopen(argv[1],"w"); unsigned seed=atoi(argv[2]); srand(seed);
  for(int rep=0;rep<atoi(argv[3]);rep++){ dim=2+rand()%3; for(int i=0;i<dim;i++){ ctr[i]=(rand()%200-100)/10.0; for(int j=0;j<dim;j++) A[i][j]=0; } for(int i=0;i<dim;i++){ A[i][i]=1+rand()%9; }
    for(int i=0;i<dim;i++)for(int j=0;j<i;j++){ double o=((rand()%100)/100.0-0.5)*0.8; A[i][j]=A[j][i]=o; }
    dvector *x0,*best; NewDVector(&x0,dim); for(int i=0;i<dim;i++) x0->data[i]=(rand()%200-100)/7.0; initDVector(&best);
    fprintf(out,"{\"e\":\"Reset\",\"n\":%d,\"maxit\":%d}\n",dim,400);
    double res=NelderMeadSimplex(f,x0,NULL,1e-10,400,best);
    long l[3]; enc(res,l); fprintf(out,"{\"e\":\"Return\",\"v\":[%ld,%ld,%ld]}\n",l[0],l[1],l[2]);
    FILE *sv=out; out=fopen("/dev/null","w"); double fb=f(best); fclose(out); out=sv; enc(fb,l); fprintf(out,"{\"e\":\"Check\",\"v\":[%ld,%ld,%ld]}\n",l[0],l[1],l[2]);
    DelDVector(&x0); DelDVector(&best); }
  fclose(out); return 0; }
