SPECIFICATION Spec
CONSTANTS MaxN = 6
INVARIANTS Partition NoDup
CHECK_DEADLOCK FALSE
