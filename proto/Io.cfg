SPECIFICATION Spec
CONSTANTS Paths = {p1, p2}
 MaxHist = 5
 DropTables = TRUE
INVARIANT ReadsLast
CHECK_DEADLOCK FALSE
