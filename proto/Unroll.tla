---- MODULE Unroll ----
(* MatrixDotProduct dispatch + MatrixDotProduct_LOOP_UNROLLING inner loop (matrix.c:892-944) as index sets. *)
EXTENDS Integers, Sequences, FiniteSets, TLC
CONSTANTS MaxCol, TailFrom   \* TailFrom \in {"col_minus_mod", "mod"} : where the clean-up loop starts
RECURSIVE Main(_, _)          \* indices visited by: for(k = 0; k < col-3; k += 4) { k, k+1, k+2, k+3 }
Main(k, col) == IF k < col - 3 THEN <<k, k + 1, k + 2, k + 3>> \o Main(k + 4, col) ELSE <<>>
CleanUp(col) == LET s == IF TailFrom = "col_minus_mod" THEN col - (col % 4) ELSE col % 4 IN [i \in 1..(col - s) |-> s + i - 1]
Unrolled(col) == Main(0, col) \o CleanUp(col)
Plain(col) == [i \in 1..col |-> i - 1]
Visited(col) == IF col - 3 > 0 THEN Unrolled(col) ELSE Plain(col)      \* dispatch: (int)a->col-3 > 0
Count(seq, k) == Cardinality({i \in 1..Len(seq) : seq[i] = k})
VARIABLE col
Init == col \in 0..MaxCol
Next == UNCHANGED col
Spec == Init /\ [][Next]_col
EachTermOnce == /\ \A k \in 0..(col - 1) : Count(Visited(col), k) = 1
                /\ \A i \in 1..Len(Visited(col)) : Visited(col)[i] \in 0..(col - 1)
====
