SPECIFICATION Spec
CONSTANTS MaxRows = 40
 MaxThreads = 24
INVARIANTS InvA InvB InvC
CHECK_DEADLOCK FALSE
