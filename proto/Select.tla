---- MODULE Select ----
(* Max-min dissimilarity selection (clustering.c:271-554): first pick = object farthest from the    *)
(* centroid, then repeatedly the object maximising the minimum distance to those already chosen.   *)
(* Integer points, squared Euclidean distance (ordering identical to Euclidean). Ties: any maximiser.*)
EXTENDS Integers, Sequences, FiniteSets, TLC
CONSTANTS NPts, Dim, Grid
Pts == 1..NPts
Sq(a) == a * a
RECURSIVE SumDim(_,_,_)
SumDim(f, g, d) == IF d = 0 THEN 0 ELSE Sq(f[d] - g[d]) + SumDim(f, g, d - 1)
D2(X, i, j) == SumDim(X[i], X[j], Dim)
ColSum(X, d) == LET F[k \in 0..NPts] == IF k = 0 THEN 0 ELSE F[k-1] + X[k][d] IN F[NPts]
\* squared distance to the centroid scaled by NPts^2:  sum_d (NPts x_id - S_d)^2
C2(X, i) == LET F[d \in 0..Dim] == IF d = 0 THEN 0 ELSE F[d-1] + Sq(NPts * X[i][d] - ColSum(X, d)) IN F[Dim]
FirstSet(X) == {i \in Pts : \A j \in Pts : C2(X, j) <= C2(X, i)}
MinTo(X, i, sel) == LET S == {D2(X, i, sel[k]) : k \in DOMAIN sel} IN CHOOSE m \in S : \A v \in S : m <= v
NextSet(X, sel) == LET rest == Pts \ {sel[k] : k \in DOMAIN sel} IN {i \in rest : \A j \in rest : MinTo(X, j, sel) <= MinTo(X, i, sel)}
\* the library's deterministic tie-break: lowest index among maximisers (strict > while scanning upwards)
Lowest(S) == CHOOSE i \in S : \A j \in S : i <= j
RECURSIVE ImplSeq(_,_,_)
ImplSeq(X, sel, n) == IF Len(sel) >= n THEN sel ELSE ImplSeq(X, Append(sel, Lowest(NextSet(X, sel))), n)
MaxDisImpl(X, n) == ImplSeq(X, <<Lowest(FirstSet(X))>>, n)
Admissible(X, seq) == /\ seq[1] \in FirstSet(X)
                      /\ \A k \in 2..Len(seq) : seq[k] \in NextSet(X, SubSeq(seq, 1, k - 1))
                      /\ \A a, b \in DOMAIN seq : a # b => seq[a] # seq[b]
VARIABLES X, n
Init == X \in [Pts -> [1..Dim -> 0..Grid]] /\ n \in 1..NPts
Next == UNCHANGED <<X, n>>
Spec == Init /\ [][Next]_<<X, n>>
ImplIsAdmissible == Admissible(X, MaxDisImpl(X, n)) /\ Len(MaxDisImpl(X, n)) = n
====
