#include <stdio.h>
#include "scientific.h"
int main(){ double v[3][3]={{-1,-1,-1},{-1,-1,0},{-1,0,-1}}; matrix *a,*inv,*lu; NewMatrix(&a,3,3); for(int i=0;i<3;i++)for(int j=0;j<3;j++)a->data[i][j]=v[i][j];
 initMatrix(&inv); MatrixInversion(a,inv); puts("MatrixInversion:"); PrintMatrix(inv); initMatrix(&lu); MatrixLUInversion(a,lu); puts("MatrixLUInversion:"); PrintMatrix(lu);
 matrix *aug; NewMatrix(&aug,3,4); double x[3]={1,2,3}; for(int i=0;i<3;i++){ double r=0; for(int j=0;j<3;j++){aug->data[i][j]=v[i][j]; r+=v[i][j]*x[j];} aug->data[i][3]=r; } dvector *s; initDVector(&s); SolveLSE(aug,s); puts("SolveLSE (expect 1 2 3):"); PrintDVector(s); return 0; }
