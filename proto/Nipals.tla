---- MODULE Nipals ----
(* Control skeleton of PCA() (pca.c:162-355) over an abstract numeric domain.                 *)
(* tcls: class of t (Zero / Fin / NaN);  conv: class of calcConvergence(t,t_old)             *)
EXTENDS Naturals, TLC
CONSTANTS MaxRank, MaxNpc, MaxIter, Guarded
VARIABLES rank, npc, pc, phase, tcls, conv, left, evals
vars == <<rank, npc, pc, phase, tcls, conv, left, evals>>
Init == /\ rank \in 0..MaxRank /\ npc \in 1..MaxNpc
        /\ pc = 0 /\ phase = "start" /\ tcls = "Zero" /\ conv = "Big" /\ left = 0
        /\ evals = [i \in 1..MaxNpc |-> "unset"]
Start == /\ phase = "start" /\ pc < npc
         /\ tcls' = IF rank - pc > 0 THEN "Fin" ELSE "Zero"      \* max-variance column of E; E = 0 once the rank is used up
         /\ left' = MaxIter /\ conv' = "Big" /\ phase' = "iter"
         /\ UNCHANGED <<rank, npc, pc, evals>>
\* one pass of the while(1) body: p = E't / t't ; p /= |p| ; t = E p / p'p ; conv = |t - t_old|^2 / (n |t|^2)
IterFin == /\ phase = "iter" /\ tcls = "Fin"
           /\ \/ left > 1 /\ left' = left - 1 /\ conv' = "Big"      \* not yet converged (bounded by the contraction)
              \/ left' = left /\ conv' = "Small"
           /\ phase' = "test" /\ UNCHANGED <<rank, npc, pc, tcls, evals>>
IterNull == /\ phase = "iter" /\ tcls \in {"Zero", "NaN"} /\ ~Guarded
            /\ tcls' = "NaN" /\ conv' = "NaN"                       \* 0/0 -> NaN, NaN propagates through t /= mod_p
            /\ phase' = "test" /\ UNCHANGED <<rank, npc, pc, left, evals>>
GuardStop == /\ phase = "iter" /\ tcls \in {"Zero", "NaN"} /\ Guarded
             /\ evals' = [evals EXCEPT ![pc + 1] = "zero"]
             /\ pc' = pc + 1 /\ phase' = "start" /\ UNCHANGED <<rank, npc, tcls, conv, left>>
Test == /\ phase = "test"
        /\ IF conv = "Small"                                         \* NaN < 1e-10 is false
           THEN /\ evals' = [evals EXCEPT ![pc + 1] = "pos"] /\ pc' = pc + 1 /\ phase' = "start"
           ELSE /\ phase' = "iter" /\ UNCHANGED <<evals, pc>>
        /\ UNCHANGED <<rank, npc, tcls, conv, left>>
Finish == /\ phase = "start" /\ pc = npc /\ phase' = "done" /\ UNCHANGED <<rank, npc, pc, tcls, conv, left, evals>>
Next == Start \/ IterFin \/ IterNull \/ GuardStop \/ Test \/ Finish
Spec == Init /\ [][Next]_vars
FairSpec == Spec /\ WF_vars(Next)
Terminates == <>(phase = "done")
BeyondRankZero == phase = "done" => \A i \in 1..npc : evals[i] = (IF i <= rank THEN "pos" ELSE "zero")
====
