SPECIFICATION Spec
CONSTANTS MaxNy = 4
 MaxNlv = 12
 ResidualIndex = "mod_ny"
 LabelMap = "plus_start"
INVARIANT PredictionIsALabel
CHECK_DEADLOCK FALSE
