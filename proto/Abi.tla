---- MODULE Abi ----
(* Call compatibility of the ctypes declarations with the C prototypes (C20). AbiData is generated on every *)
(* run from clang's JSON AST of src/*.h and from the imported Python package (recording stub loader).      *)
EXTENDS Naturals, Sequences, FiniteSets, TLC, AbiData
VARIABLE f
Init == f \in Funcs
Next == UNCHANGED f
Spec == Init /\ [][Next]_f
SameArity == Len(CArgs[f]) = Len(PyArgs[f])
SameKinds == SameArity => \A i \in 1..Len(CArgs[f]) : CArgs[f][i] = PyArgs[f][i]
SameReturn == CRet[f] = PyRet[f]
Compatible == SameArity /\ SameKinds /\ SameReturn
Bad == {g \in Funcs : ~(Len(CArgs[g]) = Len(PyArgs[g]) /\ (\A i \in 1..Len(CArgs[g]) : CArgs[g][i] = PyArgs[g][i]) /\ CRet[g] = PyRet[g])}
ASSUME PrintT(<<"incompatible", Bad>>)
====
