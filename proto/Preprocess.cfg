SPECIFICATION Spec
CONSTANTS MaxRows = 5
INVARIANTS CentredSumsToZero UnitVariance SsdIdentity ZeroSpreadIffConstant
CHECK_DEADLOCK FALSE
