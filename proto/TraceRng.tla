---- MODULE TraceRng ----
(* Trace spec for the generator word (C06). Events are written under the gate's mutex, in schedule order:   *)
(*   Wrote(w, v)  - worker w stored v into the word (srand_ or the write half of a draw)                   *)
(*   Read(w, v)   - worker w copied v out of the word (read half of a draw)                                *)
(* PerThread design: the value a worker reads is the value that same worker wrote last.                    *)
EXTENDS Naturals, Sequences, TLC, Json, IOUtils
Tr == ndJsonDeserialize(IOEnv.TRACE)
Workers == 0..7
VARIABLES l, last, has
Init == l = 1 /\ last = [w \in Workers |-> ""] /\ has = [w \in Workers |-> FALSE]
Ev == Tr[l]
Reset == l <= Len(Tr) /\ Ev.e = "Reset" /\ l' = l + 1 /\ last' = [w \in Workers |-> ""] /\ has' = [w \in Workers |-> FALSE]
SeedBegin == l <= Len(Tr) /\ Ev.e = "SeedBegin" /\ l' = l + 1 /\ UNCHANGED <<last, has>>
Wrote == l <= Len(Tr) /\ Ev.e = "Wrote" /\ l' = l + 1 /\ last' = [last EXCEPT ![Ev.w] = Ev.v] /\ has' = [has EXCEPT ![Ev.w] = TRUE]
Read == /\ l <= Len(Tr) /\ Ev.e = "Read" /\ l' = l + 1 /\ UNCHANGED <<last, has>>
        /\ has[Ev.w] /\ Ev.v = last[Ev.w]                       \* StreamIsolation, on the real word values
Next == Reset \/ SeedBegin \/ Wrote \/ Read
Spec == Init /\ [][Next]_<<l, last, has>>
TraceAccepted == TLCGet("stats").diameter = Len(Tr) + 1
====
