---- MODULE TracePca ----
(* Ledger for PCA() (C01): variance budget in units of 1e-9 of ss0, residual magnitudes in units of 1e-12. *)
EXTENDS Integers, Sequences, TLC, Json, IOUtils
Tr == ndJsonDeserialize(IOEnv.TRACE)
TolAlg == 10000            \* 1e-8 in units of 1e-12
One == 1000000000          \* ss0
VARIABLES l, npc, rank, k, ssLeft, lastEval, sumVar, tolEig
vars == <<l, npc, rank, k, ssLeft, lastEval, sumVar, tolEig>>
Abs(x) == IF x < 0 THEN -x ELSE x
Ev == Tr[l]
Init == l = 1 /\ npc = 0 /\ rank = 0 /\ k = 0 /\ ssLeft = One /\ lastEval = One /\ sumVar = 0 /\ tolEig = 0
Fit == /\ l <= Len(Tr) /\ Ev.e = "Fit" /\ k = npc /\ l' = l + 1
       /\ npc' = Ev.npc /\ rank' = Ev.rank /\ k' = 0 /\ ssLeft' = One /\ lastEval' = One /\ sumVar' = 0
       /\ tolEig' = 200000 + (Ev.n * 4000)        \* generous linearisation of 4*sqrt(n*1e-10) in 1e-9 units (n <= 60)
       /\ Ev.npc <= Ev.rank
Extract == /\ l <= Len(Tr) /\ Ev.e = "Extract" /\ k < npc /\ Ev.k = k + 1 /\ l' = l + 1 /\ k' = k + 1
           /\ Ev.ortho <= TolAlg /\ Ev.proj <= TolAlg /\ Ev.rorth <= TolAlg            \* algebraic identities
           /\ Ev.eval >= 0 /\ Ev.eval <= lastEval + tolEig                            \* non-increasing
           /\ Abs((ssLeft - Ev.eval) - Ev.resid) <= tolEig                            \* budget: Pythagoras
           /\ Abs(Ev.varexp - Ev.eval) <= tolEig                                      \* varexp = eval / ss0
           /\ ssLeft' = Ev.resid /\ lastEval' = Ev.eval /\ sumVar' = sumVar + Ev.varexp
           /\ sumVar' <= One + 2 * tolEig
           /\ UNCHANGED <<npc, rank, tolEig>>
Finish == /\ l <= Len(Tr) /\ Ev.e = "Finish" /\ k = npc /\ l' = l + 1
          /\ Ev.project <= TolAlg
          /\ (Ev.full = 1 => /\ ssLeft <= tolEig /\ Abs(sumVar - One) <= 2 * tolEig /\ Ev.back <= TolAlg * 100)
          /\ UNCHANGED <<npc, rank, k, ssLeft, lastEval, sumVar, tolEig>>
Next == Fit \/ Extract \/ Finish
Spec == Init /\ [][Next]_vars
TraceAccepted == TLCGet("stats").diameter = Len(Tr) + 1
====
