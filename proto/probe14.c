#include <stdio.h>
#include <stdlib.h>
#include <math.h>
#include <string.h>
#include "scientific.h"
static double urand(unsigned *s){ *s = *s*1664525u+1013904223u; return ((*s>>8)&0xFFFFFF)/16777216.0; }
static double nrand(unsigned *s){ double a=0; for(int i=0;i<12;i++) a+=urand(s); return a-6; }
int main(){ unsigned seed=3; double w_loo=0,w_kf=0,w_bs=0,w_sens=0; int nonfinite=0;
  for(int rep=0;rep<40;rep++){ int n=6+(int)(urand(&seed)*25), p=1+(int)(urand(&seed)*6), ny=1; if(p>n-4)p=n-4; if(p<1)p=1; int nlv=1+(int)(urand(&seed)*p); if(nlv>2)nlv=2;
    matrix *x,*y; NewMatrix(&x,n,p); NewMatrix(&y,n,ny); for(int i=0;i<n;i++){ double v=5; for(int j=0;j<p;j++){ x->data[i][j]=nrand(&seed)*(j+1)+10*j; v+=0.7*(j+1)*x->data[i][j]; } y->data[i][0]=v+nrand(&seed); }
    MODELINPUT in=initModelInput(); in.mx=x; in.my=y; in.nlv=nlv; in.xautoscaling=1; in.yautoscaling=0;
    int nth=1+rep%4;
    /* LOO */ matrix *py,*pr; initMatrix(&py); initMatrix(&pr); LeaveOneOut(&in,_PLS_,py,pr,nth,NULL,0);
    for(int i=0;i<n;i++){ matrix *xt,*yt,*x1; NewMatrix(&xt,n-1,p); NewMatrix(&yt,n-1,ny); NewMatrix(&x1,1,p); int r=0; for(int q=0;q<n;q++){ if(q==i){ for(int j=0;j<p;j++) x1->data[0][j]=x->data[q][j]; continue;} for(int j=0;j<p;j++) xt->data[r][j]=x->data[q][j]; yt->data[r][0]=y->data[q][0]; r++; }
      PLSMODEL *m; NewPLSModel(&m); PLS(xt,yt,nlv,1,0,m,NULL); matrix *yp; initMatrix(&yp); PLSYPredictorAllLV(x1,m,NULL,yp); for(size_t c=0;c<yp->col;c++){ double e=fabs(yp->data[0][c]-py->data[i][c]); if(e>w_loo)w_loo=e; if(!isfinite(py->data[i][c])) nonfinite++; } DelMatrix(&yp); DelPLSModel(&m); DelMatrix(&xt);DelMatrix(&yt);DelMatrix(&x1);} 
    /* self-sensitivity: change y[0] only, prediction of object 0 must not change */ double keep=y->data[0][0]; y->data[0][0]+=1000; matrix *py2,*pr2; initMatrix(&py2); initMatrix(&pr2); LeaveOneOut(&in,_PLS_,py2,pr2,nth,NULL,0); for(size_t c=0;c<py->col;c++){ double e=fabs(py2->data[0][c]-py->data[0][c]); if(e>w_sens)w_sens=e; } y->data[0][0]=keep; DelMatrix(&py2);DelMatrix(&pr2);
    /* bootstrap replicate: seeds base+k, average */ int g=2+(int)(urand(&seed)*4); if(g>n) g=n; int iters=nth*2; matrix *pb,*rb; initMatrix(&pb); initMatrix(&rb); BootstrapRandomGroupsCV(&in,g,iters,_PLS_,pb,rb,nth,NULL,0);
    matrix *acc; NewMatrix(&acc,n,ny*nlv); int *cnt=calloc(n,sizeof(int)); unsigned base=g+n+ny+iters; for(int k=0;k<iters;k++){ matrix *gid; initMatrix(&gid); unsigned sd=base+k; random_kfold_group_generator(gid,g,n,&sd);
        for(size_t gg=0;gg<gid->row;gg++){ matrix *xt,*yt,*xs,*ys; initMatrix(&xt);initMatrix(&yt);initMatrix(&xs);initMatrix(&ys); kfold_group_train_test_split(x,y,gid,gg,xt,yt,xs,ys); PLSMODEL *m; NewPLSModel(&m); PLS(xt,yt,nlv,1,0,m,NULL); matrix *yp; initMatrix(&yp); PLSYPredictorAllLV(xs,m,NULL,yp); int r=0; for(size_t j=0;j<gid->col;j++){ int a=(int)gid->data[gg][j]; if(a==-1) continue; cnt[a]++; for(size_t c=0;c<yp->col;c++) acc->data[a][c]+=yp->data[r][c]; r++; } DelMatrix(&yp);DelPLSModel(&m);DelMatrix(&xt);DelMatrix(&yt);DelMatrix(&xs);DelMatrix(&ys);} DelMatrix(&gid);} 
    for(int i=0;i<n;i++)for(size_t c=0;c<acc->col;c++){ double e=fabs(acc->data[i][c]/cnt[i]-pb->data[i][c]); if(e>w_bs)w_bs=e; }
    free(cnt); DelMatrix(&acc); DelMatrix(&pb);DelMatrix(&rb); DelMatrix(&py);DelMatrix(&pr); DelMatrix(&x);DelMatrix(&y);} 
  printf("CV(PLS): LOO vs refit %.3g ; self-sensitivity %.3g ; bootstrap vs replicated folds %.3g ; non-finite %d\n", w_loo,w_sens,w_bs,nonfinite); return 0; }
