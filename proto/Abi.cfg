SPECIFICATION Spec
INVARIANT Compatible
CHECK_DEADLOCK FALSE
