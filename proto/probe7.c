#include <stdio.h>
#include <stdlib.h>
#include <math.h>
#include "scientific.h"
/* X = s1 u1 v1' + s2 u2 v2' + s3 u3 v3', u ⟂ 1 ; compare PCA score 1 to s1 u1 */
int main(){
  int n=30,c=3; double s[3]={10, 10*sqrt(0.104), 1};
  double u[3][30], v[3][3]={{0.6,0.64,0.48},{-0.8,0.48,0.36},{0,-0.6,0.8}};
  for(int i=0;i<n;i++){ u[0][i]=cos(2*M_PI*(i+0.5)/n); u[1][i]=sin(2*M_PI*(i+0.5)/n); u[2][i]=cos(4*M_PI*(i+0.5)/n);} 
  for(int k=0;k<3;k++){ double nn=0; for(int i=0;i<n;i++) nn+=u[k][i]*u[k][i]; nn=sqrt(nn); for(int i=0;i<n;i++) u[k][i]/=nn; }
  matrix *x; NewMatrix(&x,n,c); for(int i=0;i<n;i++)for(int j=0;j<c;j++){ double val=5+j; for(int k=0;k<3;k++) val+=s[k]*u[k][i]*v[k][j]; x->data[i][j]=val; }
  PCAMODEL *m; NewPCAModel(&m); PCA(x,0,3,m,NULL);
  for(int k=0;k<3;k++){ double dp=0,dm=0; for(int i=0;i<n;i++){ double a=m->scores->data[i][k], b=s[k]*u[k][i]; dp+=(a-b)*(a-b); dm+=(a+b)*(a+b);} printf("comp %d rel score err %.3g  eval %.12g (true %.12g)\n",k,sqrt((dp<dm?dp:dm))/s[k], m->varexp->data[k], 100*s[k]*s[k]/(s[0]*s[0]+s[1]*s[1]+s[2]*s[2])); }
  printf("eps=%.3g rho/(1-rho)=%.3g\n", sqrt(n*1e-10), 0.104/(1-0.104));
  return 0;
}
