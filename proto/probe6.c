#include <stdio.h>
#include <stdlib.h>
#include <math.h>
#include "scientific.h"
#include "preprocessing.h"
extern void dsyev_(char*,char*,int*,double*,int*,double*,double*,int*,int*);
static double urand(unsigned *s){ *s = *s*1664525u+1013904223u; return ((*s>>8)&0xFFFFFF)/16777216.0; }
static double nrand(unsigned *s){ double a=0; for(int i=0;i<12;i++) a+=urand(s); return a-6; }
int main(){
  unsigned seed=4242; double w_score=0, w_var=0, w_super=0, w_reproj=0; int cnt=0; double w_mono=0;
  for(int rep=0; rep<5000; rep++){
    int nb = 2 + (int)(urand(&seed)*3), n = 5 + (int)(urand(&seed)*26); int scaling=(int)(urand(&seed)*6);
    int w[4], minw=99, tot=0; for(int b=0;b<nb;b++){ w[b]=1+(int)(urand(&seed)*8); if(w[b]<minw)minw=w[b]; tot+=w[b]; }
    int npc = 1 + (int)(urand(&seed)*minw); if(npc>minw) npc=minw; if(npc>n-2) npc=n-2; if(npc<1) npc=1;
    /* latent structure with separated spectrum */
    int L=6; double lat[40][6]; for(int i=0;i<n;i++)for(int l=0;l<L;l++) lat[i][l]=nrand(&seed)*pow(0.55,l)*10;
    tensor *t; NewTensor(&t, nb); matrix *X; NewMatrix(&X,n,tot); int c0=0;
    for(int b=0;b<nb;b++){ NewTensorMatrix(t,b,n,w[b]); for(int j=0;j<w[b];j++){ double coef[6]; for(int l=0;l<L;l++) coef[l]=nrand(&seed); double off=(urand(&seed)-0.5)*100+80; for(int i=0;i<n;i++){ double v=off; for(int l=0;l<L;l++) v+=coef[l]*lat[i][l]; v+=0.01*nrand(&seed); t->m[b]->data[i][j]=v; } } }
    CPCAMODEL *m; NewCPCAModel(&m); CPCA(t,scaling,npc,m);
    npc = m->super_scores->col;
    /* reference: PCA(scaling 0 = centre again, harmless) on concatenated preprocessed blocks / sqrt(w) */
    c0=0; for(int b=0;b<nb;b++){ matrix *E; NewMatrix(&E,n,w[b]); dvector *a,*s; initDVector(&a); initDVector(&s); MatrixPreprocess(t->m[b],scaling,a,s,E); for(int j=0;j<w[b];j++){ for(int i=0;i<n;i++) X->data[i][c0]=E->data[i][j]/sqrt((double)w[b]); c0++; } DelMatrix(&E); DelDVector(&a); DelDVector(&s);} 
    PCAMODEL *p; NewPCAModel(&p); int npc2 = (npc+1<=tot && npc+1<=n-2)?npc+1:npc; PCA(X,0,npc2,p,NULL);
    /* truth */ int N=tot, lw=10*tot+10, info; double *G=calloc(tot*tot,sizeof(double)), *ev=malloc(sizeof(double)*tot), *wk=malloc(sizeof(double)*lw);
    { double mean[64]; for(int j=0;j<tot;j++){ mean[j]=0; for(int i=0;i<n;i++) mean[j]+=X->data[i][j]; mean[j]/=n; }
      for(int a=0;a<tot;a++)for(int b=0;b<tot;b++){ double v=0; for(int i=0;i<n;i++) v+=(X->data[i][a]-mean[a])*(X->data[i][b]-mean[b]); G[a+b*tot]=v; }
      dsyev_("V","U",&N,G,&N,ev,wk,&lw,&info); if(rep==864){ fprintf(stderr,"TRUTH n=%d tot=%d scaling=%d nb=%d ev: ",n,tot,scaling,nb); for(int q=tot-1;q>=0&&q>tot-5;q--) fprintf(stderr,"%.6g ",ev[q]); fprintf(stderr,"\n"); }
      double eb[16]; double worstratio=0;
      for(int k=0;k<npc;k++){ double *v=&G[(tot-1-k)*tot]; double dpc=0,dmc=0,dpp=0,dmp=0,nn=0; for(int i=0;i<n;i++){ double tt=0; for(int j=0;j<tot;j++) tt+=(X->data[i][j]-mean[j])*v[j]; double a=m->super_scores->data[i][k], b=p->scores->data[i][k]; dpc+=(a-tt)*(a-tt); dmc+=(a+tt)*(a+tt); dpp+=(b-tt)*(b-tt); dmp+=(b+tt)*(b+tt); nn+=tt*tt; }
        double ec=sqrt((dpc<dmc?dpc:dmc)/nn), ep=sqrt((dpp<dmp?dpp:dmp)/nn); double rho = (tot-2-k>=0)? ev[tot-2-k]/ev[tot-1-k] : 0; if(rho<0) rho=0; double own = 30*sqrt(n*1e-10)*(rho/(1-rho)+0.05); double acc=0; for(int j=0;j<k;j++) acc += eb[j]*sqrt(ev[tot-1-j]/ev[tot-1-k]); acc = own + acc/(1-rho); eb[k]=acc;
        static double gw=0; if(rho<0.7225){ if(ep/acc>gw){ gw=ep/acc; printf("rep %d k %d PCA-vs-truth %.3g bound %.3g ratio %.3g rho %.3f\n",rep,k,ep,acc,gw,rho);} } else break; } }
    free(G);free(ev);free(wk);
    for(int k=0;k<npc;k++){ double dp=0,dm=0,nn=0; for(int i=0;i<n;i++){ double a=m->super_scores->data[i][k], b=p->scores->data[i][k]; dp+=(a-b)*(a-b); dm+=(a+b)*(a+b); nn+=b*b; } double d=sqrt((dp<dm?dp:dm)/nn); double ratio=(k+1<npc2)? p->varexp->data[k+1]/p->varexp->data[k] : 0; if(0) printf("rep %d k %d dist %.3g eig-ratio %.4f bound %.3g\n",rep,k,d,ratio, 50*sqrt(n*1e-10)/(1-sqrt(ratio))); if(ratio<=0.7225 && d>w_score) w_score=d;
      double dv=fabs(m->total_expvar->data[k]-p->varexp->data[k]); if(dv>w_var) w_var=dv;
      /* super = block scores x super weights */
      double e=0,q=0; for(int i=0;i<n;i++){ double v=0; for(int b=0;b<nb;b++) v+=m->block_scores->m[k]->data[i][b]*m->super_weights->data[b][k]; double a=m->super_scores->data[i][k]; e+=(v-a)*(v-a); q+=a*a; } if(sqrt(e/q)>w_super) w_super=sqrt(e/q);
      for(int b=0;b<nb;b++){ double cur=m->block_expvar->d[k]->data[b]; if(cur<-1e-9||cur>100+1e-9) w_mono=1e9; if(k>0){ double prev=m->block_expvar->d[k-1]->data[b]; if(prev-cur>w_mono) w_mono=prev-cur; } }
    }
    matrix *ps; tensor *pb; initMatrix(&ps); initTensor(&pb); CPCAScorePredictor(t,m,npc,ps,pb); double se=0,sn=0; for(int i=0;i<n;i++)for(int k=0;k<npc;k++){ double d=ps->data[i][k]-m->super_scores->data[i][k]; se+=d*d; sn+=m->super_scores->data[i][k]*m->super_scores->data[i][k]; } if(sqrt(se/sn)>w_reproj) w_reproj=sqrt(se/sn);
    cnt++; DelCPCAModel(&m); DelPCAModel(&p); DelTensor(&t); DelMatrix(&X); DelMatrix(&ps); DelTensor(&pb);
  }
  printf("CPCA (%d models): worst super-vs-PCA score rel %.3g ; |total_expvar - varexp| %.3g pp ; super=blocks*weights rel %.3g ; block_expvar decrease %.3g ; reproj rel %.3g\n", cnt, w_score, w_var, w_super, w_mono, w_reproj);
  return 0;
}
