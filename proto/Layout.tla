---- MODULE Layout ----
(* Column layout of recalculated_y / predicted_y / residual tables (pls.c:531-551, 751-786;           *)
(* modelvalidation.c:691,976,1201) and the LDA label <-> row bookkeeping (lda.c:124-144, 489-534).     *)
EXTENDS Integers, FiniteSets, TLC
CONSTANTS MaxNy, MaxNlv, ResidualIndex, LabelMap     \* "div_nlv" | "mod_ny" ;  "plus_pos" | "plus_start"
VARIABLES ny, nlv, start, nclass
Init == ny \in 1..MaxNy /\ nlv \in 1..MaxNlv /\ start \in {0, 1} /\ nclass \in 2..5
Next == UNCHANGED <<ny, nlv, start, nclass>>
Spec == Init /\ [][Next]_<<ny, nlv, start, nclass>>
Col(a, j) == ny * (a - 1) + j                       \* a \in 1..nlv (LV-major), j \in 0..ny-1
Cols == 0..(ny * nlv - 1)
RespOf(c) == c % ny
LvOf(c) == c \div ny + 1
RespImpl(c) == IF ResidualIndex = "div_nlv" THEN c \div nlv ELSE c % ny
LayoutBijective == /\ {Col(a, j) : a \in 1..nlv, j \in 0..(ny - 1)} = Cols
                   /\ \A a \in 1..nlv, j \in 0..(ny - 1) : RespOf(Col(a, j)) = j /\ LvOf(Col(a, j)) = a
ResidualAgainstOwnResponse == \A c \in Cols : RespImpl(c) = RespOf(c)
\* LDA: labels are start..start+nclass-1 ; rows of mu / fmean / fsdev are 0..nclass-1
Labels == start..(start + nclass - 1)
Pos == IF start = 1 THEN -1 ELSE 0
PredLabel(argmax) == IF LabelMap = "plus_pos" THEN argmax + Pos ELSE argmax + start
TableRow(label)   == IF LabelMap = "plus_pos" THEN label + Pos ELSE label - start
PredictionIsALabel == \A k \in 0..(nclass - 1) : PredLabel(k) \in Labels /\ TableRow(PredLabel(k)) = k
====
