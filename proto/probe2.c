#include <stdio.h>
#include <stdlib.h>
#include <string.h>
#include <math.h>
#include "scientific.h"
int main(int argc, char **argv){
  int nth = atoi(argv[1]); int reps = atoi(argv[2]);
  matrix *x,*y; NewMatrix(&x,12,3); NewMatrix(&y,12,1);
  for(int i=0;i<12;i++){for(int j=0;j<3;j++) x->data[i][j]=sin(i*1.3+j*2.1)*3+j; y->data[i][0]=x->data[i][0]*2-x->data[i][1]+0.3*cos(i*7.0);}
  MODELINPUT in = initModelInput(); in.mx=x; in.my=y; in.nlv=2; in.xautoscaling=1; in.yautoscaling=0;
  double ref=0; int diff=0;
  for(int r=0;r<reps;r++){
    matrix *py,*pr; initMatrix(&py); initMatrix(&pr);
    BootstrapRandomGroupsCV(&in, 3, 8, _PLS_, py, pr, nth, NULL, 0);
    double s=0; for(int i=0;i<py->row;i++)for(int j=0;j<py->col;j++) s+=py->data[i][j]*(i+1)*(j+3);
    if(r==0) ref=s; else if(s!=ref) diff++;
    DelMatrix(&py); DelMatrix(&pr);
  }
  printf("nth=%d ref=%.17g differing runs=%d/%d\n", nth, ref, diff, reps);
  return 0;
}
