SPECIFICATION Spec
CONSTANTS NPts = 4
 Dim = 2
 Grid = 2
INVARIANT ImplIsAdmissible
CHECK_DEADLOCK FALSE
