---- MODULE CvPartition ----
(* random_kfold_group_generator (modelvalidation.c:32-58) with the RNG draw left nondeterministic, *)
(* and kfold_group_train_test_split (60-137).                                                   *)
EXTENDS Integers, Sequences, FiniteSets, TLC
CONSTANTS MaxN
CeilDiv(a, b) == (a + b - 1) \div b
VARIABLES n, g, gid, slot, k, phase
vars == <<n, g, gid, slot, k, phase>>
Width == CeilDiv(n, g)
Slots == g * Width
Init == /\ n \in 1..MaxN /\ g \in 1..MaxN /\ g <= n
        /\ gid = [s \in 1..(g * CeilDiv(n, g)) |-> -1]      \* row-major, -1 = empty
        /\ slot = 1 /\ k = 0 /\ phase = "gen"
InGid(v) == \E s \in DOMAIN gid : gid[s] = v
Draw(v) == /\ phase = "gen" /\ slot <= Slots
           /\ IF InGid(v) /\ k < n THEN UNCHANGED vars          \* rejected: draw again
              ELSE /\ IF k < n THEN gid' = [gid EXCEPT ![slot] = v] /\ k' = k + 1
                             ELSE UNCHANGED <<gid, k>>
                   /\ slot' = slot + 1
                   /\ phase' = IF slot = Slots THEN "done" ELSE "gen"
                   /\ UNCHANGED <<n, g>>
Next == \E v \in 0..(n - 1) : Draw(v)
Spec == Init /\ [][Next]_vars
FairSpec == Spec /\ \A v \in 0..(MaxN-1) : SF_vars(v < n /\ Draw(v) /\ slot' # slot)
Group(i) == {gid[s] : s \in ((i - 1) * Width + 1)..(i * Width)} \ {-1}
Test(i) == Group(i)
Train(i) == UNION {Group(j) : j \in (1..g) \ {i}}
Partition == phase = "done" =>
   /\ \A v \in 0..(n - 1) : Cardinality({s \in DOMAIN gid : gid[s] = v}) = 1
   /\ \A s \in DOMAIN gid : gid[s] \in -1..(n - 1)
   /\ \A i \in 1..g : Test(i) \cap Train(i) = {} /\ Test(i) \cup Train(i) = 0..(n - 1)
NoDup == \A v \in 0..(n - 1) : Cardinality({s \in DOMAIN gid : gid[s] = v}) <= 1
Terminates == <>(phase = "done")
====
