SPECIFICATION Spec
CONSTANTS NK = 4
 LookupTol = "abs1e-2"
INVARIANTS LookupRight
CHECK_DEADLOCK FALSE
