#include <stdio.h>
#include <stdlib.h>
#include <string.h>
#include <math.h>
#include "scientific.h"
#include "preprocessing.h"
int main(int argc, char **argv){
  const char *t = argv[1];
  if(!strcmp(t,"mt")){
    for(int rows=0; rows<6; rows++){
      matrix *m; NewMatrix(&m, rows, 3); for(int i=0;i<rows;i++)for(int j=0;j<3;j++) m->data[i][j]=i+j+1;
      dvector *v,*p,*q; NewDVector(&v,3); v->data[0]=1;v->data[1]=2;v->data[2]=3; NewDVector(&p,rows); NewDVector(&q,rows);
      MT_MatrixDVectorDotProduct(m,v,p); MatrixDVectorDotProduct(m,v,q);
      int ok=1; for(int i=0;i<rows;i++) if(p->data[i]!=q->data[i]) ok=0; printf("rows=%d mt==st %d\n", rows, ok);
      dvector *w,*a,*b; NewDVector(&w,rows); for(int i=0;i<rows;i++) w->data[i]=i+1; NewDVector(&a,3); NewDVector(&b,3);
      MT_DVectorMatrixDotProduct(m,w,a); DVectorMatrixDotProduct(m,w,b);
      ok=1; for(int j=0;j<3;j++) if(a->data[j]!=b->data[j]) ok=0; printf("rows=%d vm mt==st %d\n", rows, ok);
    }
  } else if(!strcmp(t,"dist")){
    matrix *m; NewMatrix(&m, 3, 2); for(int i=0;i<3;i++)for(int j=0;j<2;j++) m->data[i][j]=i*i+j;
    for(int nth=1;nth<=7;nth++){ matrix *d; initMatrix(&d); CalculateDistance(m,m,d,nth,EUCLIDEAN); dvector *c; initDVector(&c); EuclideanDistanceCondensed(m,c,nth);
      printf("nth=%d d01=%g d02=%g d12=%g cond=%g %g %g\n", nth, d->data[0][1], d->data[0][2], d->data[1][2], c->data[0], c->data[1], c->data[2]); }
  } else if(!strcmp(t,"kfold")){
    matrix *x,*y; NewMatrix(&x,8,2); NewMatrix(&y,8,1);
    for(int i=0;i<8;i++){x->data[i][0]=sin(i*1.7)*3; x->data[i][1]=cos(i*0.9)+i*0.2; y->data[i][0]=x->data[i][0]-2*x->data[i][1]+0.1*sin(i*5.0);}
    uivector *g; NewUIVector(&g,8); size_t lab[8]={0,2,2,0,4,4,0,2}; for(int i=0;i<8;i++) g->data[i]=lab[i];
    MODELINPUT in = initModelInput(); in.mx=x; in.my=y; in.nlv=1;
    matrix *py,*pr; initMatrix(&py); initMatrix(&pr);
    KFoldCV(&in, g, _MLR_, py, pr, 2, NULL, 0); PrintMatrix(py);
  } else if(!strcmp(t,"prep")){
    matrix *m,*tr,*tr2; NewMatrix(&m,4,2); double v[4][2]={{0.004,1},{0.006,2},{0.003,3},{0.007,5}}; for(int i=0;i<4;i++)for(int j=0;j<2;j++)m->data[i][j]=v[i][j];
    NewMatrix(&tr,4,2); dvector *a,*s; initDVector(&a); initDVector(&s);
    MatrixPreprocess(m,5,a,s,tr); puts("fit"); PrintMatrix(tr); PrintDVector(a); PrintDVector(s);
    NewMatrix(&tr2,4,2); MatrixPreprocess(m,-1,a,s,tr2); puts("apply"); PrintMatrix(tr2);
  } else if(!strcmp(t,"tcopy")){
    tensor *a,*b; initTensor(&a); AddTensorMatrix(a,2,2); AddTensorMatrix(a,2,3); initTensor(&b); AddTensorMatrix(b,1,1);
    TensorCopy(a,&b); printf("order %zu\n", b->order); DelTensor(&a); DelTensor(&b);
  } else if(!strcmp(t,"sext")){
    strvector *a,*b,*c; initStrVector(&a); initStrVector(&b); StrVectorAppend(a,"x"); StrVectorAppend(b,"y");
    c = StrVectorExtend(a,b); DelStrVector(&c); DelStrVector(&a); DelStrVector(&b);
  }
  return 0;
}
