#include <stdio.h>
#include <stdlib.h>
#include <math.h>
#include <string.h>
#include "scientific.h"
#include "preprocessing.h"
extern void dgels_(char*,int*,int*,int*,double*,int*,double*,int*,double*,int*,int*);
static double urand(unsigned *s){ *s = *s*1664525u+1013904223u; return ((*s>>8)&0xFFFFFF)/16777216.0; }
static double nrand(unsigned *s){ double a=0; for(int i=0;i<12;i++) a+=urand(s); return a-6; }
int main(){
  unsigned seed=777; double w_ols=0, w_mono=0, w_tortho=0, w_wortho=0, w_recon=0, w_reproj=0, w_beta=0, w_recalc=0;
  for(int rep=0; rep<400; rep++){
    int n = 6 + (int)(urand(&seed)*35), p = 1 + (int)(urand(&seed)*10), ny = 1 + (int)(urand(&seed)*3); if(p>n-2) p=n-2;
    int xs = (int)(urand(&seed)*7)-1, ys=(int)(urand(&seed)*7)-1; double noise = (rep%3==0)?0.0:pow(10,urand(&seed)*3-2);
    matrix *x,*y; NewMatrix(&x,n,p); NewMatrix(&y,n,ny);
    for(int j=0;j<p;j++){ double off=(urand(&seed)-0.5)*200+300, sc=pow(10,urand(&seed)*3-0.5); for(int i=0;i<n;i++) x->data[i][j]=off+sc*nrand(&seed);} 
    for(int k=0;k<ny;k++){ double off=(urand(&seed))*50+60; double b[16]; for(int j=0;j<p;j++) b[j]=nrand(&seed); for(int i=0;i<n;i++){ double v=off; for(int j=0;j<p;j++) v+=b[j]*(x->data[i][j]-300)/10; y->data[i][k]=v+noise*nrand(&seed)*5; } }
    int nlv=p; if(xs==-1||ys==-1){ /* no centering: skip OLS-with-intercept comparison */ }
    PLSMODEL *m; NewPLSModel(&m); PLS(x,y,nlv,xs,ys,m,NULL);
    /* OLS fitted via dgels on [1 X] */
    int M=n,N=p+1,NR=ny,lda=n,ldb=n,info,lwork=-1; double wk; double *A=malloc(sizeof(double)*n*(p+1)), *B=malloc(sizeof(double)*n*ny);
    for(int i=0;i<n;i++){A[i]=1; for(int j=0;j<p;j++)A[i+(j+1)*n]=x->data[i][j]; for(int k=0;k<ny;k++)B[i+k*n]=y->data[i][k];}
    dgels_("N",&M,&N,&NR,A,&lda,B,&ldb,&wk,&lwork,&info); lwork=(int)wk; double *work=malloc(sizeof(double)*lwork);
    dgels_("N",&M,&N,&NR,A,&lda,B,&ldb,work,&lwork,&info);
    if(xs!=-1 && ys!=-1){
      for(int k=0;k<ny;k++){ double e=0,sc=0; for(int i=0;i<n;i++){ double f=B[0+k*n]; for(int j=0;j<p;j++) f+=B[(j+1)+k*n]*x->data[i][j]; double d=m->recalculated_y->data[i][ny*(nlv-1)+k]-f; e+=d*d; sc+=f*f; } double r=sqrt(e/sc); if(r>w_ols) w_ols=r; }
    }
    /* monotone rss */
    for(int k=0;k<ny;k++){ double prev=1e300; for(int a=1;a<=nlv;a++){ double rss=0; for(int i=0;i<n;i++){ double d=m->recalculated_y->data[i][ny*(a-1)+k]-y->data[i][k]; rss+=d*d;} double tss=0,mean=0; for(int i=0;i<n;i++) mean+=y->data[i][k]; mean/=n; for(int i=0;i<n;i++) tss+=(y->data[i][k]-mean)*(y->data[i][k]-mean); if(rss>prev){ double inc=(rss-prev)/tss; if(inc>w_mono) w_mono=inc;} prev=rss; } }
    /* t ortho, w ortho */
    for(int a=0;a<nlv;a++)for(int b=0;b<a;b++){ double d=0,na=0,nb=0; for(int i=0;i<n;i++){d+=m->xscores->data[i][a]*m->xscores->data[i][b]; na+=m->xscores->data[i][a]*m->xscores->data[i][a]; nb+=m->xscores->data[i][b]*m->xscores->data[i][b];} double c=fabs(d)/sqrt(na*nb); if(c>w_tortho) w_tortho=c;
      d=na=nb=0; for(int j=0;j<p;j++){d+=m->xweights->data[j][a]*m->xweights->data[j][b]; na+=m->xweights->data[j][a]*m->xweights->data[j][a]; nb+=m->xweights->data[j][b]*m->xweights->data[j][b];} c=fabs(d)/sqrt(na*nb); if(c>w_wortho) w_wortho=c; }
    /* reproj */
    matrix *ps; initMatrix(&ps); PLSScorePredictor(x,m,nlv,ps); double se=0,sn=0; for(int i=0;i<n;i++)for(int a=0;a<nlv;a++){ double d=ps->data[i][a]-m->xscores->data[i][a]; se+=d*d; sn+=m->xscores->data[i][a]*m->xscores->data[i][a]; } if(sqrt(se/sn)>w_reproj) w_reproj=sqrt(se/sn);
    DelMatrix(&ps); free(A);free(B);free(work); DelPLSModel(&m); DelMatrix(&x); DelMatrix(&y);
  }
  printf("PLS: worst rel |PLS(full)-OLS| %.3g ; rss increase/tss %.3g ; t-ortho cos %.3g ; w-ortho cos %.3g ; score reproj rel %.3g\n", w_ols,w_mono,w_tortho,w_wortho,w_reproj);
  return 0;
}
