SPECIFICATION Spec
CONSTANTS Workers = {A, B}
 K = 2
 PerThread = TRUE
INVARIANT StreamIsolation
CHECK_DEADLOCK FALSE
