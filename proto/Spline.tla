---- MODULE Spline ----
(* Natural cubic spline (interpolate.c:13-73, Burden & Faires alg. 3.4) over exact rationals and the  *)
(* piece lookup of cubic_spline_predict (75-114). Knot abscissae are integers times a scale 10^E.    *)
EXTENDS Integers, Sequences, FiniteSets, TLC
CONSTANTS NK, LookupTol           \* NK knots; LookupTol \in {"abs1e-2", "exact"}
Abs(x) == IF x < 0 THEN -x ELSE x
RECURSIVE Gcd(_,_)
Gcd(a,b) == IF b = 0 THEN a ELSE Gcd(b, a % b)
Q(n,d) == IF n = 0 THEN <<0,1>> ELSE LET g == Gcd(Abs(n),Abs(d)) s == IF d < 0 THEN -1 ELSE 1 IN <<(s*n) \div g, (s*d) \div g>>
Add(a,b) == Q(a[1]*b[2] + b[1]*a[2], a[2]*b[2])
Sub(a,b) == Q(a[1]*b[2] - b[1]*a[2], a[2]*b[2])
Mul(a,b) == Q(a[1]*b[1], a[2]*b[2])
Div(a,b) == Q(a[1]*b[2], a[2]*b[1])
I(x) == <<x,1>>
n == NK - 1
\* x: [0..n -> Int] strictly increasing, y: [0..n -> Int]
H(x, i) == x[i+1] - x[i]
Alpha(x, y, i) == Sub(Q(3*(y[i+1]-y[i]), H(x,i)), Q(3*(y[i]-y[i-1]), H(x,i-1)))
LUZ(x, y) == LET F[i \in 0..n] == IF i = 0 THEN <<I(1), I(0), I(0)>>                  \* <<l, u, z>>
                                   ELSE IF i = n THEN <<I(1), I(0), I(0)>>
                                   ELSE LET l == Sub(I(2*(x[i+1]-x[i-1])), Mul(I(H(x,i-1)), F[i-1][2]))
                                        IN <<l, Div(I(H(x,i)), l), Div(Sub(Alpha(x,y,i), Mul(I(H(x,i-1)), F[i-1][3])), l)>>
               IN F
Coef(x, y) == LET luz == LUZ(x, y)
                  C[j \in 0..n] == IF j = n THEN I(0) ELSE Sub(luz[j][3], Mul(luz[j][2], C[j+1]))
                  B(j) == Sub(Q(y[j+1]-y[j], H(x,j)), Div(Mul(I(H(x,j)), Add(C[j+1], Mul(I(2), C[j]))), I(3)))
                  Dd(j) == Div(Sub(C[j+1], C[j]), I(3*H(x,j)))
              IN [j \in 0..(n-1) |-> [a |-> I(y[j]), b |-> B(j), c |-> C[j], d |-> Dd(j)]]
Eval(S, x, j, t) == LET h == Sub(t, I(x[j])) IN Add(S[j].a, Add(Mul(S[j].b, h), Add(Mul(S[j].c, Mul(h,h)), Mul(S[j].d, Mul(h, Mul(h,h))))))
D1(S, x, j, t) == LET h == Sub(t, I(x[j])) IN Add(S[j].b, Add(Mul(I(2), Mul(S[j].c, h)), Mul(I(3), Mul(S[j].d, Mul(h,h)))))
D2(S, x, j, t) == LET h == Sub(t, I(x[j])) IN Add(Mul(I(2), S[j].c), Mul(I(6), Mul(S[j].d, h)))
\* piece lookup: scale = 10^E ; the C code compares (x > xi || |x - xi| < 1e-2) && (x < xnext || |x - xnext| < 1e-2), first match wins,
\* over pieces 0..n-2 (the last stored piece is only reached through the fall-back)
NearE(E, a, b) == CASE LookupTol = "exact" -> a = b
                    [] E >= -2 -> a = b                                   \* spacing >= 1e-2: only equal knots are "near"
                    [] OTHER -> Abs(a - b) * 1 < 10                        \* E <= -3: every knot within 9 units is "near" (|d|*1e-3 < 1e-2)
Match(E, x, j, t) == (t > x[j] \/ NearE(E, t, x[j])) /\ (t < x[j+1] \/ NearE(E, t, x[j+1]))
Chosen(E, x, t) == IF \E j \in 0..(n-2) : Match(E, x, j, t) THEN CHOOSE j \in 0..(n-2) : Match(E, x, j, t) /\ \A k \in 0..(j-1) : ~Match(E, x, k, t) ELSE n - 1
PieceOf(x, t) == {j \in 0..(n-1) : x[j] <= t /\ t <= x[j+1]}
VARIABLES x, y, E
Init == /\ x \in {f \in [0..n -> 0..(2*n)] : \A i \in 0..(n-1) : f[i] < f[i+1]} /\ y \in [0..n -> -1..1] /\ E \in {-3, 0}
Next == UNCHANGED <<x, y, E>>
Spec == Init /\ [][Next]_<<x, y, E>>
Interpolates == LET S == Coef(x, y) IN \A j \in 0..(n-1) : Eval(S, x, j, I(x[j])) = I(y[j]) /\ Eval(S, x, j, I(x[j+1])) = I(y[j+1])
Smooth == LET S == Coef(x, y) IN \A j \in 0..(n-2) : D1(S, x, j, I(x[j+1])) = S[j+1].b /\ D2(S, x, j, I(x[j+1])) = Mul(I(2), S[j+1].c)
Natural == LET S == Coef(x, y) IN S[0].c = I(0) /\ D2(S, x, n-1, I(x[n])) = I(0)
LookupRight == \A i \in 0..n : Chosen(E, x, x[i]) \in PieceOf(x, x[i])
====
