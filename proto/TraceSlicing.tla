---- MODULE TraceSlicing ----
EXTENDS Slicing, Json, IOUtils
CONSTANT PropOnly
Tr == ndJsonDeserialize(IOEnv.TRACE)
VARIABLE l
ToSeq(sl) == [t \in 1..Len(sl) |-> <<sl[t][1], sl[t][2]>>]
PropSlices(ev) == ExactlyOnce(ToSeq(ev.sl), ev.rows) /\ Len(ev.sl) = ev.th
ImplSlices(ev) == PropOnly \/ ToSeq(ev.sl) = (IF ev.variant = "A" THEN AssignFirst(ev.rows, ev.th) ELSE AdvanceFirst(ev.rows, ev.th))
TInit == l = 1 /\ rows = 0 /\ th = 1
TNext == /\ l <= Len(Tr) /\ Tr[l].e = "Slices"
         /\ PropSlices(Tr[l]) /\ ImplSlices(Tr[l])
         /\ rows' = Tr[l].rows /\ th' = Tr[l].th /\ l' = l + 1
TSpec == TInit /\ [][TNext]_<<l, rows, th>>
TraceAccepted == TLCGet("stats").diameter = Len(Tr) + 1
====
