#include <stdio.h>
#include <stdlib.h>
#include <math.h>
#include <string.h>
#include "scientific.h"
#include "interpolate.h"
static double urand(unsigned *s){ *s = *s*1664525u+1013904223u; return ((*s>>8)&0xFFFFFF)/16777216.0; }
static double nrand(unsigned *s){ double a=0; for(int i=0;i<12;i++) a+=urand(s); return a-6; }
int main(){
  unsigned seed=5;
  /* ---- ROC AUC vs Mann-Whitney, monotone transform, negation ---- */
  double w_auc=0,w_mono=0,w_neg=0,w_perm=0; int prbad=0;
  for(int rep=0;rep<300;rep++){ int n=2+(int)(urand(&seed)*199); dvector *y,*s,*s2,*s3; NewDVector(&y,n);NewDVector(&s,n);NewDVector(&s2,n);NewDVector(&s3,n); int P=0,N=0;
    for(int i=0;i<n;i++){ y->data[i]=(urand(&seed)<0.4)?1:0; s->data[i]=nrand(&seed)+y->data[i]*0.7; } y->data[0]=1; y->data[n-1]=0; for(int i=0;i<n;i++){ if(y->data[i]==1)P++; else N++; s2->data[i]=exp(s->data[i])*3+1; s3->data[i]=-s->data[i]; }
    long wins=0; for(int i=0;i<n;i++)for(int j=0;j<n;j++) if(y->data[i]==1&&y->data[j]==0&&s->data[i]>s->data[j]) wins++;
    matrix *r; double auc,auc2,auc3,ap; initMatrix(&r); ROC(y,s,r,&auc); DelMatrix(&r); initMatrix(&r); ROC(y,s2,r,&auc2); DelMatrix(&r); initMatrix(&r); ROC(y,s3,r,&auc3); DelMatrix(&r);
    double mw=(double)wins/((double)P*N); if(fabs(auc-mw)>w_auc) w_auc=fabs(auc-mw); if(fabs(auc-auc2)>w_mono) w_mono=fabs(auc-auc2); if(fabs(auc+auc3-1)>w_neg) w_neg=fabs(auc+auc3-1);
    initMatrix(&r); PrecisionRecall(y,s,r,&ap); if(ap<0||ap>1+1e-12) prbad++; for(size_t i=1;i<r->row;i++) if(r->data[i][0]<r->data[i-1][0]) prbad++; if(fabs(r->data[r->row-1][0]-1)>1e-12) prbad++; DelMatrix(&r);
    DelDVector(&y);DelDVector(&s);DelDVector(&s2);DelDVector(&s3); }
  printf("ROC: |AUC-MW| %.3g ; monotone map diff %.3g ; |AUC+AUC(-s)-1| %.3g ; PR violations %d\n", w_auc,w_mono,w_neg,prbad);
  /* ---- spline at unit-ish scale (spacing >= 0.05) ---- */
  double w_int=0,w_c1=0,w_c2=0,w_nat=0,w_lin=0;
  for(int rep=0;rep<200;rep++){ int n=3+(int)(urand(&seed)*38); matrix *xy; NewMatrix(&xy,n,2); double x=urand(&seed)*10; int lin=(rep%5==0); for(int i=0;i<n;i++){ x+=0.05+urand(&seed)*3; xy->data[i][0]=x; xy->data[i][1]= lin? 2.5*x-7 : nrand(&seed)*4; }
    matrix *S; initMatrix(&S); cubic_spline_interpolation(xy,S); dvector *xs,*yp; NewDVector(&xs,n); for(int i=0;i<n;i++) xs->data[i]=xy->data[i][0]; initDVector(&yp); cubic_spline_predict(xs,S,yp);
    for(int i=0;i<n;i++){ double e=fabs(yp->data[i]-xy->data[i][1])/(1+fabs(xy->data[i][1])); if(e>w_int) w_int=e; }
    for(size_t j=0;j+1<S->row;j++){ double h=S->data[j+1][0]-S->data[j][0]; double b=S->data[j][2],c=S->data[j][3],d=S->data[j][4]; double d1=b+2*c*h+3*d*h*h, d2=2*c+6*d*h; double e1=fabs(d1-S->data[j+1][2])/(1+fabs(d1)), e2=fabs(d2-2*S->data[j+1][3])/(1+fabs(d2)); if(e1>w_c1)w_c1=e1; if(e2>w_c2)w_c2=e2; }
    { size_t j=S->row-1; double h=xy->data[n-1][0]-S->data[j][0]; double e=fabs(2*S->data[j][3]+6*S->data[j][4]*h); double e0=fabs(2*S->data[0][3]); if(e>w_nat)w_nat=e; if(e0>w_nat)w_nat=e0; }
    if(lin){ dvector *xm,*ym; NewDVector(&xm,n-1); for(int i=0;i<n-1;i++) xm->data[i]=(xy->data[i][0]+xy->data[i+1][0])/2; initDVector(&ym); cubic_spline_predict(xm,S,ym); for(int i=0;i<n-1;i++){ double e=fabs(ym->data[i]-(2.5*xm->data[i]-7)); if(e>w_lin)w_lin=e; } DelDVector(&xm);DelDVector(&ym);} 
    DelMatrix(&S);DelDVector(&xs);DelDVector(&yp);DelMatrix(&xy);} 
  printf("Spline(spacing>=0.05): interp %.3g ; C1 jump %.3g ; C2 jump %.3g ; natural ends %.3g ; linear repro %.3g\n", w_int,w_c1,w_c2,w_nat,w_lin);
  /* ---- linear algebra residuals on SPD / well-conditioned ---- */
  double w_inv=0,w_lu=0,w_det=0,w_pinv=0,w_eig=0,w_svdl=0,w_svd=0,w_lse=0; 
  for(int rep=0;rep<200;rep++){ int n=1+(int)(urand(&seed)*12); matrix *a,*inv,*lu,*prod; NewMatrix(&a,n,n); for(int i=0;i<n;i++)for(int j=0;j<n;j++) a->data[i][j]=nrand(&seed)+((i==j)?6:0);
    initMatrix(&inv); MatrixInversion(a,inv); NewMatrix(&prod,n,n); MatrixDotProduct(a,inv,prod); for(int i=0;i<n;i++)for(int j=0;j<n;j++){ double e=fabs(prod->data[i][j]-(i==j)); if(e>w_inv)w_inv=e; }
    initMatrix(&lu); MatrixLUInversion(a,lu); MatrixSet(prod,0); MatrixDotProduct(a,lu,prod); for(int i=0;i<n;i++)for(int j=0;j<n;j++){ double e=fabs(prod->data[i][j]-(i==j)); if(e>w_lu)w_lu=e; }
    matrix *u,*s,*vt; initMatrix(&u);initMatrix(&s);initMatrix(&vt); SVDlapack(a,u,s,vt); matrix *us,*usv; NewMatrix(&us,n,n); MatrixDotProduct(u,s,us); NewMatrix(&usv,n,n); MatrixDotProduct(us,vt,usv); for(int i=0;i<n;i++)for(int j=0;j<n;j++){ double e=fabs(usv->data[i][j]-a->data[i][j]); if(e>w_svdl)w_svdl=e; }
    matrix *u2,*s2,*vt2; initMatrix(&u2);initMatrix(&s2);initMatrix(&vt2); SVD(a,u2,s2,vt2); if(u2->row==(size_t)n&&vt2->row==(size_t)n){ MatrixSet(us,0); MatrixSet(usv,0); MatrixDotProduct(u2,s2,us); MatrixDotProduct(us,vt2,usv); for(int i=0;i<n;i++)for(int j=0;j<n;j++){ double e=fabs(usv->data[i][j]-a->data[i][j]); if(e>w_svd)w_svd=e; } }
    /* SolveLSE on diag-dominant */ matrix *aug; NewMatrix(&aug,n,n+1); double xs[16]; for(int i=0;i<n;i++){ xs[i]=nrand(&seed); } for(int i=0;i<n;i++){ double r=0; for(int j=0;j<n;j++){ aug->data[i][j]=a->data[i][j]; r+=a->data[i][j]*xs[j]; } aug->data[i][n]=r; } dvector *sol; initDVector(&sol); SolveLSE(aug,sol); for(int i=0;i<n;i++){ double e=fabs(sol->data[i]-xs[i]); if(e>w_lse)w_lse=e; }
    if(n<=8){ /* det multiplicative vs det(inv)=1/det */ double d1=MatrixDeterminant(a), d2=MatrixDeterminant(inv); double e=fabs(d1*d2-1); if(e>w_det)w_det=e; }
    DelMatrix(&a);DelMatrix(&inv);DelMatrix(&lu);DelMatrix(&prod);DelMatrix(&u);DelMatrix(&s);DelMatrix(&vt);DelMatrix(&us);DelMatrix(&usv);DelMatrix(&u2);DelMatrix(&s2);DelMatrix(&vt2);DelMatrix(&aug);DelDVector(&sol);} 
  printf("LinAlg(diag-dominant): |A inv-I| %.3g ; LU %.3g ; det(A)det(A^-1)-1 %.3g ; SVDlapack recon %.3g ; SVD(internal) recon %.3g ; SolveLSE err %.3g\n", w_inv,w_lu,w_det,w_svdl,w_svd,w_lse);
  return 0;
}
