---- MODULE Io ----
(* io.c: one SQLite table per model field, rows = flattened numbers; Write = DropAllTables ; per field *)
(* CREATE TABLE IF NOT EXISTS ; INSERT* .  Read = SELECT value (rowid order) ; deserialize.            *)
EXTENDS Naturals, Sequences, FiniteSets, TLC
CONSTANTS Paths, MaxHist, DropTables
Kinds == {"PCA", "CPCA", "PLS"}
Fields(k) == IF k = "PCA" THEN {"colaverage", "scores"} ELSE IF k = "CPCA" THEN {"scaling_factor", "super_scores"} ELSE {"b", "xscores"}
Sizes == {1, 2}
\* abstract model: kind, size class, tag (which write it was).  A vector field of size s flattens to s cells,
\* a matrix field to <<rows, cols>> \o cells with rows = s+1, cols = s.
IsMat(f) == f \in {"scores", "super_scores", "xscores"}
Ser(f, s, tag) == IF IsMat(f) THEN <<s + 1, s>> \o [i \in 1..((s + 1) * s) |-> tag] ELSE [i \in 1..s |-> tag]
NoRead == [valid |-> FALSE, p |-> CHOOSE q \in Paths : TRUE, k |-> "PCA", vec |-> [len |-> 0, tag |-> 0, first |-> 0], mat |-> [r |-> 0, c |-> 0, tag |-> 0]]
VARIABLES db, hist, lastw, lastread, lastkind
vars == <<db, hist, lastw, lastread, lastkind>>
AllTables == UNION {Fields(k) : k \in Kinds}
Init == /\ db = [p \in Paths |-> [t \in AllTables |-> [present |-> FALSE, rows |-> <<>>]]]
        /\ hist = 0 /\ lastw = [p \in Paths |-> [k \in Kinds |-> <<0, 0>>]] /\ lastread = NoRead /\ lastkind = [p \in Paths |-> "none"]
Drop(tabs) == IF DropTables THEN [t \in AllTables |-> [present |-> FALSE, rows |-> <<>>]] ELSE tabs
Ins(tabs, f, rows) == [tabs EXCEPT ![f] = [present |-> TRUE, rows |-> @.rows \o rows]]
Write(p, k, s) ==
  /\ hist < MaxHist /\ hist' = hist + 1
  /\ LET tag == hist + 1
         t0 == Drop(db[p])
         fs == Fields(k)
         f1 == CHOOSE f \in fs : ~IsMat(f)
         f2 == CHOOSE f \in fs : IsMat(f)
         t2 == Ins(Ins(t0, f1, Ser(f1, s, tag)), f2, Ser(f2, s, tag))
     IN /\ db' = [db EXCEPT ![p] = t2]
        /\ lastw' = [lastw EXCEPT ![p][k] = <<s, tag>>]
  /\ lastread' = NoRead /\ lastkind' = [lastkind EXCEPT ![p] = k]
\* deserialisation exactly as the C does it: a vector field is ALL rows; a matrix takes dims from rows 1-2, then r*c cells
DeVec(rows) == [len |-> Len(rows), tag |-> IF Len(rows) = 0 THEN 0 ELSE rows[Len(rows)], first |-> IF Len(rows) = 0 THEN 0 ELSE rows[1]]
DeMat(rows) == [r |-> rows[1], c |-> rows[2], tag |-> rows[3]]
Read(p, k) ==
  /\ hist < MaxHist /\ hist' = hist + 1 /\ lastkind[p] = k   \* reading kind k from a file whose latest model is another kind is not a valid request
  /\ LET fs == Fields(k) f1 == CHOOSE f \in fs : ~IsMat(f) f2 == CHOOSE f \in fs : IsMat(f)
     IN lastread' = [valid |-> TRUE, p |-> p, k |-> k, vec |-> DeVec(db[p][f1].rows), mat |-> DeMat(db[p][f2].rows)]
  /\ UNCHANGED <<db, lastw, lastkind>>
Next == \E p \in Paths, k \in Kinds : (\E s \in Sizes : Write(p, k, s)) \/ Read(p, k)
Spec == Init /\ [][Next]_vars
ReadsLast == lastread.valid =>
   LET w == lastw[lastread.p][lastread.k] IN
     /\ lastread.vec.len = w[1] /\ lastread.vec.tag = w[2] /\ lastread.vec.first = w[2]
     /\ lastread.mat.r = w[1] + 1 /\ lastread.mat.c = w[1] /\ lastread.mat.tag = w[2]
====
