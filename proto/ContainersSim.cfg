SPECIFICATION Spec
CONSTANTS Pool = {"a", "b", "c", "d"}
 MaxDim = 4
 Vals = {0, 1, 2}
 MaxLen = 40
CONSTRAINT Emit
CHECK_DEADLOCK FALSE
