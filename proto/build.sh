#!/bin/bash
# usage: build.sh <srcdir> <outdir> [extra cflags]
SRC=$1; OUT=$2; shift 2
mkdir -p $OUT
for f in $SRC/*.c; do b=$(basename $f .c)
  if [ $b = datasets ]; then gcc -O0 -std=c99 -D_GNU_SOURCE -fPIC -I/repo/_build -I$SRC -c $f -o $OUT/$b.o &
  else clang -fsanitize=address,undefined -fno-omit-frame-pointer -g -O1 -std=c99 -D_GNU_SOURCE -fPIC -I/repo/_build -I$SRC "$@" -c $f -o $OUT/$b.o 2>/dev/null &
  fi
done
wait
clang -fsanitize=address,undefined -shared -o $OUT/libsci.so $OUT/*.o -llapack -lblas -lsqlite3 -lm -lpthread
