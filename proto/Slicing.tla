---- MODULE Slicing ----
(* Row slicing used by MT_MatrixDVectorDotProduct, MT_DVectorMatrixDotProduct, CalculateDistance,   *)
(* the four *DistanceCondensed, MDC (variant "assignFirst": range stored, THEN advanced) and by    *)
(* KMeansppCenters / getLabels_ (variant "advanceFirst": from stored, from advanced, to := from).   *)
EXTENDS Naturals, Sequences, FiniteSets, TLC
CONSTANTS MaxRows, MaxThreads
CeilDiv(a, b) == (a + b - 1) \div b
RECURSIVE SlicesA(_, _, _, _, _)      \* (th, from, to, step, rows) -> sequence of <<from,to>>
SlicesA(n, from, to, step, rows) ==
  IF n = 0 THEN <<>>
  ELSE <<<<from, to>>>> \o SlicesA(n - 1, to, IF to + step > rows THEN rows ELSE to + step, step, rows)
AssignFirst(rows, th) == LET step == CeilDiv(rows, th) IN SlicesA(th, 0, step, step, rows)
RECURSIVE SlicesB(_, _, _, _)
SlicesB(n, from, nobj, rows) ==
  IF n = 0 THEN <<>>
  ELSE LET nf == IF from + nobj > rows THEN rows ELSE from + nobj IN <<<<from, nf>>>> \o SlicesB(n - 1, nf, nobj, rows)
AdvanceFirst(rows, th) == SlicesB(th, 0, CeilDiv(rows, th), rows)
Covered(sl, r) == Cardinality({t \in 1..Len(sl) : sl[t][1] <= r /\ r < sl[t][2]})
ExactlyOnce(sl, rows) == /\ \A t \in 1..Len(sl) : sl[t][1] <= sl[t][2] /\ sl[t][2] <= rows
                         /\ \A r \in 0..(rows - 1) : Covered(sl, r) = 1
\* condensed index (metricspace.c:292)
Idx(i, j, n) == LET ii == IF i < j THEN j ELSE i  jj == IF i < j THEN i ELSE j
                IN n * jj - (jj * (jj + 1)) \div 2 + ii - 1 - jj
Pairs(n) == {p \in (0..(n-1)) \X (0..(n-1)) : p[1] < p[2]}
CondensedBijection(n) == /\ \A p \in Pairs(n) : Idx(p[1], p[2], n) \in 0..((n * (n - 1)) \div 2 - 1) /\ Idx(p[1],p[2],n) = Idx(p[2],p[1],n)
                         /\ \A p, q \in Pairs(n) : p # q => Idx(p[1], p[2], n) # Idx(q[1], q[2], n)
                         /\ Cardinality(Pairs(n)) = (n * (n - 1)) \div 2
VARIABLES rows, th
Init == rows \in 0..MaxRows /\ th \in 1..MaxThreads
Next == UNCHANGED <<rows, th>>
Spec == Init /\ [][Next]_<<rows, th>>
InvA == ExactlyOnce(AssignFirst(rows, th), rows)
InvB == ExactlyOnce(AdvanceFirst(rows, th), rows)
InvC == th = 1 => CondensedBijection(rows)
====
