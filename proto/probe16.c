#include <stdio.h>
#include <stdlib.h>
#include <string.h>
#include "scientific.h"
int main(){ long bad=0, cases=0; char buf[16];
  for(int np=1; np<=24; np++){ sprintf(buf,"%d",np); setenv("LIBSCI_NPROC",buf,1);
    for(int rows=0; rows<=40; rows++){ int c=3; matrix *m; NewMatrix(&m,rows,c); for(int i=0;i<rows;i++)for(int j=0;j<c;j++) m->data[i][j]=(i*7+j*3)%11-5;
      dvector *v,*a,*b; NewDVector(&v,c); for(int j=0;j<c;j++) v->data[j]=j-1; NewDVector(&a,rows); NewDVector(&b,rows); MT_MatrixDVectorDotProduct(m,v,a); MatrixDVectorDotProduct(m,v,b); for(int i=0;i<rows;i++) if(a->data[i]!=b->data[i]) bad++;
      /* column-sliced variant: matrix c x rows so that the sliced dimension is `rows` */ matrix *t; NewMatrix(&t,c,rows); for(int i=0;i<c;i++)for(int j=0;j<rows;j++) t->data[i][j]=(i*5+j*2)%7-3; dvector *w,*p,*q; NewDVector(&w,c); for(int i=0;i<c;i++) w->data[i]=i+1; NewDVector(&p,rows); NewDVector(&q,rows); MT_DVectorMatrixDotProduct(t,w,p); DVectorMatrixDotProduct(t,w,q); for(int j=0;j<rows;j++) if(p->data[j]!=q->data[j]) bad++;
      /* distances with nthreads = np */ if(rows>0){ matrix *d1,*d2; initMatrix(&d1); initMatrix(&d2); CalculateDistance(m,m,d1,np,SQUARE_EUCLIDEAN); SquaredEuclideanDistance_ST(m,m,d2); for(int i=0;i<rows;i++)for(int j=0;j<rows;j++) if(d1->data[i][j]!=d2->data[i][j]) bad++; dvector *cd; initDVector(&cd); SquaredEuclideanDistanceCondensed(m,cd,np); for(int i=0;i<rows;i++)for(int j=i+1;j<rows;j++) if(cd->data[square_to_condensed_index(i,j,rows)]!=d2->data[i][j]) bad++; DelMatrix(&d1);DelMatrix(&d2);DelDVector(&cd); }
      cases++; DelMatrix(&m);DelMatrix(&t);DelDVector(&v);DelDVector(&a);DelDVector(&b);DelDVector(&w);DelDVector(&p);DelDVector(&q);} }
  printf("MT kernels/distances over nproc 1..24 x rows 0..40: %ld cases, %ld mismatches\n", cases, bad); return 0; }
