SPECIFICATION Spec
CONSTANT PropOnly = TRUE
INVARIANT BestNeverWorse
POSTCONDITION TraceAccepted
CHECK_DEADLOCK FALSE
