#include <stdio.h>
#include <stdlib.h>
#include <string.h>
#include "scientific.h"
static matrix *pool[8]; static long step=0, hist=0;
static void fail(const char *what){ printf("MISMATCH history %ld step %ld: %s\n", hist, step, what); exit(1); }
int main(int argc,char**argv){ FILE *f=fopen(argv[1],"r"); char op[32]; 
  while(fscanf(f,"%31s",op)==1){
    if(!strcmp(op,"RESET")){ for(int i=0;i<8;i++) if(pool[i]){ DelMatrix(&pool[i]); pool[i]=NULL; } hist++; step=0; continue; }
    if(!strcmp(op,"EXPECT")){ int x,r,c; fscanf(f,"%d %d %d",&x,&r,&c); if(r<0){ if(pool[x]) fail("expected dead"); continue; } if(!pool[x]) fail("expected live");
      int n=(r>0)?r*c:0; if((int)pool[x]->row!=r || (int)pool[x]->col!=c){ printf("dims got %zux%zu want %dx%d\n",pool[x]->row,pool[x]->col,r,c); /* still consume */ for(int i=0;i<n;i++){int v; fscanf(f,"%d",&v);} fail("dims"); }
      for(int i=0;i<r;i++)for(int j=0;j<c;j++){ int v; fscanf(f,"%d",&v); if(pool[x]->data[i][j]!=(double)v) fail("cell"); } continue; }
    step++; fprintf(stderr,"H%ld S%ld %s\n",hist,step,op);
    if(!strcmp(op,"NEW")){ int x,r,c; fscanf(f,"%d %d %d",&x,&r,&c); NewMatrix(&pool[x],r,c); }
    else if(!strcmp(op,"DEL")){ int x; fscanf(f,"%d",&x); DelMatrix(&pool[x]); pool[x]=NULL; }
    else if(!strcmp(op,"RESIZE")){ int x,r,c; fscanf(f,"%d %d %d",&x,&r,&c); ResizeMatrix(pool[x],r,c); }
    else if(!strcmp(op,"SET")){ int x,i,j,v; fscanf(f,"%d %d %d %d",&x,&i,&j,&v); setMatrixValue(pool[x],i,j,v); }
    else if(!strcmp(op,"APPROW")||!strcmp(op,"APPCOL")){ int x,n; fscanf(f,"%d %d",&x,&n); dvector *v; NewDVector(&v,n); for(int i=0;i<n;i++){int q; fscanf(f,"%d",&q); v->data[i]=q;} if(op[3]=='R') MatrixAppendRow(pool[x],v); else MatrixAppendCol(pool[x],v); DelDVector(&v); }
    else if(!strcmp(op,"DELROW")){ int x,k; fscanf(f,"%d %d",&x,&k); MatrixDeleteRowAt(pool[x],k); }
    else if(!strcmp(op,"DELCOL")){ int x,k; fscanf(f,"%d %d",&x,&k); MatrixDeleteColAt(pool[x],k); }
    else if(!strcmp(op,"COPY")){ int a,b; fscanf(f,"%d %d",&a,&b); MatrixCopy(pool[a],&pool[b]); }
  }
  printf("OK %ld histories\n", hist+1); return 0; }
