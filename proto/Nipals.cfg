SPECIFICATION FairSpec
CONSTANTS MaxRank = 3
 MaxNpc = 5
 MaxIter = 3
 Guarded = TRUE
PROPERTY Terminates
INVARIANT BeyondRankZero
CHECK_DEADLOCK FALSE
