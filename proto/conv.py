import sys, json
# TLC "@@{json}" lines -> flat script: one op line, then one EXPECT line per pool slot
names={}
def idx(x): return names.setdefault(x, len(names))
first=True
for line in sys.stdin:
    line=line.strip()
    if not line.startswith('"@@'): continue
    rec=json.loads(json.loads(line)[2:])
    if rec['lvl']==2 and not first: print("RESET")
    first=False
    op=rec['op']; n=op['name']
    if n=='init': continue
    if n=='NewMatrix': print("NEW",idx(op['x']),op['r'],op['c'])
    elif n=='DelMatrix': print("DEL",idx(op['x']))
    elif n=='ResizeMatrix': print("RESIZE",idx(op['x']),op['r'],op['c'])
    elif n=='setMatrixValue': print("SET",idx(op['x']),op['i'],op['j'],op['v'])
    elif n=='MatrixAppendRow': print("APPROW",idx(op['x']),len(op['v']),*op['v'])
    elif n=='MatrixAppendCol': print("APPCOL",idx(op['x']),len(op['v']),*op['v'])
    elif n=='MatrixDeleteRowAt': print("DELROW",idx(op['x']),op['k'])
    elif n=='MatrixDeleteColAt': print("DELCOL",idx(op['x']),op['k'])
    elif n=='MatrixCopy': print("COPY",idx(op['src']),idx(op['dst']))
    for x,p in sorted(rec['post'].items()):
        cells=[v for row in p['cell'] for v in row] if p['row']>0 else []
        print("EXPECT",idx(x),p['row'],p['col'],*cells)
