---- MODULE CvOrch ----
(* Batch orchestration of BootstrapRandomGroupsCV (modelvalidation.c:615-671): for(it_=0; it_<iters;   *)
(* it_ += nth){ create nth workers with seed = base + th + it_ ; join all ; merge th = 0..nth-1 }.      *)
(* Workers within a batch run concurrently (any completion order); merge happens after ALL joins.      *)
EXTENDS Integers, Sequences, FiniteSets, TLC
CONSTANTS MaxIters, MaxTh
VARIABLES iters, nth, it, running, done, merged, phase
vars == <<iters, nth, it, running, done, merged, phase>>
Init == /\ iters \in 1..MaxIters /\ nth \in 1..MaxTh
        /\ it = 0 /\ running = {} /\ done = {} /\ merged = <<>> /\ phase = "create"
Create == /\ phase = "create" /\ it < iters
          /\ running' = {it + th : th \in 0..(nth - 1)} /\ done' = {} /\ phase' = "run"
          /\ UNCHANGED <<iters, nth, it, merged>>
Finish(s) == /\ phase = "run" /\ s \in running \ done /\ done' = done \cup {s}      \* workers complete in any order
             /\ UNCHANGED <<iters, nth, it, running, merged, phase>>
JoinAll == /\ phase = "run" /\ done = running /\ phase' = "merge" /\ UNCHANGED <<iters, nth, it, running, done, merged>>
Merge == /\ phase = "merge"
         /\ merged' = merged \o [k \in 1..nth |-> it + k - 1]                       \* th ascending: seed offsets in order
         /\ it' = it + nth /\ phase' = "create" /\ running' = {} /\ done' = {}
         /\ UNCHANGED <<iters, nth>>
Stop == phase = "create" /\ it >= iters /\ UNCHANGED vars
Next == Create \/ (\E s \in running : Finish(s)) \/ JoinAll \/ Merge \/ Stop
Spec == Init /\ [][Next]_vars
Finished == phase = "create" /\ it >= iters
\* what a sequential run (nth = 1) merges: seed offsets 0,1,...,iters-1 in this order
SameAsSequentialWhenDivides == (Finished /\ iters % nth = 0) => merged = [k \in 1..iters |-> k - 1]
ExtraIterationsOtherwise == (Finished /\ iters % nth # 0) => Len(merged) = ((iters + nth - 1) \div nth) * nth /\ Len(merged) > iters
NoMergeBeforeJoin == phase = "merge" => done = running
====
