#include <stdio.h>
#include <stdlib.h>
#include <string.h>
#include <math.h>
#include <stdint.h>
#include <pthread.h>
#define LIBSCIENTIFIC_VERIF
#include "scientific.h"
#include "verif_hooks.h"
static long nrng, nslice, niter, ncv; static pthread_mutex_t mu = PTHREAD_MUTEX_INITIALIZER;
static void h_rng(int pt, const volatile uint32_t *w, uint32_t aux){ pthread_mutex_lock(&mu); nrng++; pthread_mutex_unlock(&mu); }
static size_t h_nproc(size_t d){ return 3; }
static void h_slice(const char *site, size_t th, size_t from, size_t to, size_t n){ pthread_mutex_lock(&mu); nslice++; if(nslice<=3) printf("slice %s th=%zu [%zu,%zu) of %zu\n",site,th,from,to,n); pthread_mutex_unlock(&mu); }
static void h_iter(const char *site, size_t comp, double a, double b, double conv){ pthread_mutex_lock(&mu); niter++; if(niter<=2) printf("iter %s comp=%zu a=%g b=%g conv=%g\n",site,comp,a,b,conv); pthread_mutex_unlock(&mu); }
static void h_cv(const char *ev, size_t a, size_t b, size_t c, const void *d){ pthread_mutex_lock(&mu); ncv++; if(ncv<=4) printf("cv %s %zu %zu %zu\n",ev,a,b,c); pthread_mutex_unlock(&mu); }
int main(){ libsci_verif_rng=h_rng; libsci_verif_nproc=h_nproc; libsci_verif_slice=h_slice; libsci_verif_iter=h_iter; libsci_verif_cv=h_cv;
  matrix *x,*y; NewMatrix(&x,12,3); NewMatrix(&y,12,1); for(int i=0;i<12;i++){for(int j=0;j<3;j++) x->data[i][j]=sin(i*1.3+j*2.1)*3+j; y->data[i][0]=x->data[i][0]*2-x->data[i][1]+0.3*cos(i*7.0);}
  PCAMODEL *m; NewPCAModel(&m); PCA(x,1,2,m,NULL);
  MODELINPUT in=initModelInput(); in.mx=x; in.my=y; in.nlv=2; in.xautoscaling=1; matrix *py,*pr; initMatrix(&py); initMatrix(&pr); BootstrapRandomGroupsCV(&in,3,4,_PLS_,py,pr,2,NULL,0);
  printf("events: rng=%ld slice=%ld iter=%ld cv=%ld\n",nrng,nslice,niter,ncv); return 0; }
