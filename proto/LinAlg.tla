---- MODULE LinAlg ----
(* Exact linear algebra over rationals <<n,d>> (d > 0, gcd 1) for small integer matrices, and a model  *)
(* of the two elimination schemes of the library on the same data:                                  *)
(*   NoPivotOK(A)     - MatrixInversion (matrix.c:1041): Gauss-Jordan on [A|I], never exchanges rows   *)
(*   PrePivotOK(A)    - SolveLSE (algebra.c:29): one pre-pass that swaps row k with the FIRST row i     *)
(*                      (from 0!) having a non-zero in column k, then plain forward elimination        *)
EXTENDS Integers, Sequences, FiniteSets, TLC
CONSTANT N
Vals == -1..2
Abs(x) == IF x < 0 THEN -x ELSE x
RECURSIVE Gcd(_,_)
Gcd(a,b) == IF b = 0 THEN a ELSE Gcd(b, a % b)
Norm(n,d) == IF n = 0 THEN <<0,1>> ELSE LET g == Gcd(Abs(n),Abs(d)) s == IF d < 0 THEN -1 ELSE 1 IN <<(s*n) \div g, (s*d) \div g>>
RMul(a,b) == Norm(a[1]*b[1], a[2]*b[2])
RSub(a,b) == Norm(a[1]*b[2] - b[1]*a[2], a[2]*b[2])
RDiv(a,b) == Norm(a[1]*b[2], a[2]*b[1])
RI(x) == <<x,1>>
IsZ(q) == q[1] = 0
Cols(M) == Len(M[1])
SwapRows(M, a, b) == [i \in 1..N |-> IF i = a THEN M[b] ELSE IF i = b THEN M[a] ELSE M[i]]
ElimCol(M, k) == LET piv == M[k][k]  rowk == [j \in 1..Cols(M) |-> RDiv(M[k][j], piv)]
                 IN [i \in 1..N |-> IF i = k THEN rowk ELSE [j \in 1..Cols(M) |-> RSub(M[i][j], RMul(M[i][k], rowk[j]))]]
FirstNZ(M, k, from) == IF \E i \in from..N : ~IsZ(M[i][k]) THEN CHOOSE i \in from..N : ~IsZ(M[i][k]) /\ \A j \in from..(i-1) : IsZ(M[j][k]) ELSE 0
\* reference: Gauss-Jordan with row exchange; returns <<reduced matrix, rank, sign, product of pivots>>
RECURSIVE GJ(_,_,_,_,_)
GJ(M, k, rank, sgn, det) == IF k > N THEN <<M, rank, sgn, det>>
   ELSE LET p == FirstNZ(M, k, k) IN
        IF p = 0 THEN GJ(M, k + 1, rank, sgn, <<0,1>>)          \* singular in this column (enough for N x N inverse/det)
        ELSE LET S == SwapRows(M, k, p) IN GJ(ElimCol(S, k), k + 1, rank + 1, IF p = k THEN sgn ELSE -sgn, RMul(det, S[k][k]))
Aug(A) == [i \in 1..N |-> [j \in 1..(2*N) |-> IF j <= N THEN RI(A[i][j]) ELSE IF j - N = i THEN RI(1) ELSE RI(0)]]
Red(A) == GJ(Aug(A), 1, 0, 1, <<1,1>>)
NonSingular(A) == Red(A)[2] = N
Det(A) == LET r == Red(A) IN IF r[2] < N THEN <<0,1>> ELSE RMul(RI(r[3]), r[4])
Inverse(A) == LET R == Red(A)[1] IN [i \in 1..N |-> [j \in 1..N |-> R[i][N + j]]]
\* Laplace expansion as a second, independent definition of the determinant (MatrixDeterminant does this)
Minor(A, n, col) == [i \in 1..(n-1) |-> [j \in 1..(n-1) |-> A[i + 1][IF j < col THEN j ELSE j + 1]]]
RECURSIVE Lap(_,_)
Lap(A, n) == IF n = 1 THEN A[1][1] ELSE IF n = 2 THEN A[1][1]*A[2][2] - A[2][1]*A[1][2]
             ELSE LET F[k \in 0..n] == IF k = 0 THEN 0 ELSE F[k-1] + (IF k % 2 = 1 THEN 1 ELSE -1) * A[1][k] * Lap(Minor(A, n, k), n - 1) IN F[n]
\* the library's schemes, on the zero pattern of the exact computation
RECURSIVE NoPivot(_,_)
NoPivot(M, k) == IF k > N THEN TRUE ELSE IF IsZ(M[k][k]) THEN FALSE ELSE NoPivot(ElimCol(M, k), k + 1)
NoPivotOK(A) == NoPivot(Aug(A), 1)
RECURSIVE PrePass(_,_)
PrePass(M, k) == IF k > N THEN M ELSE IF IsZ(M[k][k]) THEN LET i == FirstNZ(M, k, 1) IN PrePass(IF i = 0 THEN M ELSE SwapRows(M, i, k), k + 1) ELSE PrePass(M, k + 1)
PrePivotOK(A) == NoPivot(PrePass(Aug(A), 1), 1)
VARIABLE A
Init == A \in [1..N -> [1..N -> Vals]]
Next == UNCHANGED A
Spec == Init /\ [][Next]_A
DetAgree == Det(A) = RI(Lap(A, N))
InvNeedsNoPivot == NonSingular(A) => NoPivotOK(A)       \* expected to FAIL: the witness is what MatrixInversion gets wrong
SolveNeedsOnlyPrePass == NonSingular(A) => PrePivotOK(A) \* expected to FAIL: witness for SolveLSE
====
